# C07 — condition variables.  LOCKSTEP of the real detail::condition_variable on OS threads against
# Model/CondVar.v (OS-agent instance), runtime monitors of the public condition_variable(_any) API on pika
# tasks, and the bounded replay of the F14 witness (OS-thread timed wait + notify).
import json
import re
from vlib import Hit, Result, diff_lines, sh

ASSUMPTIONS = [
    'sequentially consistent interleaving; lock I / unlock U / push+unlock I / suspend / re-lock I / check+erase+unlock I / lock U are the atomic steps',
    'agent contracts: pika task = Base/Agent.v plus arbitrary stale tokens (CSpur); plain OS thread = default_agent as written (resume waits until the target is not running; sleep_until keeps it running)',
    'user lock U is any Lockable used correctly: waits, predicate writes and unlock are executed only by the thread that holds U (PIKA_ASSERT_OWNS_LOCK is the real precondition)',
    'stop_token internals (callback list, request_stop running every registered callback on the requesting thread) are specified, their lock-free implementation belongs to C14',
    'runtime monitors for timed waits only judge notifications that returned >= 30 ms before the deadline',
    'timed stop-token wait on pika tasks: a timed cv wait yields in sleep_until until its deadline, notified or not, so the runtime monitor asserts "returns pred() at the deadline at the latest" and "at once" (within 1.5 s of a 3 s deadline) only where the code returns without sleeping',
]

F14_KEY = 'C07:os_timed_wait:notifier_blocked_in_resume'

SLOW_FORM = {'w': 'wait', 'p': 'wait_pred', 's': 'wait_stop', 't': 'wait_for'}


def rt_run(r, h_rt, sd, n, mode, timeout):
    """one run of c07_rt (mode None = the seeded mix of scenarios, 'slow' = the slow-unlock scenario)"""
    args = [str(sd), str(n)] + ([mode] if mode else [])
    rc, out = sh([h_rt] + args, timeout=timeout)
    lines = out.split('\n')
    ins = [x for x in lines if x.startswith('IN RT ')]
    outs = [x for x in lines if x.startswith('OUT RT ')]
    rep0 = {'harness': 'c07_rt', 'args': [sd, n] + ([mode] if mode else [])}
    if rc != 0 or not outs:
        r.hits.append(Hit('monitor' if rc in (124, -6, 134, -11, 139) and outs else 'tie', 'C07:rt_harness' + (':slow_unlock' if mode else ''),
                          'c07_rt %s failed rc=%d: %s' % (' '.join(args), rc, out[-600:]), rep0))
    inmap = {x.split(' ')[2]: x for x in ins}
    r.evaluations += len(outs)
    for o_ in outs:
        p = o_.split(' ', 4)
        i_ = inmap.get(p[2], '')
        m = re.search(r'kind=(\w+)', i_)
        kind = m.group(1) if m else 'unknown'
        r.count('RT ' + ' '.join(i_.split(' ')[3:4] + [x for x in i_.split(' ')[4:] if x.startswith(('variant', 'lock', 'osn', 'form', 'mode'))]))
        if kind in ('slow', 'timed_stop'):
            r.nontrivial(i_)
        if kind == 'timed_stop':
            r.extra['timed_stop_cases'] = r.extra.get('timed_stop_cases', 0) + 1
        if 'ok=1' not in o_:
            detail = o_.split('detail=', 1)[1] if 'detail=' in o_ else o_
            if 'never registered' in detail and 'gave up' in detail:
                sig = 'C07:rt:%s:stalled' % kind
            elif kind == 'slow':
                f = dict(x.split('=', 1) for x in i_.split(' ')[3:] if '=' in x)
                form = SLOW_FORM.get(f.get('form', ''), 'wait')
                if 'woke only' in detail or 'hang' in detail or 'did not finish' in detail:
                    sig = 'C07:rt:slow_unlock:%s:notify_%s:lost_notification' % (form, f.get('mode', 'x'))
                elif 'timeout although' in detail:
                    sig = 'C07:rt:slow_unlock:wait_for:timeout_although_notified'
                else:
                    sig = 'C07:rt:slow_unlock:%s:return_state' % form
            elif kind in ('all', 'one'):
                sig = 'C07:rt:%s:lost_notification' % kind if ('woke only' in detail or 'hang' in detail or 'did not finish' in detail) else 'C07:rt:%s:return_state' % kind
            elif kind == 'timed':
                sig = 'C07:rt:timed:' + ('timeout_although_notified' if 'although' in detail else 'status')
            elif kind == 'pred':
                sig = 'C07:rt:pred:' + ('returned_with_false_predicate' if 'never set' in detail else 'no_return' if 'did not return' in detail else 'return_state')
            elif kind == 'timed_stop':
                m2 = re.search(r'variant=(\w+)', i_)
                var = m2.group(1) if m2 else 'x'
                what = ('no_return' if 'did not return' in detail else 'late' if 'returned late' in detail else
                        'early' if 'before its deadline' in detail else 'value' if 'value' in detail else
                        'stop_not_seen' if 'stop_requested() false' in detail else 'return_state')
                sig = 'C07:rt:timed_stop:%s:%s' % (var, what)
            elif kind == 'stop':
                sig = 'C07:rt:stop:' + ('no_return' if 'did not return' in detail else 'value')
            else:
                sig = 'C07:rt:hang'
            r.hits.append(Hit('monitor', sig, 'condition variable (runtime): %s — case [%s]' % (detail[:400], i_),
                              dict(rep0, case=i_, observed=o_)))
    for s_ in ins[:2]:
        r.sample({'runtime_case': s_})


def mw_run(r, h_mw, sd, n, timeout, only=None):
    """several interruptible waits on ONE stop state (c07_multi): the registrations of different waiters coexist in the
    stop state and leave in any order relative to their registration before request_stop is issued"""
    args = ['one', str(sd), str(only)] if only is not None else [str(sd), str(n)]
    rc, out = sh([h_mw] + args, timeout=timeout)
    lines = out.split('\n')
    ins = [x for x in lines if x.startswith('IN MW ')]
    outs = [x for x in lines if x.startswith('OUT MW ')]
    inmap = {x.split(' ')[2]: x for x in ins}
    done = set(x.split(' ')[2] for x in outs)
    r.evaluations += len(outs)
    for i_ in ins[:2]:
        r.sample({'stop_multi_case': i_})
    for i_ in ins:
        f = dict(x.split('=', 1) for x in i_.split(' ')[3:] if '=' in x)
        r.count('MW order=%s cv=%s requester=%s' % (f.get('order'), f.get('cv'), f.get('requester')))
        if f.get('leave') != '-':
            r.nontrivial(i_)
    r.extra['stop_multi_cases'] = r.extra.get('stop_multi_cases', 0) + len(outs)
    for o_ in outs:
        if ' ok=1' in o_:
            continue
        cid = o_.split(' ')[2]
        i_ = inmap.get(cid, '')
        f = dict(x.split('=', 1) for x in o_.split(' ')[3:6] if '=' in x)
        what, order = f.get('what', 'unknown'), f.get('order', 'x')
        detail = o_.split('detail=', 1)[1] if 'detail=' in o_ else o_
        r.hits.append(Hit('monitor', 'C07:rt:stop_wait:%s:%s' % (what, order),
                          'several condition_variable_any::wait(lock, stop_token, pred) calls on tokens of ONE stop_source, some waiters left '
                          '(predicate set + notified) before request_stop(): %s -- case [%s]' % (detail[:400], i_),
                          {'harness': 'c07_multi', 'args': ['one', sd, int(cid)], 'case': i_, 'observed': o_}))
    # a case that printed its IN line and nothing else: the process died inside it
    dead = [x for x in ins if x.split(' ')[2] not in done]
    if dead:
        i_ = dead[-1]
        m = re.search(r'order=(\w+)', i_)
        r.hits.append(Hit('monitor', 'C07:rt:stop_wait:crash:%s' % (m.group(1) if m else 'x'),
                          'the process died (rc=%d) inside a case with several stop-token waits on one stop state: case [%s] tail [%s]'
                          % (rc, i_, out[-300:]), {'harness': 'c07_multi', 'args': ['one', sd, int(i_.split(' ')[2])], 'case': i_}))
    elif rc != 0 or not outs:
        r.hits.append(Hit('tie', 'C07:multi_harness', 'c07_multi %s failed rc=%d: %s' % (' '.join(args), rc, out[-600:]),
                          {'harness': 'c07_multi', 'args': args}))
def tp_run(ctx, r, h_tp, drv, sd, n, nseq, timeout, only=None, only_seq=False):
    """round h12a — the TIMED PREDICATE forms of the public header (harness/c07_tpred.cpp).
    RT: one waiter (task / OS thread) inside condition_variable(_any)::wait_for / wait_until (lock, [stop_token,] t, pred), one notifier
    (OS thread / task) that — in the late scenarios — holds the user lock from before the waiter's re-lock attempt (seen through a counting user
    mutex: no timing margin) until it has written the predicate; monitors: returned value == predicate read under the lock right after the
    return, lock owned on return and at every evaluation, no false before the deadline, the call returns.
    SEQ: a scripted predicate and a passed / near deadline on one thread, DIFF of (trace of evaluations and inner waits, returned value) against
    the extracted loop of Model/TimedPredLoop.v with the on-timeout expression regenerated from the header."""
    def one(args, tag):
        rc, out = sh([h_tp] + args, timeout=timeout)
        lines = out.split('\n')
        if rc != 0 or not [x for x in lines if x.startswith('OUT ')]:
            r.hits.append(Hit('tie', 'C07:tpred_harness', 'c07_tpred %s failed rc=%d: %s' % (' '.join(args), rc, out[-600:]),
                              {'harness': 'c07_tpred', 'args': args}))
        return lines
    # ---- RT
    if not only_seq:
        lines = one(['one', str(sd), str(only)] if only is not None else [str(sd), str(n)], 'rt')
        ins = {x.split(' ')[2]: x for x in lines if x.startswith('IN TP ')}
        outs = [x for x in lines if x.startswith('OUT TP ')]
        r.evaluations += len(outs)
        for i_ in list(ins.values())[:2]:
            r.sample({'timed_pred_case': i_})
        for o_ in outs:
            cid = o_.split(' ')[2]
            i_ = ins.get(cid, '')
            f = dict(x.split('=', 1) for x in i_.split(' ')[3:] if '=' in x)
            r.count('TP timing=%s waiter=%s notifier=%s' % (f.get('timing'), f.get('waiter'), f.get('notifier')))
            r.count('TP cv=%s form=%s' % (f.get('cv'), f.get('form')))
            ex = ' exercised=1 ' in o_
            if f.get('timing', '').startswith('late') or f.get('timing') == 'flip':
                r.extra['timed_pred_late_exercised' if ex else 'timed_pred_late_degraded'] = r.extra.get('timed_pred_late_exercised' if ex else 'timed_pred_late_degraded', 0) + 1
            if ex:
                r.nontrivial(i_)
            if ' ok=1 ' in o_:
                continue
            m = re.search(r' what=(\w+)', o_)
            what = m.group(1) if m else 'unknown'
            detail = o_.split('detail=', 1)[1] if 'detail=' in o_ else o_
            r.hits.append(Hit('monitor', 'C07:rt:timed_pred:%s:%s' % (f.get('timing', 'x'), what),
                              'timed predicate wait (%s::%s, %s, waiter %s, notifier %s, scenario %s): %s -- case [%s]' % (
                                  f.get('cv'), f.get('form'), f.get('mutex'), f.get('waiter'), f.get('notifier'), f.get('timing'), detail[:500], i_),
                              {'harness': 'c07_tpred', 'args': ['one', sd, int(cid)], 'case': i_, 'observed': o_[:700]}))
        dead = [x for k, x in ins.items() if k not in set(y.split(' ')[2] for y in outs)]
        if dead:
            i_ = dead[-1]
            f = dict(x.split('=', 1) for x in i_.split(' ')[3:] if '=' in x)
            r.hits.append(Hit('monitor', 'C07:rt:timed_pred:%s:crash' % f.get('timing', 'x'),
                              'the process died inside a timed predicate wait case: [%s] tail [%s]' % (i_, ' | '.join(lines[-3:])[-300:]),
                              {'harness': 'c07_tpred', 'args': ['one', sd, int(i_.split(' ')[2])], 'case': i_}))
    # ---- SEQ
    if only is not None and not only_seq:
        return
    lines = one((['one', str(sd), str(only), 'seq'] if only is not None else [str(sd), str(nseq), 'seq']), 'seq')
    ins = [x for x in lines if x.startswith('IN TPRED ')]
    outs = [x for x in lines if x.startswith('OUT TPRED ')]
    rc2, mout = sh([drv], input='\n'.join(ins) + '\n', timeout=300)
    mouts = [x for x in mout.split('\n') if x.startswith('OUT TPRED ')]
    inmap = {x.split(' ')[2]: x for x in ins}
    diffs, nn = diff_lines(ctx, outs, mouts)
    r.evaluations += len(outs)
    r.traces += nn
    for i_ in ins:
        p = i_.split(' ')
        r.count('TPRED class=%s script=%s' % (p[3], p[4]))
        if p[4].startswith('0'):
            r.nontrivial(i_)
    for i_, o_ in list(zip(ins, outs))[:1]:
        r.sample({'timed_pred_scripted': i_, 'observed': o_})
    for (k, a, b) in diffs[:6]:
        i_ = inmap.get(k[1], '')
        cid = k[1]
        # the same comparison as a monitor on the implementation: the call must return the value of its LAST predicate evaluation, made after the last inner wait
        m = re.search(r'trace=(\S+) ret=(\d)', a)
        stale = bool(m) and not m.group(1).endswith('P' + m.group(2))
        if stale:
            r.hits.append(Hit('monitor', 'C07:seq:timed_pred:stale_value',
                              'scripted timed predicate wait on one thread (nobody notifies, every inner wait times out): the call returned %s but the trace of '
                              'predicate evaluations / inner waits is %s — the returned value is not the predicate evaluated after the last inner wait '
                              '(model: %s) -- case [%s]' % (m.group(2), m.group(1), b, i_),
                              {'harness': 'c07_tpred', 'args': ['one', sd, int(cid), 'seq'], 'case': i_, 'impl': a, 'model': b}))
        r.hits.append(Hit('corr', 'C07:seq:timed_pred:correspondence',
                          'timed predicate loop: implementation and model (TimedPredLoop.v with the regenerated on-timeout expression) differ: impl [%s] model [%s] case [%s]' % (a, b, i_),
                          {'harness': 'c07_tpred', 'args': ['one', sd, int(cid), 'seq'], 'case': i_, 'impl': a, 'model': b}))
    for m_ in [x for x in lines if x.startswith('MON TPRED ')]:
        mm = re.search(r'what=(\w+)', m_)
        r.hits.append(Hit('monitor', 'C07:seq:timed_pred:%s' % (mm.group(1) if mm else 'x'), m_[:500],
                          {'harness': 'c07_tpred', 'args': ['one', sd, int(m_.split(' ')[2]), 'seq'], 'observed': m_[:500]}))


def run_abort(ctx, r, drv):
    """round w11c — abort_all on the real pika::detail::condition_variable (harness/c07_abort.cpp, plain OS threads, own process per
    case): n queued waiters, then abort_all(lock) / the destructor.  Monitor (no model): every waiter's wait ends with the
    yield_aborted exception exactly once, none returns normally, none stays blocked, the queue is empty.  DIFF against the extracted
    Model/CondVarAbort.v (kind ABORT): abort() calls, exceptions, blocked, finished, queue, agents still carrying the abort reason."""
    from vlib import sh as _sh, Hit as _Hit, diff_lines as _diff
    h = ctx.build_harness('c07_abort', 'c07_abort.cpp')
    rng_n = [1, 2 + ctx.seed % 3, 5 + ctx.seed % 4] if ctx.tier == 'quick' else [1, 2, 3, 4, 6, 9, 16]
    cases = [('%s%d' % (m[0], n), n, m) for n in rng_n for m in ('call', 'dtor')]
    rc, mout = _sh([drv], input=''.join('IN ABORT %s %d 1\n' % (cid, n) for cid, n, m in cases), timeout=120)
    model = [x for x in mout.split('\n') if x.startswith('OUT ABORT ')]
    impl = []
    for cid, n, m in cases:
        cmd = [h, cid, str(n), m]
        rc, out = _sh(cmd, timeout=90)
        rep = {'harness': 'c07_abort', 'cmd': cmd[1:]}
        lines = [x for x in out.split('\n') if x.startswith('OUT ABORT ')]
        r.evaluations += 1
        r.count('ABORT:mode=%s' % m)
        r.count('ABORT:waiters=%d' % n)
        if not lines:
            r.hits.append(_Hit('monitor', 'C07:abort:crash', 'abort_all scenario %s: no result (rc=%d): %s' % (cid, rc, ' | '.join(out.split('\n')[-4:])[:400]), rep))
            continue
        o = lines[0]
        kv = dict(x.split('=', 1) for x in o.split(' ')[3:] if '=' in x)
        r.nontrivial('abort %s' % cid)
        if kv.get('queued') != '1':
            r.notes.append('abort_all scenario %s: the waiters did not all queue up within 20 s (load?) — case skipped' % cid)
            continue
        impl.append(o.split(' all=')[0])
        if kv['thrown'] != str(n) or kv['returned_normally'] != '0' or kv['other_exceptions'] != '0':
            r.hits.append(_Hit('monitor', 'C07:abort:not_every_waiter_aborted_once', '%s with %d queued waiters: %s waits ended with yield_aborted, %s returned '
                               'normally, %s other exceptions (%s)' % ('~condition_variable' if m == 'dtor' else 'abort_all(lock)', n, kv['thrown'],
                                                                       kv['returned_normally'], kv['other_exceptions'], o), rep))
        if kv['blocked'] != '0' or kv['finished'] != str(n):
            r.hits.append(_Hit('monitor', 'C07:abort:waiter_left_blocked', '%s with %d queued waiters: %s still blocked in the aborted wait, %s of %d threads finished (%s)'
                               % ('~condition_variable' if m == 'dtor' else 'abort_all(lock)', n, kv['blocked'], kv['finished'], n, o), rep))
        if kv['queue'] != '0':
            r.hits.append(_Hit('monitor', 'C07:abort:queue_not_empty', 'abort_all returned with %s entries queued and no new waiter (%s)' % (kv['queue'], o), rep))
        if len(r.samples) < 10:
            r.sample({'abort_all': cid, 'observed': o[:300]})
    diffs, nn = _diff(ctx, impl, [x for x in model if x.split(' ')[2] in [y.split(' ')[2] for y in impl]])
    r.traces += nn
    for (k, a, b) in diffs[:5]:
        r.hits.append(_Hit('corr', 'C07:abort:correspondence', 'abort_all: implementation and model (CondVarAbort.v) differ (%s): impl [%s] model [%s]' % (k, a, b),
                           {'harness': 'c07_abort', 'impl': a, 'model': b}))


def run(ctx):
    r = Result()
    r.rule = ('LOCKSTEP (detail::condition_variable on 2..5 std::threads, programs of wait/notify_one/notify_all from VERIF_SEED): '
              'the controller picks the interleaving at the operation starts, before suspend and after suspend; the model replays it '
              'and predicts after every step which thread is finished/blocked/parked where (i.e. whom each notify wakes) and every '
              'return value; stuck states are detected on both sides and rescued by a controller notify_all.  RUNTIME: seeded cases '
              '(notify_all/notify_one rounds with registered-waiter counts, predicate/timed/stop-token waits, lock types '
              'mutex/spinlock/custom, task and OS-thread notifiers) with monitors; TIMED STOP-TOKEN WAIT (kind=timed_stop: '
              'condition_variable_any::wait_for/wait_until(lock, stop_token, t, pred), 1..4 waiter tasks, unique_lock<pika::mutex> / custom lock, '
              'variants stop_after_reg / pred_notify / nobody / stop_on_entry / stop_in_pred (request_stop from the first pred(), i.e. between '
              'callback registration and the re-check under the internal lock) / pred_on_entry; monitor: returns by deadline + 6 s, value == pred() '
              'read under the lock, false without stop requested only at/after the deadline, the last three variants within half of a 3 s deadline, '
              'ownership/occupancy on return).  SLOW-UNLOCK (c07_rt <seed> <n> slow): condition_variable_any '
              'with a user BasicLockable whose unlock() keeps the caller busy 1..2 ms after the underlying mutex (pika::mutex / spinlock) '
              'was released; 1..4 waiters in wait(lk) loops / wait(lk,pred) / wait(lk,stop_token,pred) / wait_for(lk,300ms); the notifier '
              '(task or OS thread) is blocked on that mutex, and as soon as it owns it changes the predicate and issues notify_all / '
              'notify_one / request_stop (under the lock or right after unlocking); monitor: every waiter registered before the notifier '
              'acquired the lock wakes within an 8 s watchdog (notify_one: at least one), wait_for does not report timeout for a '
              'notification that returned >= 150 ms before its deadline, return value / ownership as above.  STOP-MULTI (c07_multi <seed> <n>): 2..4 waiters '
              '(pika tasks with unique_lock<pika::mutex> / unique_lock<spinlock>, OS threads with unique_lock<std::mutex>; one shared '
              'condition_variable_any or one each) inside wait(lock, stop_token, pred) with tokens of ONE stop_source, registered in a controlled '
              'order (next waiter started after the previous one evaluated its predicate) or all at once; a seeded subset leaves early in a seeded '
              'order relative to registration (earliest first / latest first / a middle one first / any permutation: predicate set under the user lock '
              '+ notify_all), optionally new waiters register while those deregister; the leavers overwrite their dead stack frames; then '
              'request_stop() from a task or an OS thread; monitor: every leaver returns true, every remaining waiter is still waiting before and '
              'returns false within 10 s after request_stop (which returns true), user lock owned, no crash.  TIMED-PRED (c07_tpred <seed> <n>): one waiter (pika task / plain OS thread) in '
              'condition_variable::wait_for|wait_until(unique_lock<M>&, t, pred) / condition_variable_any::...(Lock&, [stop_token,] t, pred) with M = a counting user mutex around std::mutex / spinlock / '
              'pika::mutex, one notifier (OS thread / task): never | early_notify | early_silent (predicate set under the lock, no notification) | late_notify / late_silent / late_false / late_stop '
              '(the notifier takes the lock while the waiter sleeps and keeps it until it SEES the waiter blocked re-acquiring it after the deadline, then writes the predicate [+ notify_all / '
              'request_stop] and unlocks) | flip (set + notify early, reset to false while the waiter is blocked re-acquiring the lock); for OS-thread waiters no notification is issued while they '
              'sleep (F14); monitors: returned value == predicate read under the lock right after the return, lock owned on return and at every evaluation of the predicate, no false before the '
              'deadline, no false when the predicate was set > 1 ms before the deadline, the call returns; SEQ (c07_tpred <seed> <n> seq): one thread, scripted predicate, passed / 1..3 ms deadline: '
              'trace of evaluations and inner waits + returned value DIFFed against the extracted Model/TimedPredLoop.v.  Non-trivial lock-step case = some thread blocked in '
              'suspend or in resume at some step; distinct = distinct IN lines')
    ctx.build_pika()
    drv = ctx.build_model('C07', 'ExtractC07.v', 'drv_c07.ml')
    h_ls = ctx.build_harness('c07_ls', 'c07_ls.cpp')
    h_rt = ctx.build_harness('c07_rt', 'c07_rt.cpp')
    h_f14 = ctx.build_harness('c07_f14', 'c07_f14.cpp')
    h_mw = ctx.build_harness('c07_multi', 'c07_multi.cpp')
    h_tp = ctx.build_harness('c07_tpred', 'c07_tpred.cpp')
    quick = ctx.tier == 'quick'
    seeds = [ctx.seed] if quick else [ctx.seed + 1000 * k for k in range(4)]
    if ctx.replay:
        try:
            rpj = json.load(open(ctx.replay))
            seeds = [int(rpj.get('seed', ctx.seed))]
            rp = rpj.get('replay', {})
            if rp.get('harness') == 'c07_multi' and rp.get('args', [''])[0] == 'one':
                mw_run(r, h_mw, int(rp['args'][1]), 1, 120, only=int(rp['args'][2]))
                return r
            if rp.get('harness') == 'c07_tpred' and rp.get('args', [''])[0] == 'one':
                tp_run(ctx, r, h_tp, drv, int(rp['args'][1]), 1, 1, 180, only=int(rp['args'][2]), only_seq=(len(rp['args']) > 3))
                return r
        except Exception:
            pass
    n_ls = 3000 if quick else 20000
    n_rt = 700 if quick else 5000
    n_slow = 400 if quick else 1500
    n_mw = 1000 if quick else 6000
    n_tp = 160 if quick else 1200
    n_tpseq = 120 if quick else 600
    for sd in seeds:
        # ---- lock-step
        rc, out = sh([h_ls, str(sd), str(n_ls)], timeout=600 if quick else 3000)
        lines = out.split('\n')
        ins = [x for x in lines if x.startswith('IN ')]
        outs = [x for x in lines if x.startswith('OUT ')]
        if rc != 0 or not outs:
            r.hits.append(Hit('tie', 'C07:ls_harness', 'c07_ls failed rc=%d: %s' % (rc, out[-600:]), {'harness': 'c07_ls', 'args': [sd, n_ls]}))
        rc2, mout = sh([drv], input='\n'.join(ins) + '\n', timeout=1800)
        mouts = [x for x in mout.split('\n') if x.startswith('OUT ')]
        inmap = {(x.split(' ')[1], x.split(' ')[2]): x for x in ins}
        diffs, ncases = diff_lines(ctx, [x for x in outs if 'hang=1' not in x], mouts)
        r.evaluations += ncases
        r.traces += ncases
        for o_ in outs:
            p = o_.split(' ')
            i_ = inmap.get((p[1], p[2]), '')
            T = int(i_.split(' ')[3]) if i_ else 0
            r.count('CV lockstep threads=%d' % T)
            views = p[3]
            if '1' in views.replace('views=', ''):
                r.nontrivial(i_)
            if 'hang=1' in o_:
                r.hits.append(Hit('monitor', 'C07:cv:lockstep_hang',
                                  'detail condition variable: threads neither parked, blocked in suspend/resume nor finished (lost wake-up or spin) on case [%s] observed [%s]' % (i_[:300], o_[-300:]),
                                  {'harness': 'c07_ls', 'args': [sd, n_ls], 'case': i_, 'observed': o_}))
            # monitor on the implementation: on OS threads (no stale tokens) every wait must report "signaled"
            res = [x for x in p if x.startswith('res=')]
            if res and 'T' in res[0]:
                r.hits.append(Hit('monitor', 'C07:cv:os_wait_not_signaled',
                                  'detail condition variable on OS threads: a wait returned without having been notified: case [%s] observed [%s]' % (i_[:300], o_[-200:]),
                                  {'harness': 'c07_ls', 'args': [sd, n_ls], 'case': i_, 'observed': o_}))
        for (k, a, b) in diffs[:10]:
            if '<implementation produced no line>' in a:
                continue
            r.hits.append(Hit('corr', 'C07:cv:correspondence',
                              'detail condition variable: implementation and model differ on case %s: impl [%s] model [%s]' % (k[1], a[:500], b[:500]),
                              {'harness': 'c07_ls', 'args': [sd, n_ls], 'case': inmap.get(k), 'impl': a, 'model': b}))
        for s in list(zip(ins, outs))[:2]:
            r.sample({'lockstep_programs_and_schedule': s[0], 'observed_views_per_step': s[1][:500]})
        # ---- runtime monitors
        rt_run(r, h_rt, sd, n_rt, None, 900 if quick else 3000)
        # ---- slow-unlock scenario (atomic release of U w.r.t. notifiers; the window a wrong order opens is 1..2 ms wide)
        rt_run(r, h_rt, sd, n_slow, 'slow', 600 if quick else 1500)
        # ---- several stop-token waits on one stop state, leaving in every order relative to their registration
        mw_run(r, h_mw, sd, n_mw, 300 if quick else 900)
        # ---- timed predicate forms: late / early / never scenarios + the scripted sequential DIFF against Model/TimedPredLoop.v
        tp_run(ctx, r, h_tp, drv, sd, n_tp, n_tpseq, 600 if quick else 1800)
    # ---- F14: the witness of C07_os_timed_wait_blocks_notifier_refuted on the real code (bounded by a watchdog)
    rc, out = sh([h_f14], timeout=60)
    o_ = [x for x in out.split('\n') if x.startswith('OUT F14')]
    rc2, outc = sh([h_f14, 'u'], timeout=60)
    oc = [x for x in outc.split('\n') if x.startswith('OUT F14')]
    r.evaluations += 2
    if not o_ or not oc:
        r.hits.append(Hit('tie', 'C07:f14_harness', 'c07_f14 produced no result: %s %s' % (out[-300:], outc[-300:]), {'harness': 'c07_f14'}))
    else:
        if 'notifier_returned=1' not in oc[0] or 'waiter_returned=1' not in oc[0] or 'status=0' not in oc[0]:
            r.hits.append(Hit('monitor', 'C07:os_wait:lost_notification',
                              'OS threads, untimed wait + notify_one: %s' % oc[0], {'harness': 'c07_f14', 'args': ['u'], 'observed': oc[0]}))
        if 'notifier_returned=0' in o_[0]:
            r.hits.append(Hit('monitor', F14_KEY,
                              'OS-thread waiter in wait_for(400 ms), notify_one from another OS thread 50 ms later: notify_one did not return within 3 s '
                              '(blocked in default_agent::resume holding the internal lock) and the waiter did not return either: %s' % o_[0],
                              {'harness': 'c07_f14', 'args': [], 'observed': o_[0],
                               'model_witness': 'C07_os_timed_wait_blocks_notifier_refuted (f14_progs, f14_sched)'}))
            r.notes.append('F14 reproduced: ' + o_[0])
        elif 'status=1' in o_[0]:
            r.hits.append(Hit('monitor', 'C07:os_timed_wait:timeout_although_notified',
                              'OS-thread timed wait notified 350 ms before its deadline reported timeout: %s' % o_[0],
                              {'harness': 'c07_f14', 'observed': o_[0]}))
        else:
            r.notes.append('F14 witness no longer deadlocks on this tree: ' + o_[0])
            r.hits.append(Hit('model', 'C07:os_timed_wait:model_stale',
                              'the model proves os_timed_wait_blocks_notifier_refuted but the implementation completed the witness (%s): the OS-agent instance of the model no longer matches the code' % o_[0],
                              {'harness': 'c07_f14', 'observed': o_[0]}))
    run_abort(ctx, r, drv)
    return r
