# C17 — concurrent queues.  LOCKSTEP of the real contiguous_index_queue against IndexQueue.v.
import os
from vlib import Hit, Result, diff_lines, sh

ASSUMPTIONS = [
    'sequentially consistent interleaving at LOAD/CAS granularity; compare_exchange_weak never fails spuriously on x86 (the model allows it, the lock-step runs do not exercise it)',
    'moodycamel ConcurrentQueue internals are specified (bag with per-producer FIFO), not modelled',
]


def iq_monitor(inl, outl):
    """the property itself, evaluated on the implementation's observations of one case"""
    p = inl.split(' ')
    f, l, T = int(p[3]), int(p[4]), int(p[5])
    progs = p[6:6 + T]
    fields = dict(x.split('=', 1) for x in outl.split(' ')[3:])
    per = [[] if s == '' else s.split(',') for s in fields['res'].split('|')]
    rest = [] if fields['rest'] == '-' else [int(x) for x in fields['rest'].split(',')]
    popped = []
    lefts, rights = [], []
    sawnone = False
    for t in range(T):
        for k, r in enumerate(per[t]):
            if r == 'n':
                sawnone = True
            else:
                popped.append(int(r))
    allv = popped + rest
    if len(set(allv)) != len(allv):
        return 'duplicate', 'an index was handed out twice: popped=%s rest=%s' % (popped, rest)
    if sorted(allv) != list(range(f, l)):
        return 'lost_or_invented', 'popped+remaining != initial range [%d,%d): %s' % (f, l, sorted(allv))
    # single-threaded per-thread order: a thread's own left pops ascend, right pops descend
    for t in range(T):
        lv = [int(r) for k, r in enumerate(per[t]) if r != 'n' and progs[t][k] == 'L']
        rv = [int(r) for k, r in enumerate(per[t]) if r != 'n' and progs[t][k] == 'R']
        if lv != sorted(lv) or rv != sorted(rv, reverse=True):
            return 'order', 'thread %d: left pops %s / right pops %s out of order' % (t, lv, rv)
    if T == 1:
        # sequential semantics: pop fails only on empty
        cur = list(range(f, l))
        for k, r in enumerate(per[0]):
            exp = None
            if cur:
                exp = cur.pop(0) if progs[0][k] == 'L' else cur.pop()
            if (r == 'n') != (exp is None) or (exp is not None and int(r) != exp):
                return 'sequential', 'single-threaded op %d returned %s, expected %s' % (k, r, exp)
    return None


def run(ctx):
    r = Result()
    r.rule = ('LOCKSTEP: the harness generates (range, thread count 1..5, per-thread pop_left/pop_right programs) from '
              'VERIF_SEED, the controller picks the interleaving of LOAD/CAS steps on the real queue, the extracted model '
              'replays the same schedule; a case is non-trivial when >=2 threads interleave on a non-empty range or a '
              'CAS fails; distinct = distinct (input,schedule) lines')
    ctx.build_pika()
    drv = ctx.build_model('C17', 'ExtractC17.v', 'drv_c17.ml')
    h_iq = ctx.build_harness('c17_iq', 'c17_iq.cpp')
    n = 3000 if ctx.tier == 'quick' else 60000
    seeds = [ctx.seed] if ctx.tier == 'quick' else [ctx.seed + k for k in range(4)]
    for sd in seeds:
        rc, out = sh([h_iq, str(sd), str(n)], timeout=300 if ctx.tier == 'quick' else 3000)
        lines = out.split('\n')
        if rc != 0:
            r.hits.append(Hit('tie', 'C17:iq_harness', 'index-queue harness failed rc=%d: %s' % (rc, out[-500:]),
                              {'harness': 'c17_iq', 'args': [sd, n]}))
        ins = [x for x in lines if x.startswith('IN ')]
        outs = [x for x in lines if x.startswith('OUT ')]
        rc2, mout = sh([drv], input='\n'.join(ins) + '\n', timeout=1800)
        mouts = [x for x in mout.split('\n') if x.startswith('OUT ')]
        diffs, ncases = diff_lines(ctx, outs, mouts)
        r.evaluations += ncases
        r.traces += ncases
        inmap = {(x.split(' ')[1], x.split(' ')[2]): x for x in ins}
        ins = ins[:len(outs)]
        for i_, o_ in zip(ins, outs):
            p = i_.split(' ')
            T = int(p[5])
            sites = o_.split(' ')[3]
            nfail = sites.count('2,2') + sites.count('2,1')  # rough: a CAS followed by reload
            r.count('threads=%d' % T)
            r.count('range_len=%d' % min(int(p[4]) - int(p[3]), 8))
            if T >= 2 and int(p[4]) > int(p[3]):
                r.nontrivial(i_)
            m = iq_monitor(i_, o_)
            if m:
                r.hits.append(Hit('monitor', 'C17:iq:' + m[0], 'contiguous_index_queue: ' + m[1],
                                  {'harness': 'c17_iq', 'args': [sd, n], 'case': i_, 'observed': o_}))
        for (k, a, b) in diffs[:20]:
            r.hits.append(Hit('corr', 'C17:iq:correspondence',
                              'index queue: implementation and model differ on case %s: impl [%s] model [%s]' % (k, a, b),
                              {'harness': 'c17_iq', 'args': [sd, n], 'case': inmap.get(k), 'impl': a, 'model': b}))
        for s in list(zip(ins, outs))[:2]:
            r.sample({'input_and_schedule': s[0], 'observed': s[1]})
    return r
