# C17 — concurrent queues.
#   index queue : LOCKSTEP of the real contiguous_index_queue against Model/IndexQueue.v
#   deque       : LOCKSTEP of the real deque<uint64_t> against Model/Deque.v (controller-chosen
#                 interleavings of the hook sites 1711..1719, replayed by the extracted model),
#                 the F15 witness schedule, sequential DIFF against the list specification
#   back-ends   : Gen/GenBackends.v is regenerated from lockfree_queue_backends.hpp; sequential DIFF
#                 of the four back-ends through their own API; the moodycamel FIFO gets DIFF +
#                 conservation under real concurrency only (TESTING, not proof)
import collections
import os
import re
from vlib import COQ, Hit, Result, diff_lines, sh
import json
from props.stress_twin import run_twin, twin_replay

ASSUMPTIONS = [
    'sequentially consistent interleaving at LOAD/CAS granularity; compare_exchange_weak never fails spuriously on x86 (the index-queue model allows it, the lock-step runs do not exercise it)',
    'deque: anchor and link tags are unbounded in the model (16 bit in the code: a wrap within one stalled window is not modelled)',
    'deque: boost freelist_stack::allocate / deallocate are one atomic step each (their internal CAS loops are not split); the node constructor (reads of the two link tags left in the chunk + two link stores + data) is one step, and so is the pushes\' private link store (tag read + store); fresh chunks are zero-filled by the pool (boost >= 1.77)',
    'moodycamel ConcurrentQueue internals are specified (bag with per-producer FIFO), not modelled: the FIFO back-end is covered by differential and conservation TESTS only',
]

ABA_SIG = 'C17:deque:aba_link_tag_reset'


def iq_monitor(inl, outl):
    """the property itself, evaluated on the implementation's observations of one case"""
    p = inl.split(' ')
    f, l, T = int(p[3]), int(p[4]), int(p[5])
    progs = p[6:6 + T]
    fields = dict(x.split('=', 1) for x in outl.split(' ')[3:])
    per = [[] if s == '' else s.split(',') for s in fields['res'].split('|')]
    rest = [] if fields['rest'] == '-' else [int(x) for x in fields['rest'].split(',')]
    popped = []
    for t in range(T):
        for k, r in enumerate(per[t]):
            if r != 'n':
                popped.append(int(r))
    allv = popped + rest
    if len(set(allv)) != len(allv):
        return 'duplicate', 'an index was handed out twice: popped=%s rest=%s' % (popped, rest)
    if sorted(allv) != list(range(f, l)):
        return 'lost_or_invented', 'popped+remaining != initial range [%d,%d): %s' % (f, l, sorted(allv))
    # single-threaded per-thread order: a thread's own left pops ascend, right pops descend
    for t in range(T):
        lv = [int(r) for k, r in enumerate(per[t]) if r != 'n' and progs[t][k] == 'L']
        rv = [int(r) for k, r in enumerate(per[t]) if r != 'n' and progs[t][k] == 'R']
        if lv != sorted(lv) or rv != sorted(rv, reverse=True):
            return 'order', 'thread %d: left pops %s / right pops %s out of order' % (t, lv, rv)
    if T == 1:
        # sequential semantics: pop fails only on empty
        cur = list(range(f, l))
        for k, r in enumerate(per[0]):
            exp = None
            if cur:
                exp = cur.pop(0) if progs[0][k] == 'L' else cur.pop()
            if (r == 'n') != (exp is None) or (exp is not None and int(r) != exp):
                return 'sequential', 'single-threaded op %d returned %s, expected %s' % (k, r, exp)
    return None


# ------------------------------------------------------------------ deque
def parse_prog(s):
    return [] if s in ('-', '') else s.split(',')


def list_spec(ops, contents):
    """the two-ended list specification (python, independent of the Coq model)"""
    res = []
    for o in ops:
        if o[0] == 'l':
            contents.insert(0, int(o[1:]))
            res.append('t')
        elif o[0] == 'r':
            contents.append(int(o[1:]))
            res.append('t')
        elif o == 'L':
            res.append(str(contents.pop(0)) if contents else 'n')
        else:
            res.append(str(contents.pop()) if contents else 'n')
    return res


def fields_of(outl):
    return dict(x.split('=', 1) for x in outl.split(' ')[3:])


def dq_monitor(inl, outl):
    """exactly-once on one execution of the real deque: popped + drained = pushed as multisets;
    per-end order and pop-succeeds-on-non-empty when a single thread ran"""
    p = inl.split(' ')
    T = int(p[4])
    init = parse_prog(p[5])
    progs = [parse_prog(x) for x in p[6:6 + T]]
    f = fields_of(outl)
    initres = parse_prog(f['init'])
    per = [parse_prog(x) for x in f['res'].split('|')]
    rest = [int(x) for x in parse_prog(f['rest'])]
    pushed = collections.Counter()
    popped = collections.Counter()
    incomplete = False
    for ops, res in [(init, initres)] + list(zip(progs, per)):
        if len(res) != len(ops):
            incomplete = True
        for o, r in zip(ops, res):
            if o[0] in 'lr':
                if r == 't':
                    pushed[int(o[1:])] += 1
                else:
                    return 'push_failed', 'push %s returned %s' % (o, r)
            elif r != 'n':
                popped[int(r)] += 1
    if incomplete:
        return 'incomplete', 'a thread did not finish its program: %s' % f['res']
    got = popped + collections.Counter(rest)
    for v in got:
        if v not in pushed:
            return 'invented', 'value %d was returned but never pushed (popped=%s drained=%s)' % (v, dict(popped), rest)
    for v in got:
        if got[v] > pushed[v]:
            return 'duplicate', 'value %d was delivered %d times, pushed %d time(s) (popped=%s drained=%s)' % (
                v, got[v], pushed[v], sorted(popped.elements()), rest)
    for v in pushed:
        if got[v] < pushed[v]:
            return 'lost', 'value %d was pushed and neither popped nor left in the deque (popped=%s drained=%s)' % (
                v, sorted(popped.elements()), rest)
    if T <= 1:
        cont = []
        exp_init = list_spec(init, cont)
        exp = list_spec(progs[0], cont) if T == 1 else []
        if exp_init != initres or (T == 1 and exp != per[0]) or cont != rest:
            return 'sequential', 'single-threaded run differs from the two-ended list: got init=%s res=%s rest=%s expected init=%s res=%s rest=%s' % (
                initres, per[0] if T == 1 else [], rest, exp_init, exp, cont)
    else:
        # the main thread's preparation runs alone: it must follow the list exactly
        cont = []
        if list_spec(init, cont) != initres:
            return 'sequential', 'preparation (single thread) differs from the list spec: %s' % initres
    return None


def run_deque_harness(ctx, h, mode, seed, first, count, timeout):
    """runs the harness, restarting after a case on which the real code crashed or hung.
    returns (ins, outs, died) with died = [(case id, phase, what, partial IN line)]"""
    ins, outs, died, errs = {}, {}, [], []
    cur = first
    end = first + count
    guard = 0
    nhang = 0
    # a hang costs the watchdog's 20 s: after 2 hangs (or 25 crashes) of the real code the batch is abandoned —
    # the cases are reported and the check fails anyway
    while cur < end and guard < 25 and nhang < 2:
        guard += 1
        rc, out = sh([h, mode, str(seed), str(cur), str(end - cur)], timeout=timeout)
        lines = out.split('\n')
        last_in = None
        restarted = False
        for ln in lines:
            if ln.startswith('IN '):
                k = ln.split(' ')[2]
                last_in = ln
                ins.setdefault(k, ln)
            elif ln.startswith('OUT '):
                outs[ln.split(' ')[2]] = ln
            elif ln.startswith('DIED '):
                m = re.match(r'DIED case=(-?\d+) phase=(\d+) signal=(\w+)', ln)
                cid = m.group(1)
                died.append((cid, int(m.group(2)), m.group(3), last_in if last_in and last_in.split(' ')[2] == cid else ins.get(cid)))
                cur = int(cid) + 1
                restarted = True
                if m.group(3) == 'HANG':
                    nhang += 1
            elif ln.startswith('HARNESS-ERROR'):
                errs.append(ln)
        if restarted:
            continue
        if rc != 0:
            errs.append('harness exit code %d: %s' % (rc, out[-400:]))
        break
    return ins, outs, died, errs


def model_replay(drv, inlines):
    rc, mout = sh([drv], input='\n'.join(inlines) + '\n', timeout=3000)
    mouts, mods = [], {}
    for x in mout.split('\n'):
        if x.startswith('OUT '):
            mouts.append(x)
        elif x.startswith('MOD '):
            p = x.split(' ')
            mods[p[2]] = dict(y.split('=') for y in p[3:])
    return mouts, mods


def check_deque_cases(ctx, r, drv, label, harness_args, ins, outs, died, errs):
    """correspondence + monitors for a batch of lock-step cases; returns number of ABA cases"""
    for e in errs:
        r.hits.append(Hit('tie', 'C17:deque_harness', 'deque harness (%s) failed: %s' % (label, e),
                          {'harness': 'c17_deque', 'args': harness_args}))
    keys = [k for k in ins if k in outs]
    dead_ins = [d[3] for d in died if d[3]]
    mouts, mods = model_replay(drv, [ins[k] for k in keys] + dead_ins)
    moutmap = {x.split(' ')[2]: x for x in mouts}
    naba = 0
    ndiff = 0
    for k in keys:
        i_, o_ = ins[k], outs[k]
        m_ = moutmap.get(k)
        mod = mods.get(k, {})
        agree = (m_ == o_)
        aba = mod.get('aba') == '1'
        naba += 1 if aba else 0
        p = i_.split(' ')
        T = int(p[4])
        nsteps = 0 if p[-1] == '-' else p[-1].count(',') + 1
        r.count('dq_threads=%d' % T)
        r.count('dq_pool=%s' % p[3])
        r.count('dq_sched_len=%s' % ('0' if nsteps == 0 else '1-20' if nsteps <= 20 else '21-60' if nsteps <= 60 else '>60'))
        if aba:
            r.count('dq_aba_window_hit')
        if T >= 2 and nsteps > 0:
            sched = p[-1].split(',')
            if len(set(sched)) >= 2:
                r.nontrivial(i_)
        r.evaluations += 1
        if agree:
            r.traces += 1
        elif ndiff < 20:
            ndiff += 1
            r.hits.append(Hit('corr', 'C17:deque:correspondence',
                              'deque: implementation and model differ on case %s (%s): impl [%s] model [%s]' % (k, label, o_[:700], (m_ or '<none>')[:700]),
                              {'harness': 'c17_deque', 'args': harness_args, 'case': i_, 'impl': o_, 'model': m_}))
        mon = dq_monitor(i_, o_)
        if mon:
            sig = ABA_SIG if (agree and aba) else 'C17:deque:' + mon[0]
            r.hits.append(Hit('monitor', sig, 'lock-free deque (%s, case %s): %s' % (label, k, mon[1]),
                              {'harness': 'c17_deque', 'args': harness_args, 'case': i_, 'observed': o_,
                               'model_says_aba': aba, 'model_agrees': agree}))
        if m_ and mod.get('done') == '1':
            mm = dq_monitor(i_, m_)
            if mm and not aba and mm[0] != 'incomplete':
                r.hits.append(Hit('model', 'C17:deque:model_' + mm[0],
                                  'the deque MODEL violates exactly-once without a recycled-node link CAS on case %s: %s' % (k, mm[1]),
                                  {'case': i_, 'model': m_}))
        r.sample({'input_and_schedule': i_[:400], 'observed': o_[:400]}, cap=4)
    for (cid, phase, what, inl) in died:
        aba = mods.get(cid, {}).get('aba') == '1'
        sig = ABA_SIG if aba else 'C17:deque:' + what.lower()
        r.evaluations += 1
        r.hits.append(Hit('monitor', sig,
                          'lock-free deque (%s): the real code %s in case %s (phase %d: 1 preparation, 2 lock-step, 3 drain)' % (
                              label, 'crashed' if what == 'CRASH' else 'did not terminate', cid, phase),
                          {'harness': 'c17_deque', 'args': harness_args, 'case': inl, 'model_says_aba': aba}))
    return naba


# ------------------------------------------------------------------ back-ends
INTENDED_ENDS = {
    # (push other_end=false, push other_end=true, owner pop, thief pop) — the documented behaviour
    'lifo': ('L', 'R', 'L', 'L'),
    'abp_fifo': ('L', 'L', 'R', 'L'),
    'abp_lifo': ('L', 'R', 'L', 'R'),
}


def generated_ends():
    """the table tools/genmods/c17.py derived from lockfree_queue_backends.hpp (Gen/GenBackends.v)"""
    src = open(COQ + '/Gen/GenBackends.v').read()
    names = {'Lifo': 'lifo', 'AbpFifo': 'abp_fifo', 'AbpLifo': 'abp_lifo'}
    tab = {}
    for fn in ('push_end', 'pop_end'):
        body = src[src.index('Definition ' + fn):]
        body = body[:body.index('end.')]
        for m in re.finditer(r'\|\s*(\w+),\s*(true|false)\s*=>\s*S([LR])', body):
            tab[(names[m.group(1)], fn, m.group(2) == 'true')] = m.group(3)
    if len(tab) != 12:
        raise Exception('GenBackends.v: table incomplete: %s' % tab)
    return {b: (tab[(b, 'push_end', False)], tab[(b, 'push_end', True)], tab[(b, 'pop_end', False)], tab[(b, 'pop_end', True)])
            for b in names.values()}


def backend_spec(backend, ops, ends):
    cont = []
    res = []
    for o in ops:
        if backend == 'fifo':
            if o[0] in 'pP':
                cont.append(int(o[1:]))
                res.append('t')
            else:
                res.append(str(cont.pop(0)) if cont else 'n')
            continue
        e = ends[backend]
        if o[0] in 'pP':
            side = e[0] if o[0] == 'p' else e[1]
            if side == 'L':
                cont.insert(0, int(o[1:]))
            else:
                cont.append(int(o[1:]))
            res.append('t')
        else:
            side = e[2] if o == 'o' else e[3]
            if not cont:
                res.append('n')
            else:
                res.append(str(cont.pop(0) if side == 'L' else cont.pop()))
    # drained with owner pops
    rest = []
    while cont:
        if backend == 'fifo':
            rest.append(cont.pop(0))
        else:
            rest.append(cont.pop(0) if ends[backend][2] == 'L' else cont.pop())
    return 'res=%s rest=%s' % (','.join(res), ','.join(str(x) for x in rest) if rest else '-')


def run_backends(ctx, r, h, seed, n):
    rc, out = sh([h, str(seed), str(n)], timeout=900)
    lines = out.split('\n')
    args = [seed, n]
    if rc != 0:
        r.hits.append(Hit('monitor' if rc in (4, 5) else 'tie', 'C17:backends:harness_died' if rc in (4, 5) else 'C17:fifo_harness',
                          'back-end harness exited with %d (4 = hang, 5 = crash of the code under test): %s' % (rc, out[-400:]),
                          {'harness': 'c17_fifo', 'args': args}))
    try:
        gen = generated_ends()
    except Exception as e:
        r.hits.append(Hit('tie', 'C17:backends:table', 'cannot read the generated back-end table: %r' % e, {}))
        gen = INTENDED_ENDS
    r.extra['backend_ends_generated'] = {k: dict(zip(('push', 'push_other_end', 'owner_pop', 'thief_pop'), v)) for k, v in gen.items()}
    ins = {}
    nseq = nconc = 0
    for ln in lines:
        p = ln.split(' ')
        if ln.startswith('IN '):
            ins[(p[1], p[2])] = ln
        elif ln.startswith('OUT SEQ '):
            i_ = ins.get(('SEQ', p[2]))
            if not i_:
                continue
            ip = i_.split(' ')
            backend, ops = ip[3], parse_prog(ip[4] if len(ip) > 4 else '-')
            got = ' '.join(p[3:])
            nseq += 1
            r.evaluations += 1
            r.count('backend_seq=%s' % backend)
            want = backend_spec(backend, ops, INTENDED_ENDS)      # the property: documented order per end
            if got != want:
                r.hits.append(Hit('monitor', 'C17:backend:%s:order' % backend,
                                  'back-end %s, single thread: ops %s returned [%s], the documented order gives [%s]' % (backend, ip[4][:300], got[:300], want[:300]),
                                  {'harness': 'c17_fifo', 'args': args, 'case': i_, 'observed': ln}))
            wantg = backend_spec(backend, ops, gen)              # correspondence with the translated table
            if got == wantg:
                r.traces += 1
            else:
                r.hits.append(Hit('corr', 'C17:backend:%s:table' % backend,
                                  'back-end %s: the implementation does not follow the table translated from the header on %s: got [%s] table gives [%s]' % (
                                      backend, ip[4][:300], got[:300], wantg[:300]),
                                  {'harness': 'c17_fifo', 'args': args, 'case': i_, 'observed': ln}))
        elif ln.startswith('OUT CONC '):
            i_ = ins.get(('CONC', p[2]), '')
            f = dict(x.split('=', 1) for x in p[3:] if '=' in x)
            nconc += 1
            r.evaluations += 1
            r.count('backend_conc=%s' % (i_.split(' ')[3] if i_ else '?'))
            if f.get('ok') != '1':
                kind = 'duplicate' if f.get('dup', '0') != '0' else 'lost' if f.get('lost', '0') != '0' else \
                    'invented' if f.get('invented', '0') != '0' else 'order' if f.get('order', '0') != '0' else 'failed'
                r.hits.append(Hit('monitor', 'C17:backend:%s:conc_%s' % (i_.split(' ')[3] if i_ else '?', kind),
                                  'back-end under real concurrency: %s -> %s' % (i_, ln),
                                  {'harness': 'c17_fifo', 'args': args, 'case': i_, 'observed': ln}))
    tot = r.extra.setdefault('_backend_counts', [0, 0])
    tot[0] += nseq
    tot[1] += nconc
    r.extra['fifo_backend_testing_only'] = ('lockfree_fifo (moodycamel): %d sequential DIFF cases over all back-ends and %d '
                                            'concurrent conservation/per-producer-order runs — TESTING, not proof' % (tot[0], tot[1]))
    if nseq == 0:
        r.hits.append(Hit('tie', 'C17:fifo_harness', 'back-end harness produced no cases: %s' % out[-300:], {'harness': 'c17_fifo', 'args': args}))


def run_recycle(ctx, r, h_rc, configs):
    """harness/c17_recycle.cpp: >= 2 OS threads on ONE deque / back-end with a hot node free list (bursts of pushes at
    drawn ends followed by as many pops at drawn ends), unique values, final drain.  Model-independent monitors:
    duplicate / invented at every pop, lost after the drain, crash (signal), hang (no round completed for 30 s)."""
    nbad = 0
    for (sd, nth, per) in configs:
        args = [str(sd), str(nth), str(per)]
        rc, out = sh([h_rc] + args, timeout=600 + per * nth // 2000)
        lines = out.split('\n')
        if rc != 0 or 'DONE RC' not in lines:
            r.hits.append(Hit('tie', 'C17:recycle_harness', 'c17_recycle %s failed rc=%d: %s' % (' '.join(args), rc, out[-500:]),
                              {'harness': 'c17_recycle', 'args': args}))
        for l in lines:
            q = l.split(' ')
            if l.startswith('OUT RC '):
                r.evaluations += 1
                r.count('recycle[%s]=values' % q[2], nth * per)
                r.nontrivial('recycle %s: %d OS threads on one container, every push re-uses a node freed by a concurrent pop' % (q[2], nth))
                r.sample({'recycle': l, 'args': args}, cap=8)
            elif l.startswith('BAD RC '):
                r.evaluations += 1
                nbad += 1
                sig = q[3].split('=', 1)[1]
                r.hits.append(Hit('monitor', 'C17:recycle:%s:%s' % (q[2], sig),
                                  'lock-free deque with node recycling under contention (%d OS threads, %d unique values each, back-end %s): %s'
                                  % (nth, per, q[2], ' '.join(q[4:])[:600]),
                                  {'harness': 'c17_recycle', 'args': args + [q[2]], 'observed': l[:600]}))
    return nbad


def replay(ctx, r, drv, h_iq, h_dq, h_ff):
    """re-run the case stored in a replay file (deque cases individually, other harnesses as a whole)"""
    import json
    data = json.load(open(ctx.replay))
    rp = data.get('replay') or {}
    hn, args, case = rp.get('harness'), [str(a) for a in rp.get('args', [])], rp.get('case') or ''
    r.rule = 'replay of %s' % ctx.replay
    if hn == 'c17_deque':
        p = case.split(' ')
        wmodes = {'w': 'witness', 'w2': 'witness2', 'w3': 'witness3', 'w4': 'witness4'}
        if (args and args[0] in wmodes.values()) or (len(p) > 2 and p[2] in wmodes):
            hargs = [args[0] if args and args[0] in wmodes.values() else wmodes[p[2]], 0, 0, 1]
        elif args and args[0] == 'seq':
            hargs = ['seq', int(args[1]), int(p[2]) if len(p) > 2 else int(args[2]), 1]
        else:
            hargs = ['lock', int(args[1]), int(p[2]) if len(p) > 2 and p[2].isdigit() else int(args[2]), 1]
        ins, outs, died, errs = run_deque_harness(ctx, h_dq, hargs[0], hargs[1], hargs[2], hargs[3], 300)
        if hargs[0] == 'seq':
            for k in outs:
                ops = parse_prog(ins[k].split(' ')[4])
                cont = []
                exp = list_spec(ops, cont)
                want = 'OUT DS %s res=%s rest=%s' % (k, ','.join(exp), ','.join(str(x) for x in cont) if cont else '-')
                r.evaluations += 1
                if outs[k] != want:
                    r.hits.append(Hit('monitor', 'C17:deque:sequential', 'replay: returned [%s], the list gives [%s]' % (outs[k][:300], want[:300]),
                                      {'harness': 'c17_deque', 'args': hargs, 'case': ins[k], 'observed': outs[k]}))
            for (cid, phase, what, inl) in died:
                r.hits.append(Hit('monitor', 'C17:deque:seq_' + what.lower(), 'replay: the real code %s' % what, {'harness': 'c17_deque', 'args': hargs, 'case': inl}))
        else:
            check_deque_cases(ctx, r, drv, 'replay', hargs, ins, outs, died, errs)
    elif hn == 'c17_fifo':
        run_backends(ctx, r, h_ff, int(args[0]), int(args[1]))
    elif hn == 'c17_iq':
        rc, out = sh([h_iq] + args, timeout=3000)
        lines = out.split('\n')
        ins = [x for x in lines if x.startswith('IN ')]
        outs = [x for x in lines if x.startswith('OUT ')]
        for i_, o_ in zip(ins, outs):
            r.evaluations += 1
            m = iq_monitor(i_, o_)
            if m:
                r.hits.append(Hit('monitor', 'C17:iq:' + m[0], 'contiguous_index_queue: ' + m[1],
                                  {'harness': 'c17_iq', 'args': args, 'case': i_, 'observed': o_}))
    else:
        r.notes.append('nothing to replay in %s' % ctx.replay)
    return r


def run(ctx):
    r = Result()
    r.rule = ('LOCKSTEP: harnesses generate (container contents, thread count, per-thread programs) from VERIF_SEED; the '
              'controller picks the interleaving of the atomic steps of the real container (index queue: LOAD/CAS; deque: '
              'alloc, init, anchor load/check/CAS, link load/store/CAS, free), biased to long stalls of one thread; the '
              'extracted model replays the same schedule and must predict every step (site, function, node numbered by first '
              'appearance), every return value and the drained contents. A case is non-trivial when >=2 threads interleave; '
              'distinct = distinct (input,schedule) lines. Sequential DIFF against the two-ended list; back-ends: DIFF + '
              'conservation under real concurrency (testing). '
              'STRESS (free-running stress twins, harness/c17_stress.cpp): real threads released from one spin barrier with '
              'offsets swept over 0..127 spin iterations, no controller, no hook installed, monitors independent of the model. '
              'iq: fresh contiguous_index_queue<uint32> over [first, first+len), len 0..24 (also next to 2^32), 2..6 threads each '
              'running 1..10 drawn pop_left/pop_right calls back to back, main thread drains; monitors: no index twice '
              '(duplicate), popped + remaining = initial range (lost / foreign), per thread every pop after pop_left=i is > i and '
              'after pop_right=j is < j (order), remaining indices contiguous, empty reported only when nothing is left. '
              'dq: fresh deque<uint64> per trial with a pool pre-sized beyond the trial; because of the known finding '
              'C17:deque:aba_link_tag_reset (needs a node that is freed and allocated again) a trial consists of phases that only '
              'push (2..4 threads, drawn ends, nothing freed) or only pop (2..4 threads, drawn ends, nothing allocated) — push / '
              'sequential drain, sequential fill / pop, push then pop — so no node is ever reused and F15 cannot fire; monitors: '
              'multiset pushed = popped + drained (duplicate / lost / foreign), a thread\'s later push_left lies left of and later '
              'push_right right of its earlier pushes in the drained sequence (push_order), pops of one thread move inwards in '
              'the known sequence (pop_order), empty reported only when nothing is left. '
              'mx: pushes racing pops on one fresh deque, still without node reuse — 2..4 threads run drawn programs (per thread all '
              'pushes before all pops; producers/consumers, half/half or drawn split), the harness installs a hook function (not '
              'the controller) that counts allocations (site 1712) and holds a popper that has already won its anchor CAS at site '
              '1719 (before it reads the value and frees the node) until every push of the trial has allocated its node; pushes '
              'allocate first and wait for nobody, so no node freed in a trial is ever allocated again; monitors: multiset '
              'pushed = popped + drained (duplicate / lost / foreign), allocation count. Forked child, crash/hang = hit; 4 + 3 + 3 s '
              'time boxes quick, 30 s each thorough. They exist because lock-step cannot schedule inside an atomic step that a '
              'code change split in two (e.g. the range / anchor CAS replaced by load, compare, store). '
              'RECYCLE (harness/c17_recycle.cpp): 6 OS threads (thorough 2..8) on ONE container — lockfree_lifo / abp_fifo / abp_lifo '
              'back-ends and the raw deque — each pushes 150000 (thorough 600000) unique values in bursts of 1..4 (now and then 5..12) at '
              'drawn ends followed by as many pops at drawn ends, so the deque stays short and every push re-uses a node freed '
              'microseconds earlier by some thread (node pool = caching_freelist under contention), final drain; monitors: duplicate / '
              'invented at every pop, lost after the drain, crash (signal), hang (no round completed for 30 s); one forked child per back-end.')
    ctx.build_pika()
    drv = ctx.build_model('C17', 'ExtractC17.v', 'drv_c17.ml')
    h_iq = ctx.build_harness('c17_iq', 'c17_iq.cpp')
    h_dq = ctx.build_harness('c17_deque', 'c17_deque.cpp', extra=['-mcx16'])
    h_ff = ctx.build_harness('c17_fifo', 'c17_fifo.cpp', extra=['-mcx16'])
    h_st = ctx.build_harness('c17_stress', 'c17_stress.cpp', extra=['-mcx16'])
    h_rc = ctx.build_harness('c17_recycle', 'c17_recycle.cpp', extra=['-mcx16'])
    quick = ctx.tier == 'quick'
    if twin_replay(ctx, 'c17_recycle'):
        # stored args: seed, threads, values per thread, back-end; the interleaving is not controlled (real threads)
        a = [str(x) for x in json.load(open(ctx.replay))['replay']['args']]
        r.rule = 'replay of %s' % ctx.replay
        run_recycle(ctx, r, h_rc, [(int(a[0]), int(a[1]), int(a[2]))])
        return r
    if twin_replay(ctx, 'c17_stress'):
        run_twin(ctx, r, 'C17', h_st, 'c17_stress', 'IQS', ['iq'], 100000000, 5000, 'contiguous_index_queue', sig_prefix='C17:stress')
        run_twin(ctx, r, 'C17', h_st, 'c17_stress', 'DQS', ['dq'], 100000000, 5000, 'lock-free deque (phases without node reuse)', sig_prefix='C17:stress')
        run_twin(ctx, r, 'C17', h_st, 'c17_stress', 'DQM', ['mx'], 100000000, 5000, 'lock-free deque (pushes racing pops, no node reuse)', sig_prefix='C17:stress')
        return r
    if ctx.replay:
        return replay(ctx, r, drv, h_iq, h_dq, h_ff)

    # ---------------- index queue
    n = 3000 if quick else 60000
    seeds = [ctx.seed] if quick else [ctx.seed + k for k in range(4)]
    for sd in seeds:
        rc, out = sh([h_iq, str(sd), str(n)], timeout=300 if quick else 3000)
        lines = out.split('\n')
        if rc != 0:
            r.hits.append(Hit('tie', 'C17:iq_harness', 'index-queue harness failed rc=%d: %s' % (rc, out[-500:]),
                              {'harness': 'c17_iq', 'args': [sd, n]}))
        ins = [x for x in lines if x.startswith('IN ')]
        outs = [x for x in lines if x.startswith('OUT ')]
        rc2, mout = sh([drv], input='\n'.join(ins) + '\n', timeout=1800)
        mouts = [x for x in mout.split('\n') if x.startswith('OUT ')]
        diffs, ncases = diff_lines(ctx, outs, mouts)
        r.evaluations += ncases
        r.traces += ncases - len(diffs)
        inmap = {(x.split(' ')[1], x.split(' ')[2]): x for x in ins}
        ins = ins[:len(outs)]
        for i_, o_ in zip(ins, outs):
            p = i_.split(' ')
            T = int(p[5])
            r.count('threads=%d' % T)
            r.count('range_len=%d' % min(int(p[4]) - int(p[3]), 8))
            if T >= 2 and int(p[4]) > int(p[3]):
                r.nontrivial(i_)
            m = iq_monitor(i_, o_)
            if m:
                r.hits.append(Hit('monitor', 'C17:iq:' + m[0], 'contiguous_index_queue: ' + m[1],
                                  {'harness': 'c17_iq', 'args': [sd, n], 'case': i_, 'observed': o_}))
        for (k, a, b) in diffs[:20]:
            r.hits.append(Hit('corr', 'C17:iq:correspondence',
                              'index queue: implementation and model differ on case %s: impl [%s] model [%s]' % (k, a, b),
                              {'harness': 'c17_iq', 'args': [sd, n], 'case': inmap.get(k), 'impl': a, 'model': b}))
        for s in list(zip(ins, outs))[:2]:
            r.sample({'input_and_schedule': s[0], 'observed': s[1]})

    # ---------------- deque: the former F15 witness schedule on the real container (harmless since the
    # `fix:` commit: the drain must be 100,5,6; with the fix reverted the monitor reports the duplicate)
    # (second schedule: the target link is written by a push's private store — the other half of the fix)
    # (witness3 / witness4: their mirror images — stabilize_left, the left link = word 0 of the chunk; the
    # victim pops from the right after its push and must get 100,5,6 resp. 5,7; the deque is then empty)
    for (wmode, wid, wcmd, wrest) in (('witness', 'w', 'WITNESS', '100,5,6'), ('witness2', 'w2', 'WITNESS2', '5,7'),
                                      ('witness3', 'w3', 'WITNESS3', '-'), ('witness4', 'w4', 'WITNESS4', '-')):
        ins, outs, died, errs = run_deque_harness(ctx, h_dq, wmode, 0, 0, 1, 120)
        rcw, wout = sh([drv], input='IN %s\n' % wcmd, timeout=60)
        wl = [x for x in wout.split('\n') if x.startswith('OUT ' + wcmd + ' ')]
        wit_ok = False
        if wl and wid in ins:
            f = dict(x.split('=', 1) for x in wl[0].split(' ')[2:])
            p = ins[wid].split(' ')
            same = (p[3] == f['k'] and p[5] == f['init'] and p[6] == f['p0'] and p[7] == f['p1'] and p[8] == f['sched'])
            if not same:
                r.hits.append(Hit('corr', 'C17:deque:witness_schedule',
                                  'the real deque does not execute the former F15 witness schedule (Model/DequeWitness.v, %s): harness [%s] Coq witness [%s]' % (wmode, ins[wid][:500], wl[0][:500]),
                                  {'harness': 'c17_deque', 'args': [wmode], 'case': ins.get(wid)}))
            wit_ok = same
        else:
            r.hits.append(Hit('tie', 'C17:deque:witness', '%s run produced no case: %s %s' % (wmode, errs, wout[-300:]), {'harness': 'c17_deque', 'args': [wmode]}))
        before = len([h for h in r.hits if h.kind == 'monitor'])
        check_deque_cases(ctx, r, drv, 'F15 ' + wmode, [wmode], ins, outs, died, errs)
        reproduced = len([h for h in r.hits if h.kind == 'monitor']) > before
        r.extra['f15_' + wmode] = {'schedule_matches_coq_witness': wit_ok, 'duplicate_and_loss_observed_on_real_deque': reproduced,
                                   'drain_is_' + wrest.replace(',', '_').replace('-', 'empty'): outs.get(wid, '').endswith('rest=' + wrest),
                                   'observed': outs.get(wid, '')[-120:]}

    # ---------------- deque: generated lock-step cases
    ncase = 6000 if quick else 30000
    naba = 0
    for sd in seeds:
        ins, outs, died, errs = run_deque_harness(ctx, h_dq, 'lock', sd, 0, ncase, 600 if quick else 3000)
        naba += check_deque_cases(ctx, r, drv, 'lock-step seed %d' % sd, ['lock', sd, 0, ncase], ins, outs, died, errs)
        if len(outs) + len(died) < ncase and not errs and not died:
            r.hits.append(Hit('tie', 'C17:deque_harness', 'lock-step harness ran only %d of %d cases' % (len(outs), ncase),
                              {'harness': 'c17_deque', 'args': ['lock', sd, 0, ncase]}))
    r.extra['deque_cases_in_which_a_link_cas_hit_a_recycled_node'] = naba

    # ---------------- deque: sequential DIFF (model and python list spec)
    nseq = 1500 if quick else 20000
    for sd in seeds:
        ins, outs, died, errs = run_deque_harness(ctx, h_dq, 'seq', sd, 0, nseq, 600 if quick else 3000)
        for e in errs:
            r.hits.append(Hit('tie', 'C17:deque_harness', 'sequential deque harness failed: %s' % e, {'harness': 'c17_deque', 'args': ['seq', sd, 0, nseq]}))
        keys = [k for k in ins if k in outs]
        mouts, _ = model_replay(drv, [ins[k] for k in keys])
        mm = {x.split(' ')[2]: x for x in mouts}
        nd = 0
        for k in keys:
            p = ins[k].split(' ')
            ops = parse_prog(p[4])
            cont = []
            exp = list_spec(ops, cont)
            want = 'OUT DS %s res=%s rest=%s' % (k, ','.join(exp), ','.join(str(x) for x in cont) if cont else '-')
            r.evaluations += 1
            r.count('dq_seq_len=%s' % ('<=40' if len(ops) <= 40 else '>40'))
            if outs[k] != want:
                r.hits.append(Hit('monitor', 'C17:deque:sequential',
                                  'deque, one thread, %d operations (pool %s): returned [%s], the two-ended list gives [%s]' % (len(ops), p[3], outs[k][:300], want[:300]),
                                  {'harness': 'c17_deque', 'args': ['seq', sd, int(k), 1], 'case': ins[k], 'observed': outs[k]}))
            if mm.get(k) == outs[k]:
                r.traces += 1
            elif nd < 10:
                nd += 1
                r.hits.append(Hit('corr', 'C17:deque:seq_correspondence',
                                  'deque (sequential): implementation [%s] model [%s]' % (outs[k][:300], (mm.get(k) or '<none>')[:300]),
                                  {'harness': 'c17_deque', 'args': ['seq', sd, int(k), 1], 'case': ins[k]}))
        for (cid, phase, what, inl) in died:
            r.hits.append(Hit('monitor', 'C17:deque:seq_' + what.lower(), 'deque, one thread: the real code %s on case %s' % (what, cid),
                              {'harness': 'c17_deque', 'args': ['seq', sd, int(cid), 1], 'case': inl}))

    # ---------------- back-ends (testing)
    for sd in seeds:
        run_backends(ctx, r, h_ff, sd, 600 if quick else 6000)

    # ---------------- free-running stress twins (real concurrency, monitors only)
    r.notes.append('deque stress twins never reuse a node within a trial (fresh deque per trial; dq: push-only and pop-only phases; mx: '
                   'frees are held back by a hook until every push has allocated), so the known finding C17:deque:aba_link_tag_reset '
                   '(F15, repaired since) cannot fire; races that need a recycled node: lock-step, the model, and the RECYCLE scenario below')
    run_twin(ctx, r, 'C17', h_st, 'c17_stress', 'IQS', ['iq'], 100000000, 4000 if quick else 30000,
             'contiguous_index_queue', min_trials=50000, sig_prefix='C17:stress')
    run_twin(ctx, r, 'C17', h_st, 'c17_stress', 'DQS', ['dq'], 100000000, 3000 if quick else 30000,
             'lock-free deque (push-only / pop-only phases, no node reuse)', min_trials=20000, sig_prefix='C17:stress')
    run_twin(ctx, r, 'C17', h_st, 'c17_stress', 'DQM', ['mx'], 100000000, 3000 if quick else 30000,
             'lock-free deque (pushes racing pops; frees held back until every node is allocated, no node reuse)',
             min_trials=20000, sig_prefix='C17:stress')

    # ---------------- node recycling under contention (hot free list; all back-ends and the raw deque)
    if quick:
        cfgs = [(ctx.seed, 6, 150000)]
    else:
        cfgs = [(ctx.seed + k, nth, 600000) for k, nth in enumerate((6, 4, 8, 2, 6))]
    run_recycle(ctx, r, h_rc, cfgs)
    return r
