# C04 — async_rw_mutex.  LOCKSTEP of the real async_rw_mutex (both specialisations) against
# Model/RwMutex.v: the controller's schedule (commands + hook releases) is replayed by the
# extracted model, which must predict the hook reached after every entry, every grant / use /
# release / value-destruction event with its step, the blocks left alive and the accesses never
# granted.  Independently of the model the monitor below evaluates the property on the
# implementation's event log.
import json
from vlib import Hit, Result, diff_lines, sh
from props.stress_twin import run_twin, twin_replay

ASSUMPTIONS = [
    'sequentially consistent interleaving at the granularity head-load / CAS / exchange / reference-count decrement; '
    'compare_exchange_weak never fails spuriously on x86 (the model allows it, lock-step runs do not exercise it)',
    'requests (read()/readwrite()) and the destruction of the mutex are issued one at a time, as the documentation requires',
    'receivers do not throw; operation states outlive their completion',
    'steps between two hooks of one thread (grant, wrapper/temporary release, destructor prologue) run without '
    'interleaving in the lock-step runs; the proofs cover every interleaving of them',
]


def parse_case(inl):
    p = inl.split(' ')
    mode, T = p[3], int(p[4])
    sched = [] if p[5] == '-' else p[5].split(',')
    ents = []
    for e in sched:
        t, op = e.split(':', 1)
        ents.append((int(t), op))
    return mode, T, ents


def rw_monitor(inl, outl):
    """the property itself, evaluated on what the implementation did in one case; returns (key, text) or None"""
    mode, T, ents = parse_case(inl)
    fields = dict(x.split('=', 1) for x in outl.split(' ')[3:] if '=' in x)
    if 'crash' in fields:
        return 'crash', 'the real code crashed (signal %s) under this schedule' % fields['crash']
    if 'hang' in fields:
        return 'hang', 'the schedule did not finish within the step limit (threads keep spinning at a hook)'
    evs = []
    if fields.get('ev', '-') != '-':
        for x in fields['ev'].split(';'):
            q = x.split(':')
            st, ty = int(q[0]), q[1][0]
            acc = int(q[1][1:]) if len(q[1]) > 1 else -1
            val = int(q[2]) if len(q) > 2 else 0
            evs.append((st, ty, acc, val))
    # accesses: kind, group (from the request sequence alone), how they were consumed
    kind, group, started, silent, dropped = [], [], {}, set(), set()
    gcount = 0
    prev = 'W'
    live = {}      # acc -> group, wrappers that exist
    released = set()
    granted = {}
    maxg = -1
    writes = 0
    destroyed_at = None
    vfree_at = None
    byst = {}
    for e in evs:
        byst.setdefault(e[0], []).append(e)
    copy_src_live = []
    for i, (t, op) in enumerate(ents):
        c = op[0]
        if c == 'q':
            k = op[1]
            if k == 'W' or prev == 'W':
                gcount += 1
            prev = k
            kind.append(k)
            group.append(gcount - 1)
        elif c == 'c':
            a = int(op[1:])
            kind.append(kind[a])
            group.append(group[a])
            b = len(kind) - 1
            if a in live:
                live[b] = group[b]
                if kind[b] == 'W':
                    return 'w_copied', 'a read-write wrapper was copied'
            elif a in released or a in granted:
                pass
        elif c in 'st':
            started[int(op[1:])] = i
        elif c == 'D':
            silent.add(int(op[1:]))
        elif c == 'o':
            dropped.add(int(op[1:]))
        elif c == 'x':
            destroyed_at = i
        for (st, ty, a, val) in byst.get(i, []):
            if vfree_at is not None and ty in 'gu':
                return 'value_freed_early', 'step %d: access %d granted/used after the wrapped value was destroyed at step %d' % (st, a, vfree_at)
            if ty == 'g':
                if a not in started or started[a] > i:
                    return 'spurious_grant', 'step %d: access %d granted without having been started' % (st, a)
                if a in granted:
                    return 'granted_twice', 'step %d: access %d granted a second time (first at step %d)' % (st, a, granted[a])
                granted[a] = st
                g = group[a]
                for b, gb in live.items():
                    if gb != g:
                        return 'overlap', 'step %d: access %d (request group %d, %s) granted while wrapper %d of group %d is alive' % (st, a, g, kind[a], b, gb)
                    if kind[a] == 'W' or kind[b] == 'W':
                        return 'overlap_w', 'step %d: read-write access overlaps access %d/%d of the same group' % (st, a, b)
                if g < maxg:
                    return 'grant_order', 'step %d: access %d of group %d granted after a grant of group %d' % (st, a, g, maxg)
                maxg = max(maxg, g)
                for b in range(len(kind)):
                    if group[b] < g and b not in released and b not in dropped and b not in silent:
                        return 'granted_early', 'step %d: access %d (group %d) granted although access %d of group %d is not released' % (st, a, g, b, group[b])
                live[a] = g
            elif ty == 'u':
                if a not in live:
                    return 'use_without_wrapper', 'step %d: value used through access %d which holds no wrapper' % (st, a)
                if val != writes:
                    return 'version', 'step %d: access %d (group %d) saw version %d, the earlier read-write accesses left %d' % (st, a, group[a], val, writes)
                if kind[a] == 'W':
                    writes += 1
            elif ty == 'r':
                if a not in live:
                    return 'release_without_wrapper', 'step %d: wrapper %d destroyed twice' % (st, a)
                del live[a]
                released.add(a)
            elif ty == 'v':
                vfree_at = st
                if live:
                    return 'value_freed_early', 'step %d: wrapped value destroyed while wrappers %s exist' % (st, sorted(live))
                if destroyed_at is None:
                    return 'value_freed_early', 'step %d: wrapped value destroyed before the mutex' % st
    if fields.get('bad', '0') != '0':
        return 'write_after_free', 'a destroyed shared state was written to (quarantined block modified after its release) or a receiver got an error'
    ung = fields.get('ungranted', '-')
    if ung != '-':
        return 'lost_grant', 'after everything was started and released, accesses %s were never granted' % ung
    for a in started:
        if a not in granted:
            return 'lost_grant', 'access %d was started but never granted' % a
    if live:
        return 'tie_unreleased', 'harness left wrappers %s alive' % sorted(live)
    if fields.get('live', '0') != '0':
        return 'leak', '%s shared-state/value blocks still allocated after every reference was dropped' % fields['live']
    if mode == 'T' and vfree_at is None:
        return 'value_not_freed', 'the wrapped value was never destroyed although mutex and all wrappers are gone'
    return None


def run(ctx):
    r = Result()
    r.rule = ('LOCKSTEP: per case the harness draws (specialisation T|void, 2..4 threads, a request sequence over {R,W}, '
              'a budget of random commands followed by a drain that starts every sender, releases every wrapper and '
              'destroys the mutex) from VERIF_SEED; the controller chooses at every step a command for an idle thread or '
              'lets a thread parked at the head load / CAS / exchange hook continue; the extracted model replays the '
              'schedule; non-trivial = at least two requests and at least one CAS step; distinct = distinct schedule lines. '
              'STRESS (free-running stress twin, harness/c04_stress.cpp): real concurrency, no controller, no hook installed — '
              'per trial a fresh mutex (T or void), 2..4 request groups (one readwrite access or 1..6 read accesses each) '
              'requested and connected sequentially; group 0 is granted up front; then 1..2 releaser threads destroy group 0\'s '
              'wrappers (the last one runs done(): the exchange that closes the queue) while 1..4 starter threads start() the '
              'accesses of the later groups back to back in shuffled order (head load + CAS), all released from one spin barrier '
              'with offsets swept over 0..2047 / 0..255 spin iterations; receivers release inside set_value or keep the wrapper '
              '(released by the starter afterwards / by the main thread at the end); in half of the trials the mutex is destroyed '
              'before the race. Monitors per trial, independent of the model: every started access granted exactly once after '
              'everything is released (lost_grant / granted_twice), no read-write access overlapping anything (overlap_w), every '
              'grant stamp of a group later than every release stamp of all earlier groups (granted_early; one global fetch_add '
              'counter), readers/writers see exactly the writes of the earlier read-write groups (version), no receiver error, no '
              'write to a quarantined freed shared-state block (write_after_free), block accounting (leak, value_not_freed, '
              'value_freed_early); forked child, crash/hang = hit; 10 s time box quick (~1-2 M trials on an idle machine), 90 s '
              'thorough. It exists because lock-step cannot schedule inside a step that a code change split in two '
              '(done(): exchange -> load; store is found by the twin within a few hundred trials, never by lock-step).')
    ctx.build_pika()
    drv = ctx.build_model('C04', 'ExtractC04.v', 'drv_c04.ml')
    h = ctx.build_harness('c04_rw', 'c04_rw.cpp')
    hs = ctx.build_harness('c04_stress', 'c04_stress.cpp')
    plans = []
    if twin_replay(ctx, 'c04_stress'):
        run_twin(ctx, r, 'C04', hs, 'c04_stress', 'RWS', [], 100000000, 10000, 'async_rw_mutex')
        return r
    if ctx.replay:
        try:
            rp = json.load(open(ctx.replay)).get('replay', {})
            a = rp.get('args')
            cid = int(rp.get('case', 'IN RW 0').split(' ')[2])
            plans = [(int(a[0]), cid + 1, cid, int(a[3]))]
        except Exception as e:
            r.notes.append('replay file not understood (%r); running the normal budget' % e)
    if not plans:
        if ctx.tier == 'quick':
            plans = [(ctx.seed, 8000, 0, 12)]
        else:
            plans = [(ctx.seed * 10 + k, 40000, 0, 12 if k < 2 else 40) for k in range(4)]
    for (sd, n, first, maxreq) in plans:
        restarts = 0
        while first < n and restarts < 25:
            args = [sd, n, first, maxreq]
            rc, out = sh([h] + [str(x) for x in args], timeout=3000)
            lines = out.split('\n')
            ins = [x for x in lines if x.startswith('IN RW ')]
            outs = [x for x in lines if x.startswith('OUT RW ')]
            if rc not in (0, 4, 5) or (rc != 0 and not outs):
                r.hits.append(Hit('tie', 'C04:harness', 'rw-mutex harness failed rc=%d: %s' % (rc, out[-600:]),
                                  {'harness': 'c04_rw', 'args': args}))
                break
            rc2, mout = sh([drv], input='\n'.join(ins) + '\n', timeout=3000)
            mouts = [x for x in mout.split('\n') if x.startswith('OUT RW ')]
            if rc2 != 0:
                r.hits.append(Hit('tie', 'C04:driver', 'model driver failed rc=%d: %s' % (rc2, mout[-600:]),
                                  {'harness': 'c04_rw', 'args': args}))
            inmap = {x.split(' ')[2]: x for x in ins}
            # crashed / hung cases are reported by the monitor; they have no model counterpart to compare
            badids = {o.split(' ')[2] for o in outs if 'crash=' in o or 'hang=' in o}
            ok_outs = [o for o in outs if o.split(' ')[2] not in badids]
            diffs, ncases = diff_lines(ctx, ok_outs, [m for m in mouts if m.split(' ')[2] not in badids])
            r.evaluations += len(outs)
            r.traces += ncases - len(diffs)
            for o_ in outs:
                cid = o_.split(' ')[2]
                i_ = inmap.get(cid)
                if i_ is None:
                    continue
                mode, T, ents = parse_case(i_)
                nq = sum(1 for e in ents if e[1][0] == 'q')
                r.count('threads=%d' % T)
                r.count('mode=%s' % mode)
                r.count('requests=%s' % (nq if nq < 13 else '13+'))
                sites = o_.split(' ')[3]
                if nq >= 2 and ',2' in sites:
                    r.nontrivial(i_)
                if ',2,2' in sites:
                    r.count('has_consecutive_cas_sites')
                if any(e[1][0] == 'o' for e in ents):
                    r.count('opstate_dropped_unstarted')
                m = rw_monitor(i_, o_)
                if m:
                    r.hits.append(Hit('monitor', 'C04:rw:' + m[0], 'async_rw_mutex: ' + m[1],
                                      {'harness': 'c04_rw', 'args': [sd, int(cid) + 1, int(cid), maxreq], 'case': i_,
                                       'observed': o_}))
            for (k, a, b) in diffs[:10]:
                r.hits.append(Hit('corr', 'C04:rw:correspondence',
                                  'async_rw_mutex: implementation and model differ on case %s: impl [%s] model [%s]'
                                  % (k[1], a[:900], b[:900]),
                                  {'harness': 'c04_rw', 'args': [sd, int(k[1]) + 1, int(k[1]), maxreq],
                                   'case': inmap.get(k[1]), 'impl': a, 'model': b}))
            for s in list(zip(ins, outs))[:2]:
                r.sample({'input_and_schedule': s[0][:600], 'observed': s[1][:600]})
            if rc == 0:
                break
            last = outs[-1].split(' ')[2]
            first = int(last) + 1
            restarts += 1
    if not ctx.replay:
        run_twin(ctx, r, 'C04', hs, 'c04_stress', 'RWS', [], 100000000, 10000 if ctx.tier == 'quick' else 90000,
                 'async_rw_mutex', min_trials=100000)
    return r
