# C06 — mutexes.  LOCKSTEP of the real spinlock / recursive_mutex_impl<spinlock> against Model/Mutex.v,
# TRACE of the real pika::timed_mutex on pika tasks (critical-section order from hooks 601..607) replayed
# by the extracted model, plus monitors evaluated on the implementation's observations.
import json
import re
from vlib import Hit, Result, diff_lines, sh

ASSUMPTIONS = [
    'sequentially consistent interleaving; one critical section of the mutex-internal spinlock = one atomic step',
    'agent contract of Base/Agent.v plus arbitrary stale wake-up tokens (OSpur): a resume aimed at a running task may be delivered to any later suspension (observed on the real runtime: delayed set_active_state helper)',
    'user programs of spinlock/recursive mutex unlock only what they hold (the primitives do not check); pika::mutex programs are arbitrary',
    'recursive_mutex_impl<pika::mutex> on tasks is checked by runtime monitors only (the recursive layer is modelled over the spinlock and tied in lock-step); its shadow owner is set after an outermost acquisition returned and cleared before the outermost unlock is called',
    'hooks 601..607/603 sit inside the internal critical sections, 610..625 immediately before the atomic access they announce',
]


def fields(line):
    d = {}
    for x in line.split(' ')[3:]:
        if '=' in x:
            k, v = x.split('=', 1)
            d[k] = v
    return d


def strip_mon(line):
    return re.sub(r' #.*$', '', line)


def ls_monitor(kind, inl, outl):
    f = fields(outl)
    if f.get('hang') == '1':
        return 'hang', '%s: threads of case [%s] stopped making progress (spin forever / never released) after %s steps' % (kind, inl, f.get('steps'))
    if int(f.get('occ_bad', '0')) > 0:
        return 'exclusion', '%s: two threads inside the lock / wrong nesting on case [%s]: %s' % (kind, inl, outl)
    return None


def mx_monitor(inl, outl):
    """the property itself on the implementation's observations of one case (independent of the model)"""
    f = fields(outl)
    if f.get('hang', '0') != '0':
        return 'progress', 'tasks blocked forever (watchdog): case [%s] observed [%s]' % (inl[:300], outl[-400:])
    if int(f.get('occ_bad', '0')) > 0:
        return 'exclusion', 'two tasks inside the critical section (occupancy counter) on case [%s]' % inl[:400]
    if int(f.get('err_bad', '0')) > 0:
        return 'misuse', 'misuse not reported (lock by owner must give deadlock, unlock by non-owner lock_error) or spurious error: case [%s]' % inl[:400]
    if 'final' in f and 'writes' in f and f['final'] != f['writes']:
        return 'lost_update', 'unprotected data: %s increments inside critical sections, final value %s: case [%s]' % (f['writes'], f['final'], inl[:400])
    # exclusion / try-lock truthfulness from the critical-section trace itself
    owner = None
    for e in (f.get('ev') or '').split(','):
        if not e:
            continue
        k = e[0]
        m = re.match(r'([A-Z])(-?\d+)(?::(\d+))?', e)
        if not m:
            continue
        t, a = int(m.group(2)), m.group(3)
        acq = (k == 'A') or (k == 'T' and a == '1') or (k == 'D' and a == '2')
        if acq:
            if owner is not None:
                return 'exclusion', 'trace: task %d acquired (%s) while task %d owns the mutex: case [%s]' % (t, e, owner, inl[:300])
            owner = t
        elif k == 'R':
            if owner != t:
                return 'exclusion', 'trace: task %d released a mutex owned by %s: case [%s]' % (t, owner, inl[:300])
            owner = None
    if int(f.get('unfinished', '0')) > 0:
        return 'progress', 'tasks did not finish: case [%s]' % inl[:300]
    return None


def rmx_monitor(inl, outl):
    """recursive_mutex_impl<pika::mutex> on tasks: the property on the implementation's observations of one case"""
    f = fields(outl)
    if int(f.get('occ_bad', '0')) > 0:
        return 'exclusion', 'a first acquisition found another task inside (shadow owner) on case [%s] observed [%s]' % (inl[:300], outl[-300:])
    if int(f.get('exc', '0')) > 0:
        return 'exception', 'an operation threw (pika::mutex reports a lock by its owner as deadlock and an unlock by a non-owner as lock_error: the recursive layer called the underlying mutex when it must not): case [%s] observed [%s]' % (inl[:300], outl[-300:])
    if int(f.get('owner_try_fail', '0')) > 0:
        return 'owner_try_lock', 'try_lock by the owning task failed on case [%s] observed [%s]' % (inl[:300], outl[-300:])
    if int(f.get('depth_bad', '0')) > 0:
        return 'depth', 'shadow nesting depth differs from the owner\'s nesting on case [%s] observed [%s]' % (inl[:300], outl[-300:])
    if f.get('hang', '0') != '0':
        return 'progress', 'tasks blocked forever (watchdog): case [%s] observed [%s]' % (inl[:300], outl[-400:])
    if 'final' in f and 'writes' in f and f['final'] != f['writes']:
        return 'lost_update', 'unprotected data: %s increments inside critical sections, final value %s: case [%s]' % (f['writes'], f['final'], inl[:300])
    if f.get('end_owner', '-1') != '-1' or f.get('end_depth', '0') != '0' or int(f.get('unfinished', '0')) > 0:
        return 'progress', 'case ended with the mutex still held / tasks unfinished: case [%s] observed [%s]' % (inl[:300], outl[-300:])
    return None


def run_rmx(ctx, r, h_rt, sd, n, timeout):
    rc, out = sh([h_rt, str(sd), str(n), 'rm'], timeout=timeout)
    lines = out.split('\n')
    ins = [x for x in lines if x.startswith('IN RMX ')]
    outs = [x for x in lines if x.startswith('OUT RMX ')]
    rep0 = {'harness': 'c06_rt', 'args': [sd, n, 'rm']}
    if rc != 0 or not outs:
        r.hits.append(Hit('monitor' if rc in (124, -6, 134, -11, 139) and outs else 'tie', 'C06:recursive_rt:harness',
                          'c06_rt %s %s rm failed rc=%d: %s' % (sd, n, rc, out[-600:]), rep0))
    inmap = {x.split(' ')[2]: x for x in ins}
    r.evaluations += len(outs)
    tot = {'acq': 0, 'reacq': 0, 'tryfail': 0, 'waited': 0, 'migr': 0, 'writes': 0}
    for o_ in outs:
        p = o_.split(' ')
        i_ = inmap.get(p[2], '')
        f = fields(o_)
        T = int(i_.split(' ')[3]) if i_ else 0
        r.count('RMX tasks=%d' % T)
        for k in tot:
            tot[k] += int(f.get(k, '0'))
        if T >= 2 and int(f.get('reacq', '0')) > 0 and int(f.get('tryfail', '0')) + int(f.get('waited', '0')) > 0:
            r.nontrivial(i_)
        m = rmx_monitor(i_, o_)
        if m:
            r.hits.append(Hit('monitor', 'C06:recursive_rt:%s' % m[0], 'recursive_mutex_impl<pika::mutex> on tasks: ' + m[1],
                              dict(rep0, case=i_, observed=o_)))
    for s_ in list(zip(ins, outs))[:1]:
        r.sample({'recursive_rt_programs': s_[0][:300], 'observed': s_[1][:400]})
    for k in tot:
        r.extra['recursive_rt_' + k] = r.extra.get('recursive_rt_' + k, 0) + tot[k]


def run_pair(ctx, r, drv, harness, args, timeout, kinds):
    rc, out = sh([harness] + [str(a) for a in args], timeout=timeout)
    lines = out.split('\n')
    ins = [x for x in lines if x.startswith('IN ')]
    outs = [x for x in lines if x.startswith('OUT ')]
    if rc != 0 or not outs:
        r.hits.append(Hit('tie', 'C06:harness', '%s failed rc=%d: %s' % (harness, rc, out[-600:]),
                          {'harness': harness, 'args': args}))
    rc2, mout = sh([drv], input='\n'.join(ins) + '\n', timeout=1800)
    mouts = [x for x in mout.split('\n') if x.startswith('OUT ')]
    return ins, outs, mouts


def run(ctx):
    r = Result()
    r.rule = ('LOCKSTEP (spinlock, recursive_mutex_impl<spinlock> on std::threads): thread count 1..4, programs of '
              'lock/try_lock/unlock from VERIF_SEED, controller-chosen interleaving of every atomic access, model replays the '
              'schedule and predicts sites and results.  TRACE (pika::timed_mutex on pika tasks, 4 workers, 1..12 tasks): '
              'seeded programs of lock/try_lock/try_lock_for/unlock/write/yield incl. misuse, busy-wait perturbation at the hooks; '
              'the model replays the order of the internal critical sections and predicts every decision, error and data '
              'version seen.  RECURSIVE-RT (c06_rt <seed> <n> rm: pika::detail::recursive_mutex_impl<pika::mutex> on 2..8 tasks, 4 workers): '
              'seeded programs of lock/try_lock/unlock re-entrant to depth 4, read-yield-write of unprotected data and yields inside the '
              'critical sections (owner migrates between workers); monitors only: occupancy via a shadow owner, shadow depth, try_lock by the '
              'owner succeeds, no exception from the underlying pika::mutex, lost updates, progress watchdog; non-trivial there = a re-entrant '
              'acquisition and a failed try_lock / contended lock in the same case.  Non-trivial = >=2 threads/tasks and at least one wait or failed try; distinct = distinct IN lines')
    ctx.build_pika()
    drv = ctx.build_model('C06', 'ExtractC06.v', 'drv_c06.ml')
    h_ls = ctx.build_harness('c06_ls', 'c06_ls.cpp')
    h_rt = ctx.build_harness('c06_rt', 'c06_rt.cpp')
    quick = ctx.tier == 'quick'
    seeds = [ctx.seed] if quick else [ctx.seed + 1000 * k for k in range(5)]
    if ctx.replay:
        try:
            rp = json.load(open(ctx.replay))
            seeds = [int(rp.get('seed', ctx.seed))]
        except Exception:
            pass
    n_ls = 10000 if quick else 30000
    n_rt = 10000 if quick else 30000
    n_rm = 20000 if quick else 100000
    late_total = 0
    for sd in seeds:
        # ---- lock-step
        ins, outs, mouts = run_pair(ctx, r, drv, h_ls, [sd, n_ls], 600 if quick else 3000, ('SL', 'RM'))
        diffs, ncases = diff_lines(ctx, [strip_mon(x) for x in outs if 'hang=1' not in x], mouts)
        inmap = {(x.split(' ')[1], x.split(' ')[2]): x for x in ins}
        r.evaluations += ncases
        r.traces += ncases
        for o_ in outs:
            p = o_.split(' ')
            i_ = inmap.get((p[1], p[2]), '')
            T = int(i_.split(' ')[3]) if i_ else 0
            r.count('%s threads=%d' % (p[1], T))
            if T >= 2 and ('610,610' in o_ or 'T0' in o_):
                r.nontrivial(i_)
            m = ls_monitor(p[1], i_, o_)
            if m:
                what = 'spinlock' if p[1] == 'SL' else 'recursive'
                r.hits.append(Hit('monitor', 'C06:%s:%s' % (what, m[0]), m[1],
                                  {'harness': 'c06_ls', 'args': [sd, n_ls], 'case': i_, 'observed': o_}))
        for (k, a, b) in diffs[:10]:
            if '<implementation produced no line>' in a:
                continue
            r.hits.append(Hit('corr', 'C06:ls:correspondence',
                              'lock-step %s: implementation and model differ on case %s: impl [%s] model [%s]' % (k[0], k[1], a[:500], b[:500]),
                              {'harness': 'c06_ls', 'args': [sd, n_ls], 'case': inmap.get(k), 'impl': a, 'model': b}))
        for s in list(zip(ins, outs))[:1]:
            r.sample({'lockstep_input_and_schedule': s[0], 'observed': s[1]})
        # ---- trace on the runtime
        ins, outs, mouts = run_pair(ctx, r, drv, h_rt, [sd, n_rt], 900 if quick else 3000, ('MX',))
        for m_ in mouts:
            mm = re.search(r'#late=(\d+)', m_)
            if mm:
                late_total += int(mm.group(1))
        hung = [x for x in outs if ' hang=0' not in x]
        diffs, ncases = diff_lines(ctx, [strip_mon(x) for x in outs if ' hang=0' in x], [strip_mon(x) for x in mouts])
        inmap = {(x.split(' ')[1], x.split(' ')[2]): x for x in ins}
        r.evaluations += ncases
        r.traces += ncases
        for o_ in outs:
            p = o_.split(' ')
            i_ = inmap.get((p[1], p[2]), '')
            T = int(i_.split(' ')[3]) if i_ else 0
            r.count('MX tasks=%d' % min(T, 12))
            ev = fields(o_).get('ev', '')
            if T >= 2 and ('W' in ev or ':0' in ev or 'S' in ev):
                r.nontrivial(i_)
            for kk in ('W', 'S', 'X', 'E', 'D'):
                if kk in ev:
                    r.count('MX trace has %s' % {'W': 'lock wait', 'S': 'timed wait', 'X': 'deadlock error', 'E': 'lock_error', 'D': 'timed result'}[kk])
            m = mx_monitor(i_, o_)
            if m:
                r.hits.append(Hit('monitor', 'C06:mutex:%s' % m[0], 'pika::mutex: ' + m[1],
                                  {'harness': 'c06_rt', 'args': [sd, n_rt], 'case': i_, 'observed': o_}))
        for (k, a, b) in diffs[:10]:
            if '<implementation produced no line>' in a and hung:
                continue
            r.hits.append(Hit('corr', 'C06:mutex:correspondence',
                              'pika::mutex trace: implementation and model differ on case %s: impl [%s] model [%s]' % (k[1], a[:600], b[:600]),
                              {'harness': 'c06_rt', 'args': [sd, n_rt], 'case': inmap.get(k), 'impl': a, 'model': b}))
        for s in list(zip(ins, outs))[:2]:
            r.sample({'trace_programs_and_cs_order': s[0][:400], 'observed': s[1][:600]})
        # ---- recursive_mutex_impl<pika::mutex> on tasks (monitors only)
        run_rmx(ctx, r, h_rt, sd, n_rm, 600 if quick else 2400)
    r.extra['late_resumes_delivered_to_a_later_suspension'] = late_total
    if late_total:
        r.notes.append('%d spurious wake-ups of lock() explained by a delayed set_active_state helper (stale resume of a notified timed waiter); the while loop re-tested the owner each time' % late_total)
    return r
