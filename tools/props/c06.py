# C06 — mutexes.  LOCKSTEP of the real spinlock / recursive_mutex_impl<spinlock> against Model/Mutex.v,
# TRACE of the real pika::timed_mutex on pika tasks (critical-section order from hooks 601..607) replayed
# by the extracted model, plus monitors evaluated on the implementation's observations.
import json
import re
from vlib import Hit, Result, diff_lines, sh

ASSUMPTIONS = [
    'sequentially consistent interleaving; one critical section of the mutex-internal spinlock = one atomic step',
    'agent contract of Base/Agent.v plus arbitrary stale wake-up tokens (OSpur): a resume aimed at a running task may be delivered to any later suspension (observed on the real runtime: delayed set_active_state helper)',
    'user programs of spinlock/recursive mutex unlock only what they hold (the primitives do not check); pika::mutex programs are arbitrary',
    'hooks 601..607/603 sit inside the internal critical sections, 610..625 immediately before the atomic access they announce',
]


def fields(line):
    d = {}
    for x in line.split(' ')[3:]:
        if '=' in x:
            k, v = x.split('=', 1)
            d[k] = v
    return d


def strip_mon(line):
    return re.sub(r' #.*$', '', line)


def ls_monitor(kind, inl, outl):
    f = fields(outl)
    if f.get('hang') == '1':
        return 'hang', '%s: threads of case [%s] stopped making progress (spin forever / never released) after %s steps' % (kind, inl, f.get('steps'))
    if int(f.get('occ_bad', '0')) > 0:
        return 'exclusion', '%s: two threads inside the lock / wrong nesting on case [%s]: %s' % (kind, inl, outl)
    return None


def mx_monitor(inl, outl):
    """the property itself on the implementation's observations of one case (independent of the model)"""
    f = fields(outl)
    if f.get('hang', '0') != '0':
        return 'progress', 'tasks blocked forever (watchdog): case [%s] observed [%s]' % (inl[:300], outl[-400:])
    if int(f.get('occ_bad', '0')) > 0:
        return 'exclusion', 'two tasks inside the critical section (occupancy counter) on case [%s]' % inl[:400]
    if int(f.get('err_bad', '0')) > 0:
        return 'misuse', 'misuse not reported (lock by owner must give deadlock, unlock by non-owner lock_error) or spurious error: case [%s]' % inl[:400]
    if 'final' in f and 'writes' in f and f['final'] != f['writes']:
        return 'lost_update', 'unprotected data: %s increments inside critical sections, final value %s: case [%s]' % (f['writes'], f['final'], inl[:400])
    # exclusion / try-lock truthfulness from the critical-section trace itself
    owner = None
    for e in (f.get('ev') or '').split(','):
        if not e:
            continue
        k = e[0]
        m = re.match(r'([A-Z])(-?\d+)(?::(\d+))?', e)
        if not m:
            continue
        t, a = int(m.group(2)), m.group(3)
        acq = (k == 'A') or (k == 'T' and a == '1') or (k == 'D' and a == '2')
        if acq:
            if owner is not None:
                return 'exclusion', 'trace: task %d acquired (%s) while task %d owns the mutex: case [%s]' % (t, e, owner, inl[:300])
            owner = t
        elif k == 'R':
            if owner != t:
                return 'exclusion', 'trace: task %d released a mutex owned by %s: case [%s]' % (t, owner, inl[:300])
            owner = None
    if int(f.get('unfinished', '0')) > 0:
        return 'progress', 'tasks did not finish: case [%s]' % inl[:300]
    return None


def run_pair(ctx, r, drv, harness, args, timeout, kinds):
    rc, out = sh([harness] + [str(a) for a in args], timeout=timeout)
    lines = out.split('\n')
    ins = [x for x in lines if x.startswith('IN ')]
    outs = [x for x in lines if x.startswith('OUT ')]
    if rc != 0 or not outs:
        r.hits.append(Hit('tie', 'C06:harness', '%s failed rc=%d: %s' % (harness, rc, out[-600:]),
                          {'harness': harness, 'args': args}))
    rc2, mout = sh([drv], input='\n'.join(ins) + '\n', timeout=1800)
    mouts = [x for x in mout.split('\n') if x.startswith('OUT ')]
    return ins, outs, mouts


def run(ctx):
    r = Result()
    r.rule = ('LOCKSTEP (spinlock, recursive_mutex_impl<spinlock> on std::threads): thread count 1..4, programs of '
              'lock/try_lock/unlock from VERIF_SEED, controller-chosen interleaving of every atomic access, model replays the '
              'schedule and predicts sites and results.  TRACE (pika::timed_mutex on pika tasks, 4 workers, 1..12 tasks): '
              'seeded programs of lock/try_lock/try_lock_for/unlock/write/yield incl. misuse, busy-wait perturbation at the hooks; '
              'the model replays the order of the internal critical sections and predicts every decision, error and data '
              'version seen.  Non-trivial = >=2 threads/tasks and at least one wait or failed try; distinct = distinct IN lines')
    ctx.build_pika()
    drv = ctx.build_model('C06', 'ExtractC06.v', 'drv_c06.ml')
    h_ls = ctx.build_harness('c06_ls', 'c06_ls.cpp')
    h_rt = ctx.build_harness('c06_rt', 'c06_rt.cpp')
    quick = ctx.tier == 'quick'
    seeds = [ctx.seed] if quick else [ctx.seed + 1000 * k for k in range(5)]
    if ctx.replay:
        try:
            rp = json.load(open(ctx.replay))
            seeds = [int(rp.get('seed', ctx.seed))]
        except Exception:
            pass
    n_ls = 10000 if quick else 30000
    n_rt = 10000 if quick else 30000
    late_total = 0
    for sd in seeds:
        # ---- lock-step
        ins, outs, mouts = run_pair(ctx, r, drv, h_ls, [sd, n_ls], 600 if quick else 3000, ('SL', 'RM'))
        diffs, ncases = diff_lines(ctx, [strip_mon(x) for x in outs if 'hang=1' not in x], mouts)
        inmap = {(x.split(' ')[1], x.split(' ')[2]): x for x in ins}
        r.evaluations += ncases
        r.traces += ncases
        for o_ in outs:
            p = o_.split(' ')
            i_ = inmap.get((p[1], p[2]), '')
            T = int(i_.split(' ')[3]) if i_ else 0
            r.count('%s threads=%d' % (p[1], T))
            if T >= 2 and ('610,610' in o_ or 'T0' in o_):
                r.nontrivial(i_)
            m = ls_monitor(p[1], i_, o_)
            if m:
                what = 'spinlock' if p[1] == 'SL' else 'recursive'
                r.hits.append(Hit('monitor', 'C06:%s:%s' % (what, m[0]), m[1],
                                  {'harness': 'c06_ls', 'args': [sd, n_ls], 'case': i_, 'observed': o_}))
        for (k, a, b) in diffs[:10]:
            if '<implementation produced no line>' in a:
                continue
            r.hits.append(Hit('corr', 'C06:ls:correspondence',
                              'lock-step %s: implementation and model differ on case %s: impl [%s] model [%s]' % (k[0], k[1], a[:500], b[:500]),
                              {'harness': 'c06_ls', 'args': [sd, n_ls], 'case': inmap.get(k), 'impl': a, 'model': b}))
        for s in list(zip(ins, outs))[:1]:
            r.sample({'lockstep_input_and_schedule': s[0], 'observed': s[1]})
        # ---- trace on the runtime
        ins, outs, mouts = run_pair(ctx, r, drv, h_rt, [sd, n_rt], 900 if quick else 3000, ('MX',))
        for m_ in mouts:
            mm = re.search(r'#late=(\d+)', m_)
            if mm:
                late_total += int(mm.group(1))
        hung = [x for x in outs if ' hang=0' not in x]
        diffs, ncases = diff_lines(ctx, [strip_mon(x) for x in outs if ' hang=0' in x], [strip_mon(x) for x in mouts])
        inmap = {(x.split(' ')[1], x.split(' ')[2]): x for x in ins}
        r.evaluations += ncases
        r.traces += ncases
        for o_ in outs:
            p = o_.split(' ')
            i_ = inmap.get((p[1], p[2]), '')
            T = int(i_.split(' ')[3]) if i_ else 0
            r.count('MX tasks=%d' % min(T, 12))
            ev = fields(o_).get('ev', '')
            if T >= 2 and ('W' in ev or ':0' in ev or 'S' in ev):
                r.nontrivial(i_)
            for kk in ('W', 'S', 'X', 'E', 'D'):
                if kk in ev:
                    r.count('MX trace has %s' % {'W': 'lock wait', 'S': 'timed wait', 'X': 'deadlock error', 'E': 'lock_error', 'D': 'timed result'}[kk])
            m = mx_monitor(i_, o_)
            if m:
                r.hits.append(Hit('monitor', 'C06:mutex:%s' % m[0], 'pika::mutex: ' + m[1],
                                  {'harness': 'c06_rt', 'args': [sd, n_rt], 'case': i_, 'observed': o_}))
        for (k, a, b) in diffs[:10]:
            if '<implementation produced no line>' in a and hung:
                continue
            r.hits.append(Hit('corr', 'C06:mutex:correspondence',
                              'pika::mutex trace: implementation and model differ on case %s: impl [%s] model [%s]' % (k[1], a[:600], b[:600]),
                              {'harness': 'c06_rt', 'args': [sd, n_rt], 'case': inmap.get(k), 'impl': a, 'model': b}))
        for s in list(zip(ins, outs))[:2]:
            r.sample({'trace_programs_and_cs_order': s[0][:400], 'observed': s[1][:600]})
    r.extra['late_resumes_delivered_to_a_later_suspension'] = late_total
    if late_total:
        r.notes.append('%d spurious wake-ups of lock() explained by a delayed set_active_state helper (stale resume of a notified timed waiter); the while loop re-tested the owner each time' % late_total)
    return r
