# C16 — configuration precedence.  PROC tie: one real process per case (harness/c16_cfg.cpp starts
# the runtime with a generated environment + command line and prints what the runtime uses);
# the extracted model (Model/Config.v: run) gets the same inputs; OUT lines are compared.
# Monitors independent of the model evaluate the property itself on the implementation's output.
import json
import os
import random
import re
import shutil
import subprocess
from concurrent.futures import ThreadPoolExecutor

from vlib import BUILD, COQ, V, Hit, Result, TieError, diff_lines, sh

ASSUMPTIONS = [
    'machine facts (number of PUs/cores, PUs in the process mask) are inputs of the model, read from the harness',
    'only the documented fragment of the command-line syntax is generated: --name=value, --name value for string '
    'options, flags, `--`, positional words; @file, short options, --pika:config/app-config/options-file, '
    'allow_unknown=1 and explicit --pika:bind thread lists are outside the model (outcome `unsupported`)',
    'option / ini / environment VALUES containing `$` (nested placeholders, $[key] references) are not generated; ini.cpp '
    'expansion is modelled for ${NAME}, ${NAME:default} including nesting and escaped delimiters, and for $[key], '
    '$[key:default] in the one entry that carries user text (pika.reconstructed_cmd_line: application arguments with `$` '
    'words ARE generated and replayed); substituted text is not scanned again by the model',
    'per-worker affinity masks are not predicted by the model (C15); they are checked for invariance under '
    'option permutation and for bind=none',
]

KEYS = ['pika.os_threads', 'pika.cores', 'pika.scheduler', 'pika.bind', 'pika.affinity', 'pika.pu_step',
        'pika.pu_offset', 'pika.numa_sensitive', 'pika.process_mask', 'pika.ignore_process_mask',
        'pika.stacks.small_size', 'pika.stacks.medium_size', 'pika.max_busy_loop_count',
        'pika.shutdown_check_count', 'pika.thread_queue.max_thread_count']

# the monitor's own knowledge of the documented interface (NOT taken from the translator/model)
SCHED_NAMES = [('local', 0), ('local-priority-fifo', 1), ('local-priority-lifo', 2), ('static', 3),
               ('static-priority', 4), ('abp-priority-fifo', 5), ('abp-priority-lifo', 6), ('shared-priority', 7)]
SETTINGS = {
    # name: (option or None, env var, ini key, default)
    'threads': ('--pika:threads', 'PIKA_THREADS', 'pika.os_threads', 'cores'),
    'cores': ('--pika:cores', 'PIKA_CORES', 'pika.cores', 'all'),
    'scheduler': ('--pika:scheduler', 'PIKA_SCHEDULER', 'pika.scheduler', 'local-priority-fifo'),
    'bind': ('--pika:bind', 'PIKA_BIND', 'pika.bind', 'balanced'),
    'numa': ('--pika:numa-sensitive', 'PIKA_NUMA_SENSITIVE', 'pika.numa_sensitive', '0'),
    'mask': ('--pika:process-mask', 'PIKA_PROCESS_MASK', 'pika.process_mask', ''),
    'small': (None, 'PIKA_SMALL_STACK_SIZE', 'pika.stacks.small_size', None),
    'medium': (None, 'PIKA_MEDIUM_STACK_SIZE', 'pika.stacks.medium_size', None),
    'busy': (None, 'PIKA_MAX_BUSY_LOOP_COUNT', 'pika.max_busy_loop_count', '2000'),
    'shut': (None, 'PIKA_SHUTDOWN_CHECK_COUNT', 'pika.shutdown_check_count', '10'),
    'qmax': (None, 'PIKA_THREAD_QUEUE_MAX_THREAD_COUNT', 'pika.thread_queue.max_thread_count', '1000'),
    # boolean: the option is a flag (present = 1), the variable / ini entry carry 0 or 1
    'ignore': ('--pika:ignore-process-mask', 'PIKA_IGNORE_PROCESS_MASK', 'pika.ignore_process_mask', '0'),
}
HANDLED = {'threads', 'cores', 'scheduler', 'bind', 'numa', 'mask', 'ignore'}   # go through handle_* (manage_config)
FLAGS = {'ignore'}
ALL_SOURCES = ['env', 'pcoini', 'cmdini', 'pcoopt', 'cmdopt']
# description of the scheduler object the default pool really runs (monitor's own table, per scheduling policy)
SCHED_DESC = {0: 'core-local_queue_scheduler', 1: 'core-local_priority_queue_scheduler', 2: 'core-local_priority_queue_scheduler',
              3: 'core-static_queue_scheduler', 4: 'core-static_priority_queue_scheduler',
              5: 'core-abp_fifo_priority_queue_scheduler', 6: 'core-abp_fifo_priority_queue_scheduler',
              7: 'core-shared_priority_queue_scheduler'}
BIND_KEYWORDS = ['none', 'compact', 'scatter', 'balanced', 'numa-balanced']
SYNTHETIC = 'package:2 core:2 pu:2'       # 2 PUs per core: the keywords `cores` (4) and `all` (8) differ
# signatures that belong to recorded defects: never decorated with the input class
KNOWN_SIGS = {'C16:prepend_ini_first_wins', 'C16:prepend_option_over_cmdline_ini', 'C16:precedence:cores:env_lost_to_other'}


DOLLAR_WORDS = ['${C16_VAR}', 'a${C16_UNSET:dflt}b', 'p${C16_VAR}q', '$[pika.os_threads]', 'n=$[pika.scheduler]',
                '$[pika.nosuch.key:zz]', 'a$b', '$', 'x$', '${C16_VAR', '$[pika.os_threads']


def dollar_word(a):
    """an argument containing a complete ${..} or $[..] word"""
    return re.search(r'\$\{[^}]*\}|\$\[[^\]]*\]', a) is not None


# ---- environment values that contain `$` themselves (the ini layer scans substituted text again) -------------------
# pieces of application arguments and of the values of the variables C16A, C16B, C16C (C16A may refer to C16B and C16C,
# C16B to C16C: no cycles unless one is asked for)
DOLLAR_PIECES = ['${C16A}', '${C16B}', '${C16C}', '${C16U:d}', '${C16U}', '$[pika.os_threads]', '$[pika.nosuch:zz]',
                 '$[pika.scheduler]', '$', '{', '}', '[', ']', ':', 'a', 'b', '${', '$[', 'C16A', 'pika.os_threads', 'x y',
                 # placeholders inside the NAME / key of a placeholder (expand_brace / expand_bracket expand what follows first)
                 '${${C16N}}', '${C16${C16M}}', '$[pika.${C16K}]', '${C16U:${C16C}}', '$[${C16U:pika.cores}]']
SELF_REF = re.compile(r'^.+\$\{')      # a placeholder start behind the first character


def self_referential(env):
    """some variable's value contains a reference to a variable (possibly itself, possibly through others) behind its
    first character in a cycle: the syntactic class of inputs on which the real expansion does not end"""
    refs = {k: set(re.findall(r'\$\{([A-Za-z0-9_]+)', v[1:])) | set(re.findall(r'^\$\{([A-Za-z0-9_]+)', v)) for k, v in env.items()}
    grow = {k for k, v in env.items() if re.search(r'\$\{', v[1:])}
    # a cycle that passes through a variable whose reference sits behind its first character
    for k in grow:
        seen, todo = set(), [k]
        while todo:
            x = todo.pop()
            for y in refs.get(x, ()):
                if y == k:
                    return True
                if y in env and y not in seen:
                    seen.add(y)
                    todo.append(y)
    return False


def dollar_env_cases(rng, mach, first_id, quick):
    cases = []

    def add(env, args, src=None, fam='dollar_env', timeout=None):
        e = dict(env)
        e.update(mach['env'])
        c = {'id': first_id + len(cases), 'env': e, 'args': list(args), 'src': src or {}, 'invalid': None, 'unknown': None,
             'apps': [], 'items': list(args), 'tail': [], 'nasty': False, 'mach': mach['name'], 'taskset': mach['taskset'], 'fam': fam}
        if timeout:
            c['timeout'] = timeout
        cases.append(c)

    # fixed: the former model/implementation mismatch and its relatives (C16_expand_value_rescanned), the looping inputs
    # (C16_expand_self_reference_loops) and the formerly crashing ones (a colon directly behind `${` / `$[`: repaired,
    # C16_colon_at_start_is_default - ordinary correspondence cases now, the model says what they expand to)
    add({'X': '$[pika.os_threads]'}, ['${X}', '--pika:threads=3'], {'threads': {'cmdopt': '3'}})
    add({'X': 'a$[pika.os_threads]'}, ['${X}', '--pika:threads=3'], {'threads': {'cmdopt': '3'}})
    add({'X': '', 'Y': '${Z}', 'Z': '${W}', 'W': 'w'}, ['${X}${Y}', '--pika:threads=2'], {'threads': {'cmdopt': '2'}})
    add({'X': 'a', 'Y': '${Z}', 'Z': '${W}', 'W': 'w'}, ['${X}${Y}', '--pika:threads=2'], {'threads': {'cmdopt': '2'}})
    add({'X': '', 'HOME': '/h'}, ['$${X}{HOME}', '--pika:threads=2'], {'threads': {'cmdopt': '2'}})
    add({'C16N': 'C16V', 'C16V': 'val'}, ['${${C16N}}', '$[pika.${C16K}]', '--pika:threads=2'], {'threads': {'cmdopt': '2'}})
    add({'C16V': 'val'}, ['${C16U:${C16V}}', 'p${C16${C16M:V}}q', '--pika:threads=2'], {'threads': {'cmdopt': '2'}})
    add({'C16A': '${C16A}'}, ['${C16A}', '--pika:threads=2'], {'threads': {'cmdopt': '2'}})
    add({'PIKA_THREADS': '${C16T}', 'C16T': '3'}, [], {'threads': {'env': '3'}})
    add({'PIKA_THREAD_QUEUE_MAX_THREAD_COUNT': '${C16J}', 'C16I': '1100', 'C16J': '${C16I}'}, ['--pika:threads=2'])   # entry = ${C16I}
    add({'C16A': 'x${C16A}'}, ['${C16A}', '--pika:threads=2'], fam='dollar_loop', timeout=6)
    add({'PIKA_TRACE_DEPTH': 'x${PIKA_TRACE_DEPTH}'}, ['--pika:threads=2'], fam='dollar_loop', timeout=6)
    add({'C16A': 'p${C16B}', 'C16B': 'q${C16A}'}, ['${C16B}', '--pika:threads=2'], fam='dollar_loop', timeout=6)
    add({}, ['${:x}', '--pika:threads=2'], {'threads': {'cmdopt': '2'}}, fam='dollar_colon')
    add({'C16A': ':'}, ['$[${C16A}k]', '--pika:threads=2'], {'threads': {'cmdopt': '2'}}, fam='dollar_colon')
    add({}, ['$[:x]', 'p${:}q', '--pika:threads=2'], {'threads': {'cmdopt': '2'}}, fam='dollar_colon')
    add({}, ['a${:b:c}d', 'p$[:]q', '--pika:threads=2'], {'threads': {'cmdopt': '2'}}, fam='dollar_colon')
    add({'C16V': 'val', 'C16A': ':'}, ['$[:${C16V}]', '${${C16A}d}', '--pika:threads=2'], {'threads': {'cmdopt': '2'}}, fam='dollar_colon')
    add({'C16V': 'val'}, ['${\\:x}', '${C16U\\:x:y}', '${::}', '--pika:threads=2'], {'threads': {'cmdopt': '2'}}, fam='dollar_colon')
    add({'PIKA_THREADS': '${:3}'}, [], {'threads': {'env': '3'}}, fam='dollar_colon')
    add({'PIKA_THREADS': '${:3}'}, ['--pika:threads=2'], {'threads': {'env': '3', 'cmdopt': '2'}}, fam='dollar_colon')
    # settings whose environment variable holds a reference to another variable, against the other sources
    indirect = {'threads': ['2', '3', '4'], 'scheduler': ['static', 'local', 'local-priority-lifo', 'static-priority'],
                'small': ['0x18000', '0x20000', '98304'], 'busy': ['1500', '2500', '777'], 'qmax': ['900', '1100']}
    for n, values in indirect.items():
        opt, envn, key, _ = SETTINGS[n]
        for other in ([None, 'cmdini', 'pcoini'] + (['cmdopt'] if opt else [])):
            v = rng.choice(values)
            form = rng.choice(['${C16I}', '${C16U:%s}' % v])     # (two levels, ${C16J}, stop at ${C16I}: first character skipped)
            env = {envn: form, 'C16I': v, 'C16J': '${C16I}'}
            vals = {'env': v}
            pco, cmd = [], []
            if other:
                w = rng.choice([x for x in values if x != v])
                vals[other] = w
                emit(n, {other: w}, env, pco, cmd)
            if pco:
                env['PIKA_COMMANDLINE_OPTIONS'] = ' '.join(pco)
            if n != 'threads':
                cmd.append('--pika:threads=2')
            add(env, cmd, {n: vals})
    # random nests
    for _ in range(40 if quick else 400):
        def val(allowed):
            ps = [p_ for p_ in DOLLAR_PIECES if (not re.match(r'\$\{C16[ABC]\}', p_) or p_[5] in allowed) and 'C16N' not in p_ and 'C16M' not in p_ and '${C16C}' not in p_[1:]]
            return ''.join(rng.choice(ps) for _ in range(rng.randint(0, 4)))
        env = {'C16C': val(''), 'C16B': val('C'), 'C16A': val('BC'), 'C16N': rng.choice(['C16A', 'C16C', 'C16U']),
               'C16M': rng.choice(['A', 'B', 'Z']), 'C16K': rng.choice(['os_threads', 'scheduler', 'nosuch'])}
        args = [''.join(rng.choice(DOLLAR_PIECES) for _ in range(rng.randint(1, 4))) for _ in range(rng.randint(1, 2))]
        args = [a for a in args if not a.startswith('-')] or ['${C16A}']
        add(env, args + ['--pika:threads=2'], {'threads': {'cmdopt': '2'}},
            fam='dollar_colon' if any('${:' in x or '$[:' in x for x in list(env.values()) + args) else 'dollar_env')
    return cases


def hx(s):
    return s.encode().hex() if s else '-'


def unhx(h):
    return '' if h == '-' else bytes.fromhex(h).decode(errors='replace')


def build_driver(ctx):
    """as ctx.build_model, but the extracted module defines a type `string` (Coq strings) that would
    shadow OCaml's in ocaml/conv.ml.in: re-bind the name after `open M`"""
    d = '%s/ocaml/c16' % BUILD
    os.makedirs(d, exist_ok=True)
    rc, o = sh(['timeout', '300', 'coqc', '-Q', COQ, 'Pika', '-o', d + '/ExtractC16.vo', COQ + '/Extract/ExtractC16.v'], cwd=d)
    ctx.log('extract C16', rc, o[-2000:])
    if rc != 0:
        raise TieError('extraction of ExtractC16.v failed (model does not compile): ' + o[-2000:])
    with open(d + '/drv.ml', 'w') as f:
        f.write('open M\ntype cstring = M.string\ntype string = Stdlib.String.t\n')
        f.write(open(V + '/ocaml/conv.ml.in').read())
        f.write(open(V + '/ocaml/drv_c16.ml').read())
    rc, o = sh(['ocamlfind', 'ocamlopt', '-w', '-a', '-O3', 'm.mli', 'm.ml', 'drv.ml', '-o', 'drv'], cwd=d, timeout=600)
    if rc != 0:
        raise TieError('OCaml driver drv_c16.ml does not build: ' + o[-2000:])
    return d + '/drv'


# ------------------------------------------------------------------ case generation
def gen_value(rng, name, mach, invalid=False, symbolic=True):
    pus = mach['pus']
    if name == 'threads':
        if invalid:
            return rng.choice(['0', 'abc', '3x', str(pus + 1)])
        return rng.choice([str(rng.randint(1, min(pus, 6))), str(rng.randint(1, min(pus, 6))), str(pus)] + (['cores', 'all'] if symbolic else []))
    if name == 'cores':
        return rng.choice([str(rng.randint(1, min(pus, 4)))] + (['all'] if symbolic else []))
    if name == 'scheduler':
        if invalid:
            return rng.choice(['foo', 'local-priority-x'])
        return rng.choice(['local', 'static', 'local-priority-fifo', 'local-priority-lifo', 'static-priority',
                           'shared-priority', 'abp-priority-fifo', 'loc', 'local-p', 'stat'])
    if name == 'bind':
        return rng.choice(['none', 'compact', 'scatter', 'balanced'])
    if name == 'numa':
        if invalid:
            return rng.choice(['3', '7'])
        return rng.choice(['0', '1', '2'])
    if name == 'mask':
        bits = rng.sample(mach['pubits'], rng.randint(1, min(4, len(mach['pubits']))))
        return hex(sum(1 << b for b in bits))
    if name in ('small', 'medium'):
        return rng.choice(['0x10000', '0x18000', '0x20000', '0x28000', '98304', '0x30000'])
    return str(rng.randint(1, 5000))


def make_case(rng, mach, idx):
    names = [x for x in SETTINGS if x not in FLAGS]
    if mach['pus'] != mach['cores'] or len(mach['pubits']) < 2:
        names.remove('mask')
    k = rng.choice([1, 1, 2, 2, 3])
    chosen = rng.sample(names, k)
    if 'cores' in chosen and 'threads' in chosen:
        chosen.remove('threads')
    if 'mask' in chosen and 'threads' not in chosen and rng.random() < 0.5:
        pass
    env, pco, cmd = {}, [], []
    src = {}
    invalid = None
    for n in chosen:
        opt, envn, key, _ = SETTINGS[n]
        avail = ['env', 'pcoini', 'cmdini'] + (['pcoopt', 'cmdopt'] if opt and n not in FLAGS else [])
        mode = rng.random()
        if mode < 0.25:
            present = [rng.choice(avail)]
        elif mode < 0.9:
            present = [s for s in avail if rng.random() < 0.5] or [rng.choice(avail)]
        else:
            present = list(avail)
        if n == 'numa' and len(present) > 3:
            present = rng.sample(present, 3)
        if n == 'bind' and 'pcoopt' in present and 'cmdopt' in present:
            present.remove('pcoopt')
        vals = {}
        used = set()
        for s in present:
            for _ in range(20):
                v = gen_value(rng, n, mach, symbolic=(len(present) == 1 or n == 'threads'))
                if v not in used:
                    break
            used.add(v)
            vals[s] = v
        src[n] = vals
    # one invalid injection (about 1 case in 6): replaces the value of the highest-precedence source
    if rng.random() < 0.17:
        cands = [n for n in chosen if n in ('threads', 'scheduler', 'numa')]
        if cands:
            n = rng.choice(cands)
            order = ['cmdopt', 'pcoopt', 'cmdini', 'pcoini', 'env']
            top = [s for s in order if s in src[n]][0]
            # only where the deciding source is not itself subject to a known prepend inversion
            if not (n == 'numa' and top not in ('cmdopt', 'pcoopt')) and \
                    not (top == 'cmdini' and ('pcoini' in src[n] or 'pcoopt' in src[n])):
                src[n][top] = gen_value(rng, n, mach, invalid=True)
                if src[n][top] == str(mach['pus'] + 1) and 'bind' in chosen:
                    src[n][top] = '0'      # oversubscription is legitimate with bind=none
                invalid = (n, top, src[n][top])
    for n in chosen:
        opt, envn, key, _ = SETTINGS[n]
        for s, v in src[n].items():
            if s == 'env':
                env[envn] = v
            elif s == 'pcoini':
                pco.append('--pika:ini=%s=%s' % (key, v))
            elif s == 'cmdini':
                cmd.append('--pika:ini=%s=%s' % (key, v))
            elif s == 'pcoopt':
                pco.append('%s=%s' % (opt, v))
            elif s == 'cmdopt':
                if n in ('threads', 'scheduler', 'cores') and rng.random() < 0.15:
                    cmd.append([opt, v])         # "--name value" form: two tokens that stay together
                else:
                    cmd.append('%s=%s' % (opt, v))
    if 'cores' in chosen:
        cmd.append('--pika:threads=1')
    extra = rng.random()
    unknown = None
    if extra < 0.06:
        unknown = rng.choice(['--pika:bogus=1', '--pika:thraeds=2', '--pika:nosuch', '--pika:ini-file=x'])
        cmd.append(unknown)
    elif extra < 0.10:
        cmd.append('--pika:ignore-process-mask')
    elif extra < 0.13:
        env['PIKA_IGNORE_PROCESS_MASK'] = rng.choice(['0', '1'])
    elif extra < 0.19 and 'bind' not in chosen:
        # pu-step / pu-offset / affinity: rejected together with the default bind, accepted with an empty one
        cmd.append(rng.choice(['--pika:pu-step=2', '--pika:pu-offset=1', '--pika:affinity=core']))
        # (an out-of-range thread count is only an *invalid* value while a binding mode is in force:
        # with an empty bind pika accepts it — that is C15's finding — so never combine the two)
        if rng.random() < 0.5 and not (invalid and invalid[0] == 'threads'):
            env['PIKA_BIND'] = ''
    elif extra < 0.21 and 'scheduler' not in chosen:
        cmd.append('--pika:scheduler=local-priority')
        cmd.append('--pika:high-priority-threads=1')
    elif extra < 0.23:
        cmd.append('--pika:ini=pika.bogus_key=1')
    elif extra < 0.25:
        cmd.append('--pika:ini=pika.bogus_key!=1')
    # application arguments
    words = ['x', 'input.dat', 'a=b', 'n:3', '42', 'a b', 'out/', 'k,v', 'UPPER', 'with\ttab']
    nasty = ['a"b', "it's", 'a\\b', '']
    apps = []
    for _ in range(rng.choice([0, 0, 1, 2, 3])):
        apps.append(rng.choice(words))
    nasty_used = False
    if rng.random() < 0.05:
        apps.insert(rng.randint(0, len(apps)), rng.choice(nasty))
        nasty_used = True
    elif rng.random() < 0.06:
        # words the ini layer expands when init_helper reads the rebuilt command line back (C16:app_args:dollar_expanded)
        # and words with a dollar sign that it leaves alone
        apps.insert(rng.randint(0, len(apps)), rng.choice(DOLLAR_WORDS))
        env['C16_VAR'] = rng.choice(['v1', 'two words'])
    items = cmd + apps
    rng.shuffle(items)
    # keep the relative order of the application words (they must arrive in that order)
    it_apps = iter(apps)
    items = [next(it_apps) if (not isinstance(x, list) and x in apps and not str(x).startswith('--')) else x for x in items]
    tail = []
    if rng.random() < 0.08:
        tail = ['--'] + [rng.choice(['-z', '--pika:threads=1', 'w', '--flag'])]
    args = []
    for x in items:
        args.extend(x if isinstance(x, list) else [x])
    args += tail
    rng.shuffle(pco)
    if pco:
        env['PIKA_COMMANDLINE_OPTIONS'] = ' '.join(pco)
    env.update(mach['env'])
    return {'id': idx, 'env': env, 'args': args, 'src': src, 'invalid': invalid, 'unknown': unknown,
            'apps': [a for a in args if False], 'items': items, 'tail': tail, 'nasty': nasty_used,
            'mach': mach['name'], 'taskset': mach['taskset'], 'fam': 'random'}


# ------------------------------------------------------------------ values with a separate code path: keywords, abbreviations, flags
def popcount(v):
    return bin(v).count('1')


def counts_for(mach, ignore, mask):
    """(PUs, cores) the keywords `all` / `cores` stand for: whole machine when the process mask is ignored, else the
    explicit mask, else the inherited one; a core counts when one of its PUs is in the mask"""
    if ignore:
        return mach['pus'], mach['cores']
    if mask:
        v = int(mask, 16)
        return popcount(v), sum(1 for cm in mach['coremasks'] if cm & v)
    return mach['maskcount'], mach['maskcores']


def emit(n, vals, env, pco, cmd):
    opt, envn, key, _ = SETTINGS[n]
    for s_, v in vals.items():
        if s_ == 'env':
            env[envn] = v
        elif s_ == 'pcoini':
            pco.append('--pika:ini=%s=%s' % (key, v))
        elif s_ == 'cmdini':
            cmd.append('--pika:ini=%s=%s' % (key, v))
        elif s_ == 'pcoopt':
            pco.append(opt if n in FLAGS else '%s=%s' % (opt, v))
        elif s_ == 'cmdopt':
            cmd.append(opt if n in FLAGS else '%s=%s' % (opt, v))


def finish_kw(rng, idx, mach, fam, src, env, pco, cmd, extra=None):
    apps = [rng.choice(['x', 'input.dat', 'n:3'])] if rng.random() < 0.3 else []
    items = cmd + apps
    rng.shuffle(items)
    rng.shuffle(pco)
    env = dict(env)
    if pco:
        env['PIKA_COMMANDLINE_OPTIONS'] = ' '.join(pco)
    env.update(mach['env'])
    c = {'id': idx, 'env': env, 'args': list(items), 'src': src, 'invalid': None, 'unknown': None, 'apps': [],
         'items': list(items), 'tail': [], 'nasty': False, 'mach': mach['name'], 'taskset': mach['taskset'], 'fam': fam}
    if extra:
        c.update(extra)
    return c


def third_sources(vals):
    """sources a third value may come from without putting the option both into PIKA_COMMANDLINE_OPTIONS and on the command line"""
    return [s_ for s_ in ALL_SOURCES if s_ not in vals and not ((({s_} | set(vals)) >= {'pcoopt', 'cmdopt'}) and not (set(vals) >= {'pcoopt', 'cmdopt'}))]


def really_decides(ka, kb):
    """source ka outranks kb AND the pair is not one of the recorded inversions / the duplicate rejection: the value in ka is
    then the one the live runtime must show"""
    return layer_rank(ka) > layer_rank(kb) and not (ka == 'cmdini' and kb in ('pcoini', 'pcoopt')) and {ka, kb} != {'pcoopt', 'cmdopt'}


def ordered_pairs(exclude=()):
    return [(a, b) for a in ALL_SOURCES for b in ALL_SOURCES if a != b and (a, b) not in exclude]


def kw_cases(rng, machs, first_id, quick):
    """scenarios for values that take a code path of their own (keywords of the worker count and of pika.cores, binding
    keywords, scheduler names given as abbreviations, the boolean ignore-process-mask flag): the special value sits in
    source A, an ordinary (or another special) value in source B, for EVERY ordered pair (A, B) of the five sources, so
    that it is met both above and below the other value; optionally a third source"""
    cases = []
    mlist = [m for m in machs.values()]

    def nid():
        return first_id + len(cases)

    # ---- worker count: cores / all
    reps = 1 if quick else 6
    for rep in range(reps):
        for i, (ka, kb) in enumerate(ordered_pairs()):
            for kw in ([rng.choice(['cores', 'all'])] if {ka, kb} == {'pcoopt', 'cmdopt'} else ['cores', 'all']):
                mach = rng.choice([machs['syn']] * 3 + mlist) if 'syn' in machs else rng.choice(mlist)
                env, pco, cmd, src = {}, [], [], {}
                ignore, mask = False, ''
                r = rng.random()
                if r < 0.2 and mach['maskcount'] < mach['pus']:
                    ignore = True
                    cmd.append('--pika:ignore-process-mask')
                elif r < 0.5 and len(mach['pubits']) >= 3:
                    bits = rng.sample(mach['pubits'], rng.randint(2, min(5, len(mach['pubits']))))
                    mask = hex(sum(1 << b for b in bits))
                    src['mask'] = {rng.choice(['env', 'cmdopt', 'cmdini']): mask}
                    emit('mask', src['mask'], env, pco, cmd)
                npu, ncore = counts_for(mach, ignore, mask)
                other = [x for x in range(1, min(npu, 6) + 1) if x not in (npu, ncore)] or [x for x in range(1, npu + 1) if x != (ncore if kw == 'cores' else npu)]
                if not other:
                    continue
                vals = {ka: kw, kb: str(rng.choice(other))}
                if rng.random() < 0.3 and third_sources(vals):
                    vals[rng.choice(third_sources(vals))] = rng.choice([str(rng.choice(other)), 'all' if kw == 'cores' else 'cores'])
                src['threads'] = vals
                emit('threads', vals, env, pco, cmd)
                cases.append(finish_kw(rng, nid(), mach, 'kw_threads', src, env, pco, cmd))
    # ---- pika.cores: all (the environment variable is a recorded defect: only as the lower source)
    pairs = [(a, b) for (a, b) in ordered_pairs() if a != 'env']
    decp = [pq for pq in pairs if really_decides(*pq)]
    for (ka, kb) in (rng.sample(decp, 4) + rng.sample([pq for pq in pairs if pq not in decp], 4) if quick else pairs):
        mach = rng.choice(mlist)
        env, pco, cmd = {}, [], ['--pika:threads=1']
        _, ncore = counts_for(mach, False, '')
        vals = {ka: 'all', kb: str(rng.choice([x for x in range(1, 5) if x != ncore]))}
        emit('cores', vals, env, pco, cmd)
        cases.append(finish_kw(rng, nid(), mach, 'kw_cores', {'cores': vals}, env, pco, cmd))
    # ---- scheduler: an abbreviation (any prefix of a documented name) against a full name of another policy.  Boundary
    # abbreviations of every name are all used: 1 and 2 characters, up to / just before every dash, all but the last character
    bound = set()
    for full, _ in SCHED_NAMES:
        bound.update([full[:1], full[:2], full[:-1]])
        for i, ch_ in enumerate(full):
            if ch_ == '-':
                bound.update([full[:i], full[:i + 1]])
    bound = sorted(b_ for b_ in bound if b_ and b_ not in [nm for nm, _ in SCHED_NAMES])
    rng.shuffle(bound)
    pairs = ordered_pairs()
    rng.shuffle(pairs)
    dec = [pq for pq in pairs if really_decides(*pq)]
    # every boundary abbreviation once as the DECIDING value; then random prefixes over all ordered pairs
    plan = [(ab, dec[i % len(dec)], True) for i, ab in enumerate(bound)]
    for rep in range(reps):
        for pq in pairs:
            full, _ = rng.choice(SCHED_NAMES)
            plan.append((full[:rng.randint(1, len(full) - 1)], pq, False))
    for ab, (ka, kb), strict in plan:
        mach = rng.choice(mlist)
        others = [nm for nm, q in SCHED_NAMES if q != sched_policy(ab)]
        vals = {ka: ab, kb: rng.choice(others)}
        if not strict and rng.random() < 0.25 and third_sources(vals):
            o2 = rng.choice(others)
            vals[rng.choice(third_sources(vals))] = o2[:rng.randint(1, len(o2))]
        env, pco, cmd = {}, [], ['--pika:threads=%d' % rng.randint(1, 3)]
        emit('scheduler', vals, env, pco, cmd)
        cases.append(finish_kw(rng, nid(), mach, 'kw_scheduler', {'scheduler': vals}, env, pco, cmd))
    # ---- binding keywords; the option is composing, so never in PIKA_COMMANDLINE_OPTIONS and on the command line at once
    bm = machs.get('syn', machs['real'])
    for rep in range(reps):
        bp = ordered_pairs(exclude=[('pcoopt', 'cmdopt'), ('cmdopt', 'pcoopt')])
        rng.shuffle(bp)
        bp.sort(key=lambda pq: not really_decides(*pq))        # deciding pairs first: every keyword decides at least once
        off = rng.randint(0, 4)
        for i, (ka, kb) in enumerate(bp):
            a = BIND_KEYWORDS[(i + off) % len(BIND_KEYWORDS)]
            b = rng.choice([x for x in BIND_KEYWORDS if x != a])
            k = rng.choice([6, 6, 5, 4, 3])
            k = min(k, bm['maskcount'])
            vals = {ka: a, kb: b}
            env, pco, cmd = {}, [], ['--pika:threads=%d' % k]
            emit('bind', vals, env, pco, cmd)
            cases.append(finish_kw(rng, nid(), bm, 'kw_bind', {'bind': vals}, env, pco, cmd, {'bind_threads': k}))
    # ---- boolean flag: --pika:ignore-process-mask / PIKA_IGNORE_PROCESS_MASK / pika.ignore_process_mask, observed through
    # the meaning of `all` / `cores` on a machine whose process mask is smaller than the machine
    small = [m for m in mlist if m['maskcount'] < m['pus']]
    pairs = ordered_pairs(exclude=[('pcoopt', 'cmdopt'), ('cmdopt', 'pcoopt')])
    for (ka, kb) in (rng.sample(pairs, 10) if quick else pairs):
        mach = rng.choice(small or mlist)
        fa, fb = ka in ('pcoopt', 'cmdopt'), kb in ('pcoopt', 'cmdopt')
        va = '1' if fa else ('0' if fb else rng.choice(['0', '1']))
        vb = '1' if fb else ('0' if va == '1' else '1')
        vals = {ka: va, kb: vb}
        env, pco, cmd = {}, [], []
        emit('ignore', vals, env, pco, cmd)
        tv = {rng.choice(['env', 'cmdopt', 'cmdini']): rng.choice(['all', 'cores'])}
        emit('threads', tv, env, pco, cmd)
        cases.append(finish_kw(rng, nid(), mach, 'kw_ignore', {'ignore': vals, 'threads': tv}, env, pco, cmd))
    return cases


def permuted(rng, case, idx):
    """same sources, options on the command line in another order (application words keep their order)"""
    items = list(case['items'])
    opts = [x for x in items if isinstance(x, list) or str(x).startswith('--')]
    rng.shuffle(opts)
    it = iter(opts)
    items2 = [next(it) if (isinstance(x, list) or str(x).startswith('--')) else x for x in items]
    args = []
    for x in items2:
        args.extend(x if isinstance(x, list) else [x])
    c = dict(case)
    c.update({'id': idx, 'args': args + case['tail'], 'items': items2, 'perm_of': case['id']})
    return c


def in_line(case, mach):
    env = ','.join('%s:%s' % (k, hx(v)) for k, v in sorted(case['env'].items())) or '-'
    return 'IN CFG %d keys=%s env=%s mach=%d,%d,%d,%d coremasks=%s arg0=%s args=%s' % (
        case['id'], ','.join(KEYS), env, mach['pus'], mach['cores'], mach['maskcount'], mach['maskcores'],
        ';'.join('%x' % cm for cm in mach['coremasks']), hx(mach['arg0']), ','.join(hx(a) for a in case['args']) or '-')


# ------------------------------------------------------------------ running the real thing
CLEAN_ENV = {k: v for k, v in os.environ.items() if not k.startswith('PIKA_') and not k.startswith('HWLOC_')}


def run_real(binary, case):
    env = dict(CLEAN_ENV)
    env.update(case['env'])
    env['C16_KEYS'] = ','.join(KEYS)
    try:
        pre = ['taskset', '-c', case['taskset']] if case.get('taskset') else []
        p = subprocess.run(pre + [binary] + case['args'], env=env, stdout=subprocess.PIPE, stderr=subprocess.PIPE,
                           timeout=case.get('timeout', 40))
        return p.returncode, p.stdout.decode(errors='replace'), p.stderr.decode(errors='replace')
    except subprocess.TimeoutExpired as e:
        return 124, (e.stdout or b'').decode(errors='replace'), (e.stderr or b'').decode(errors='replace') + '\n[timeout]'


def mask_bits(text):
    """pika prints a mask as 0x followed by one digit per PU (most significant first)"""
    d = text[2:] if text.startswith('0x') else text
    return [i for i, ch_ in enumerate(reversed(d)) if ch_ == '1']


def probe_machine(binary, name, menv, taskset):
    """machine facts of one variant (inputs of the model and of the monitors), read from the harness"""
    c = {'env': dict(menv), 'args': ['--pika:threads=1'], 'taskset': taskset}
    rc, out, err = run_real(binary, c)
    m = re.search(r'C16 MACHINE pus=(\d+) cores=(\d+) maskcount=(\d+) mask=(0x[0-9a-f]+)', out)
    t = re.search(r'C16 TOPO coremasks=(\S+)', out)
    if not m or not t or 'C16 STOP rc=0' not in out:
        return None, (out + err)[-600:]
    bits = mask_bits(m.group(4))
    cms = [sum(1 << b for b in mask_bits(x)) for x in t.group(1).split(',')]
    mv = sum(1 << b for b in bits)
    mach = {'name': name, 'env': dict(menv), 'taskset': taskset, 'pus': int(m.group(1)), 'cores': int(m.group(2)),
            'maskcount': int(m.group(3)), 'maskcores': sum(1 for cm in cms if cm & mv), 'coremasks': cms,
            'pubits': [b for b in bits if b < int(m.group(1))], 'arg0': binary}
    if len(bits) != mach['maskcount'] or len(cms) != mach['cores']:
        return None, 'inconsistent machine line: %s' % out[-300:]
    return mach, ''


def classify(rc, out, err):
    """observation of one run -> dict"""
    o = {'rc': rc, 'lines': {}}
    for ln in out.split('\n'):
        if ln.startswith('C16 '):
            p = ln.split(' ')
            o['lines'][p[1]] = dict(x.split('=', 1) for x in p[2:] if '=' in x) if p[1] != 'CFG' else {'raw': p[2] if len(p) > 2 else '-'}
    started = 'ARGV' in o['lines'] and 'WORKERS' in o['lines'] and 'STOP' in o['lines']
    if started and o['lines']['STOP'].get('rc') == '0' and rc == 0:
        o['kind'] = 'started'
        return o
    o['kind'] = 'rejected'
    msg = err + out
    if rc == 124:
        o['cls'] = 'hang'
    elif 'STOP' in o['lines'] and 'ARGV' not in o['lines']:
        o['cls'] = 'late_unknown' if 'unrecognised option' in msg else 'late_split'
    elif 'basic_string::replace' in msg and 'std::out_of_range' in msg:
        o['cls'] = 'expand_crash'
    elif 'cannot be specified more than once' in msg:
        o['cls'] = 'multiple_occurrences'
    elif 'bad lexical cast' in msg:
        o['cls'] = 'bad_cast'
    elif 'Attempt to initialize unknown entry' in msg:
        o['cls'] = 'ini_unknown'
    elif 'larger than number of' in msg:
        o['cls'] = 'resources'
    elif 'command_line_error' in msg:
        o['cls'] = 'invalid'
    elif re.search(r"is invalid|is missing|does not take any arguments|should follow immediately|is ambiguous", msg):
        o['cls'] = 'syntax'
    else:
        o['cls'] = 'other:' + (re.findall(r'what\(\):\s*(.*)', msg) or [msg[-120:].replace('\n', ' ')])[0][:80].replace(' ', '_')
    return o


def out_line(case, o):
    if o['kind'] == 'started':
        L = o['lines']
        argv = L['ARGV'].get('argv', '').split(',')[1:]
        cfg = L['CFG']['raw']
        cores = '?'
        for kv in cfg.split(','):
            if kv.startswith('pika.cores:'):
                cores = unhx(kv.split(':', 1)[1])
        return 'OUT CFG %d started threads=%s cores=%s policy=%s stacks=%s,%s,%s,%s argv=%s cfg=%s' % (
            case['id'], L['WORKERS']['workers'], cores, L['SCHED']['policy'], L['STACKS']['small'], L['STACKS']['medium'],
            L['STACKS']['large'], L['STACKS']['huge'], ','.join(argv) or '-', cfg)
    return 'OUT CFG %d rejected %s' % (case['id'], o['cls'])


# ------------------------------------------------------------------ monitors (independent of the model)
def layer_rank(s):
    # the statement: command line > environment (variable or PIKA_COMMANDLINE_OPTIONS entry) > default;
    # inside one layer an explicit option is more specific than an ini definition
    return {'cmdopt': 6, 'cmdini': 5, 'pcoopt': 4, 'pcoini': 3, 'env': 2}[s]


def sched_policy(s):
    for n, p in SCHED_NAMES:
        if n.startswith(s):
            return p
    return None


def to_int(s):
    try:
        return int(s, 0)
    except ValueError:
        return None


def value_class(n, v):
    if n in ('threads', 'cores') and v in ('cores', 'all'):
        return 'keyword'
    if n == 'scheduler' and v not in [nm for nm, _ in SCHED_NAMES]:
        return 'abbrev'
    if n == 'bind':
        return 'keyword'
    if n == 'ignore':
        return 'flag'
    return ''


def monitor(case, o, mach, refs=None):
    """returns list of (signature, text)"""
    hits = []
    src = case['src']
    inv = case['invalid']
    rejected = o['kind'] != 'started'
    # 1. duplicates between PIKA_COMMANDLINE_OPTIONS and the command line
    for n, vals in src.items():
        if 'pcoopt' in vals and 'cmdopt' in vals and rejected and o.get('cls') == 'multiple_occurrences':
            return [('C16:prepend_duplicate:multiple_occurrences',
                     '%s given in PIKA_COMMANDLINE_OPTIONS (%s) and on the command line (%s): start-up terminates with '
                     'multiple_occurrences instead of the command line winning' % (n, vals['pcoopt'], vals['cmdopt']))]
    # 2. unknown pika option
    if case['unknown']:
        if not rejected:
            hits.append(('C16:unknown_option_swallowed', 'unknown option %s was accepted silently (exit status 0)' % case['unknown']))
        return hits
    # 3. invalid value in the deciding source
    if inv:
        if not rejected:
            hits.append(('C16:invalid_accepted:%s:%s' % (inv[0], 'zero' if inv[2] == '0' else 'nan' if not inv[2].isdigit() else 'range'),
                         'invalid value %r for %s (from %s) did not stop start-up' % (inv[2], inv[0], inv[1])))
        return hits
    if rejected and o.get('cls', '').startswith('late') and case['env'].get('PIKA_COMMANDLINE_OPTIONS') and \
            not any(a == '' or any(ch in a for ch in '"\'\\') for a in case['args']):
        return [('C16:prepend_glued_late', 'valid configuration rejected by the late handler (stop() = -1): the last token of '
                 'PIKA_COMMANDLINE_OPTIONS %r is glued to the first command-line argument %r'
                 % (case['env']['PIKA_COMMANDLINE_OPTIONS'], case['args'][:1]))]
    if rejected and o.get('cls') == 'hang' and self_referential(case['env']):
        return [('C16:expand:self_reference_hang', 'start-up does not end (killed after %s s): an environment variable refers to itself '
                 'behind the first character of its value, the ini layer scans the substituted text again and again'
                 % case.get('timeout', 40))]
    if rejected and o.get('cls') == 'expand_crash':
        # no input may end start-up with an uncaught std::out_of_range (was finding C16:expand:colon_out_of_range until the
        # repair of find_next; now every occurrence is a violation)
        if any(':' in x for x in list(case['env'].values()) + case['args']):
            return [('C16:expand:colon_out_of_range', 'the process is terminated by std::out_of_range from basic_string::replace: a colon '
                     'directly behind `${` / `$[` makes find_next(":") compute position -1')]
        return [('C16:expand:out_of_range', 'the process is terminated by std::out_of_range from basic_string::replace during the '
                 'expansion of a `${..}` / `$[..]` placeholder')]
    if rejected:
        return hits      # other rejections are judged by the correspondence (model says which are legitimate)
    L = o['lines']
    cfg = {}
    for kv in L['CFG']['raw'].split(','):
        if ':' in kv:
            k, v = kv.split(':', 1)
            cfg[k] = unhx(v)
    # what the keywords of the worker count stand for in THIS run: taken from the mask settings the runtime reports
    # (those are judged on their own when they are among the generated sources)
    npu, ncore = counts_for(mach, cfg.get('pika.ignore_process_mask') == '1', cfg.get('pika.process_mask') or '')

    def tcount(v):
        return ncore if v == 'cores' else npu if v == 'all' else (int(v) if v.isdigit() else None)

    for n, vals in src.items():
        opt, envn, key, dflt = SETTINGS[n]
        top = max(vals, key=layer_rank)
        exp = vals[top]
        got = cfg.get(key)
        matches = lambda v: v == got           # noqa: E731  (does the runtime's observation equal what source value v means?)
        # what the runtime uses
        if n == 'threads':
            got_used = int(L['WORKERS']['workers'])
            matches = lambda v: tcount(v) == got_used          # noqa: E731
            ok = tcount(exp) == got_used and L['WORKERS'].get('pool_threads') == str(got_used) and got == str(got_used)
            shown = 'workers=%d entry=%s (cores=%d all=%d in the effective mask)' % (got_used, got, ncore, npu)
        elif n == 'scheduler':
            pol = sched_policy(exp)
            matches = lambda v: str(sched_policy(v)) == L['SCHED']['policy']          # noqa: E731
            ok = str(pol) == L['SCHED']['policy'] and got == exp and unhx(L['SCHED'].get('desc', '-')) == SCHED_DESC.get(pol)
            shown = 'policy=%s scheduler=%s entry=%s' % (L['SCHED']['policy'], unhx(L['SCHED'].get('desc', '-')), got)
        elif n == 'small':
            ok = to_int(exp) == int(L['STACKS']['small'])
            shown = 'small=%s' % L['STACKS']['small']
        elif n == 'medium':
            ok = to_int(exp) == int(L['STACKS']['medium'])
            shown = 'medium=%s' % L['STACKS']['medium']
        elif n == 'cores':
            matches = lambda v: got == (str(ncore) if v == 'all' else v)          # noqa: E731
            ok = matches(exp)
            shown = 'entry=%s (all=%d)' % (got, ncore)
        elif n == 'bind':
            masks = L['AFF'].get('masks', '').split(',')
            ok = got == exp and ((exp == 'none') == all(int(m, 16) == 0 for m in masks))
            shown = 'entry=%s masks=%s' % (got, ','.join(masks)[:60])
            if ok and refs is not None and case.get('fam') == 'kw_bind':
                # the placement the live runtime computed must be the one it computes when the deciding value is the
                # only definition (reference runs: environment variable alone, command-line option alone)
                for how in ('env', 'cmdopt'):
                    ref = refs.get((case['mach'], exp, case['bind_threads'], how))
                    if ref is not None and ref != L['AFF'].get('masks'):
                        ok = False
                        shown = 'masks=%s but %s=%s alone gives %s' % (','.join(masks)[:80], 'PIKA_BIND' if how == 'env' else '--pika:bind', exp, ref[:80])
                        matches = lambda v: refs.get((case['mach'], v, case['bind_threads'], 'env')) == L['AFF'].get('masks')          # noqa: E731
        elif n == 'ignore':
            matches = lambda v: got == ('0' if v == '0' else '1')          # noqa: E731
            ok = matches(exp)
            shown = 'entry=%s' % got
        else:
            ok = got == exp
            shown = 'entry=%s' % got
        if not ok:
            # which source won instead?
            winner = [s_ for s_, v in vals.items() if s_ != top and matches(v)]
            # several sources may carry the same value: blame the one the known mechanism would pick
            real_rank = {'cmdopt': 5, 'pcoopt': 5, 'pcoini': 3, 'cmdini': 2, 'env': 1}
            winner.sort(key=lambda s_: -real_rank[s_])
            w = winner[0] if winner else 'other'
            sig = 'C16:precedence:%s:%s_lost_to_%s' % (n, top, w)
            if n in HANDLED and top == 'cmdini' and w == 'pcoini':
                sig = 'C16:prepend_ini_first_wins'
            elif top == 'cmdini' and w == 'pcoopt':
                sig = 'C16:prepend_option_over_cmdline_ini'
            if sig not in KNOWN_SIGS:
                # input class: a value with a code path of its own (keyword, abbreviation, flag) is named in the signature
                ct, cw = value_class(n, exp), (value_class(n, vals[w]) if w != 'other' else '')
                if ct or cw:
                    sig = 'C16:precedence:%s:%s%s_lost_to_%s%s' % (n, ct and ct + '_', top, cw and cw + '_', w)
            hits.append((sig, '%s: sources %s; the highest-precedence source present is %s=%r but the runtime uses %s'
                         % (n, vals, top, exp, shown)))
    # 4. application arguments
    exp_args = []
    term = False
    skip = False
    toks = case['args']
    i = 0
    while i < len(toks):
        t = toks[i]
        if term:
            exp_args.append(t)
        elif t == '--':
            term = True
        elif t.startswith('--pika:'):
            if '=' not in t and t in ('--pika:threads', '--pika:scheduler', '--pika:cores'):
                i += 1
        else:
            exp_args.append(t)
        i += 1
    got_args = [unhx(a) for a in L['ARGV'].get('argv', '').split(',')[1:]]
    if got_args != exp_args:
        bad = [a for a in exp_args if a == '' or any(c in a for c in '"\'\\')]
        dol = [a for a in exp_args if dollar_word(a)] or [a for a in exp_args if '${' in a or '$[' in a]
        if dol and not bad:
            hits.append(('C16:app_args:dollar_expanded',
                         'application arguments %r arrive as %r (argument %r is expanded by the ini layer when the rebuilt '
                         'command line is read back from pika.reconstructed_cmd_line)' % (exp_args, got_args, dol[0])))
        elif bad:
            hits.append(('C16:app_args:quote_backslash_or_empty',
                         'application arguments %r arrive as %r (argument %r is re-quoted and split again)' % (exp_args, got_args, bad[0])))
        else:
            hits.append(('C16:app_args:changed', 'application arguments %r arrive as %r' % (exp_args, got_args)))
    return hits


# ------------------------------------------------------------------ the check
def run(ctx):
    r = Result()
    r.rule = ('PROC: cases are generated from VERIF_SEED: 1-3 settings out of %d, each given through a random subset of '
              '{environment variable, PIKA_COMMANDLINE_OPTIONS option / --pika:ini, command-line --pika:ini / option} with '
              'pairwise distinct values, optionally one invalid value in the deciding source, unknown options, flags, '
              'application words (some with blanks/quotes), shuffled order, plus a permuted twin of every 4th case; in addition '
              'the values with a code path of their own (worker count `cores`/`all`, pika.cores `all`, binding keywords, scheduler '
              'names abbreviated to a prefix, the boolean ignore-process-mask flag) are placed in source A against an ordinary value '
              'in source B for every ordered pair (A, B) of the five sources, on three machine variants (real topology, real '
              'topology under taskset, HWLOC_SYNTHETIC with 2 PUs per core), with explicit process masks / ignore-process-mask; one real '
              'process per case; non-trivial = at least two sources present for a setting, or an invalid/unknown input; '
              'distinct = distinct (environment, argv)') % len(SETTINGS)
    ctx.build_pika()
    drv = build_driver(ctx)
    h = ctx.build_harness('c16_cfg', 'c16_cfg.cpp')
    # machine facts (inputs of the model): the real topology, the real topology with a smaller inherited process mask
    # (taskset), and a synthetic topology with two PUs per core, where `cores`, `all` and numbers are told apart
    machs = {}
    mach, why = probe_machine(h, 'real', {}, None)
    if not mach:
        r.hits.append(Hit('tie', 'C16:harness', 'harness does not start the runtime: %s' % why, {'harness': 'c16_cfg'}))
        return r
    machs['real'] = mach
    cpus = sorted(os.sched_getaffinity(0))
    variants = [('syn', {'HWLOC_SYNTHETIC': SYNTHETIC}, None)]
    if shutil.which('taskset') and len(cpus) >= 4:
        variants.append(('sub', {}, ','.join(str(c_) for c_ in cpus[:max(2, len(cpus) // 4)])))
    for name, menv, ts in variants:
        mv_, why = probe_machine(h, name, menv, ts)
        if mv_:
            machs[name] = mv_
        else:
            r.notes.append('machine variant %s not usable here: %s' % (name, why[-200:]))
    rng = random.Random(ctx.seed * 7919 + 16)
    cases = []
    if ctx.replay:
        rp = json.load(open(ctx.replay))
        c = rp.get('replay', {}).get('case')
        if c and c.get('mach', 'real') in machs:
            c['id'] = 0
            c.setdefault('mach', 'real')
            c.setdefault('taskset', machs[c['mach']]['taskset'])
            c.setdefault('fam', 'replay')
            cases = [c]
    if not cases:
        n = 260 if ctx.tier == 'quick' else 4000
        # fixed witnesses first (replayed on every run): F11, ini variant, quoting, dollar words, E2
        fixed = [
            {'env': {'PIKA_COMMANDLINE_OPTIONS': '--pika:threads=2'}, 'args': ['--pika:threads=3'],
             'src': {'threads': {'pcoopt': '2', 'cmdopt': '3'}}},
            {'env': {'PIKA_COMMANDLINE_OPTIONS': '--pika:ini=pika.os_threads=2'}, 'args': ['--pika:ini=pika.os_threads=3'],
             'src': {'threads': {'pcoini': '2', 'cmdini': '3'}}},
            {'env': {'PIKA_COMMANDLINE_OPTIONS': '--pika:threads=2'}, 'args': ['--pika:ini=pika.os_threads=3'],
             'src': {'threads': {'pcoopt': '2', 'cmdini': '3'}}},
            {'env': {'PIKA_THREADS': '5'}, 'args': ['--pika:threads=3'], 'src': {'threads': {'env': '5', 'cmdopt': '3'}}},
            {'env': {}, 'args': ['a"b', 'x'], 'src': {}},
            {'env': {}, 'args': ['a\\b', 'x'], 'src': {}},
            {'env': {}, 'args': ["a'b", 'x'], 'src': {}},
            {'env': {}, 'args': ['', 'x'], 'src': {}},
            # C16:app_args:dollar_expanded (C16_app_args_dollar_refuted): environment variable / configuration entry
            # substituted into an application argument
            {'env': {'HOME': '/c16home'}, 'args': ['${HOME}', 'x'], 'src': {}},
            {'env': {}, 'args': ['$[pika.os_threads]', '--pika:threads=3'], 'src': {'threads': {'cmdopt': '3'}}},
            {'env': {'HOME': '/a b'}, 'args': ['${HOME}', 'x'], 'src': {}},
            {'env': {}, 'args': ['a${C16_UNSET:dflt}b', '$[pika.nosuch]'], 'src': {}},
            {'env': {}, 'args': ['a$b', '$', 'x$'], 'src': {}},
            {'env': {}, 'args': ['--pika:bogus=1'], 'src': {}, 'unknown': '--pika:bogus=1'},
            {'env': {'PIKA_NUMA_SENSITIVE': '2'}, 'args': ['x', '--pika:numa-sensitive'], 'src': {'numa': {'env': '2', 'cmdopt': '0'}}},
            {'env': {}, 'args': ['--pika:threads=0'], 'src': {'threads': {'cmdopt': '0'}}, 'invalid': ('threads', 'cmdopt', '0')},
            {'env': {}, 'args': ['--pika:threads=abc'], 'src': {'threads': {'cmdopt': 'abc'}}, 'invalid': ('threads', 'cmdopt', 'abc')},
        ]
        # witnesses of the two recorded defects that had none: PIKA_CORES is dead (number and keyword), the glued last
        # token of PIKA_COMMANDLINE_OPTIONS (C16_prepend_glued_refuted)
        fixed += [
            {'env': {'PIKA_CORES': '2'}, 'args': ['--pika:threads=1'], 'src': {'cores': {'env': '2'}}},
            {'env': {'PIKA_CORES': 'all'}, 'args': ['--pika:threads=1'], 'src': {'cores': {'env': 'all'}}},
            {'env': {'PIKA_COMMANDLINE_OPTIONS': '--pika:numa-sensitive=2'}, 'args': ['--pika:threads=2'], 'src': {}},
        ]
        if 'syn' in machs:
            # the keyword Examples of Properties_C16.v (ex_kw_cmdline_over_env, ex_kw_ini_between, ex_kw_effective_mask) on the
            # machine they are stated for (M8 = 2 PUs per core), replayed on the real code on every run
            fixed += [
                {'mach': 'syn', 'env': {'PIKA_THREADS': '3'}, 'args': ['--pika:threads=cores'], 'src': {'threads': {'env': '3', 'cmdopt': 'cores'}}},
                {'mach': 'syn', 'env': {'PIKA_THREADS': '3'}, 'args': ['--pika:threads=all'], 'src': {'threads': {'env': '3', 'cmdopt': 'all'}}},
                {'mach': 'syn', 'env': {'PIKA_THREADS': 'all'}, 'args': ['--pika:threads=3'], 'src': {'threads': {'env': 'all', 'cmdopt': '3'}}},
                {'mach': 'syn', 'env': {'PIKA_THREADS': '3'}, 'args': ['--pika:ini=pika.os_threads=all'], 'src': {'threads': {'env': '3', 'cmdini': 'all'}}},
                {'mach': 'syn', 'env': {'PIKA_THREADS': 'all'}, 'args': ['--pika:ini=pika.os_threads=cores'], 'src': {'threads': {'env': 'all', 'cmdini': 'cores'}}},
                {'mach': 'syn', 'env': {'PIKA_COMMANDLINE_OPTIONS': '--pika:threads=cores'}, 'args': ['--pika:ini=pika.os_threads=2', 'x'],
                 'src': {'threads': {'pcoopt': 'cores', 'cmdini': '2'}}},
                {'mach': 'syn', 'env': {}, 'args': ['--pika:process-mask=0x7', '--pika:threads=cores'],
                 'src': {'threads': {'cmdopt': 'cores'}, 'mask': {'cmdopt': '0x7'}}},
                {'mach': 'syn', 'env': {}, 'args': ['--pika:process-mask=0x7', '--pika:threads=all'],
                 'src': {'threads': {'cmdopt': 'all'}, 'mask': {'cmdopt': '0x7'}}},
                {'mach': 'syn', 'env': {'PIKA_PROCESS_MASK': '0x3'}, 'args': [], 'src': {'mask': {'env': '0x3'}}},
                {'mach': 'syn', 'env': {'PIKA_PROCESS_MASK': '0x3'}, 'args': ['--pika:ignore-process-mask', '--pika:threads=all', '--pika:bind=none'],
                 'src': {'threads': {'cmdopt': 'all'}, 'mask': {'env': '0x3'}, 'ignore': {'cmdopt': '1'}, 'bind': {'cmdopt': 'none'}}},
            ]
        for i, c in enumerate(fixed):
            c.setdefault('invalid', None)
            c.setdefault('unknown', None)
            c.setdefault('mach', 'real')
            c['env'] = dict(c['env'], **machs[c['mach']]['env'])
            c.update({'id': i, 'items': list(c['args']), 'tail': [], 'nasty': False, 'taskset': machs[c['mach']]['taskset'], 'fam': 'fixed'})
            cases.append(c)
        # values with a code path of their own, in every source, above and below ordinary values
        kws = kw_cases(random.Random(ctx.seed * 104729 + 1601), machs, len(cases), ctx.tier == 'quick')
        cases.extend(kws)
        n += len(kws)
        # environment values that contain `$` (substituted text is scanned again; looping inputs; colon behind `${` / `$[`)
        dls = dollar_env_cases(random.Random(ctx.seed * 15485863 + 1611), machs['real'], len(cases), ctx.tier == 'quick')
        cases.extend(dls)
        n += len(dls)
        while len(cases) < n:
            c = make_case(rng, mach, len(cases))
            cases.append(c)
            if len(cases) % 4 == 0 and len(cases) < n:
                cases.append(permuted(rng, c, len(cases)))
    # model
    ins = [in_line(c, machs[c['mach']]) for c in cases]
    rc2, mout = sh([drv], input='\n'.join(ins) + '\n', timeout=600)
    mouts = [x for x in mout.split('\n') if x.startswith('OUT ')]
    if rc2 != 0 or len(mouts) != len(cases):
        r.hits.append(Hit('tie', 'C16:driver', 'model driver failed rc=%d, %d/%d lines: %s' % (rc2, len(mouts), len(cases), mout[-400:]), {}))
    # implementation, in parallel
    with ThreadPoolExecutor(max_workers=12) as ex:
        obs = list(ex.map(lambda c: classify(*run_real(h, c)), cases))
    outs = [out_line(c, o) for c, o in zip(cases, obs)]
    # reference runs for the binding keywords: the value alone, through the environment and through the command line
    refs = {}
    want = sorted({(c['mach'], v, c['bind_threads'], how) for c in cases if c.get('fam') == 'kw_bind'
                   for v in c['src']['bind'].values() for how in ('env', 'cmdopt')})

    def ref_run(k):
        mname, v, nthreads, how = k
        rc_ = {'env': dict(machs[mname]['env']), 'args': ['--pika:threads=%d' % nthreads], 'taskset': machs[mname]['taskset']}
        if how == 'env':
            rc_['env']['PIKA_BIND'] = v
        else:
            rc_['args'].append('--pika:bind=' + v)
        o_ = classify(*run_real(h, rc_))
        return o_['lines'].get('AFF', {}).get('masks') if o_['kind'] == 'started' else None

    with ThreadPoolExecutor(max_workers=12) as ex:
        for k, v in zip(want, ex.map(ref_run, want)):
            refs[k] = v
    if want:
        r.count('bind_reference_runs', len(want))
    mmap = {x.split(' ')[2]: x for x in mouts}
    # unsupported cases are outside the model: not compared, but still monitored
    cmp_impl, cmp_model = [], []
    for c, o, ol in zip(cases, obs, outs):
        ml = mmap.get(str(c['id']), '')
        if ml.endswith(' unsupported'):
            r.count('model_unsupported')
            continue
        if ml.endswith('rejected bad_mask'):
            ml = ml.replace('bad_mask', 'bad_cast')
        if ml.endswith('rejected expand_loop'):
            ml = ml.replace('expand_loop', 'hang')          # out of fuel in the model = the real start-up never ends
        cmp_impl.append(ol)
        cmp_model.append(ml)
    diffs, ncases = diff_lines(ctx, cmp_impl, cmp_model)
    r.evaluations += len(cases)
    r.traces += ncases
    byid = {str(c['id']): c for c in cases}
    for c, o in zip(cases, obs):
        srcs = sum(len(v) for v in c['src'].values())
        if any(len(v) >= 2 for v in c['src'].values()) or c['invalid'] or c['unknown']:
            r.nontrivial(in_line(c, machs[c['mach']]))
        r.count('outcome=' + (o['kind'] if o['kind'] == 'started' else 'rejected:' + o['cls'].split(':')[0]))
        r.count('sources_present=%d' % min(srcs, 6))
        for n in c['src']:
            r.count('setting=' + n)
        r.count('family=' + c.get('fam', '?'))
        r.count('machine=' + c['mach'])
        for n, vals in c['src'].items():
            if len(vals) >= 2:
                top_ = max(vals, key=layer_rank)
                for s_, v in vals.items():
                    cl = value_class(n, v)
                    if cl:
                        r.count('special=%s:%s:%s' % (n, cl, 'deciding' if s_ == top_ else 'below'))
        predicted = mmap.get(str(c['id']), '').endswith('rejected expand_loop')
        if (o.get('cls') in ('hang',) and not predicted) or (o['kind'] == 'rejected' and o['cls'].startswith('other:')):
            r.hits.append(Hit('corr', 'C16:unexpected_termination', 'case %d: process ended with %s rc=%s'
                              % (c['id'], o.get('cls'), o['rc']), {'harness': 'c16_cfg', 'case': c}))
        for sig, text in monitor(c, o, machs[c['mach']], refs):
            r.hits.append(Hit('monitor', sig, text + ' [env %s argv %s]' % (c['env'], c['args']),
                              {'harness': 'c16_cfg', 'case': c, 'observed': out_line(c, o)}))
    # permutation twins must give the same observation
    omap = {c['id']: ol for c, ol in zip(cases, outs)}
    amap = {c['id']: o['lines'].get('AFF', {}).get('masks') for c, o in zip(cases, obs)}
    for c in cases:
        if 'perm_of' in c:
            a, b = omap[c['perm_of']].split(' ', 3)[3], omap[c['id']].split(' ', 3)[3]
            if a != b or amap[c['perm_of']] != amap[c['id']]:
                r.hits.append(Hit('monitor', 'C16:order_dependent', 'permuting the options changes the result: %r -> [%s] but %r -> [%s]'
                                  % (byid[str(c['perm_of'])]['args'], a[:200], c['args'], b[:200]),
                                  {'harness': 'c16_cfg', 'case': c, 'twin': byid[str(c['perm_of'])]}))
            r.count('permutation_pairs')
    for (k, a, b) in diffs[:20]:
        r.hits.append(Hit('corr', 'C16:correspondence', 'implementation and model differ on case %s: impl [%s] model [%s] (env %s argv %s)'
                          % (k[1], a[:300], b[:300], byid[k[1]]['env'], byid[k[1]]['args']),
                          {'harness': 'c16_cfg', 'case': byid[k[1]], 'impl': a, 'model': b}))
    for c, ol in list(zip(cases, outs))[3:6]:
        r.sample({'env': c['env'], 'argv': c['args'], 'observed': ol[:300]})
    r.extra['machine'] = {nm: {k: mv_[k] for k in ('pus', 'cores', 'maskcount', 'maskcores', 'taskset')} for nm, mv_ in machs.items()}
    return r
