# C16 — configuration precedence.  PROC tie: one real process per case (harness/c16_cfg.cpp starts
# the runtime with a generated environment + command line and prints what the runtime uses);
# the extracted model (Model/Config.v: run) gets the same inputs; OUT lines are compared.
# Monitors independent of the model evaluate the property itself on the implementation's output.
import json
import os
import random
import re
import subprocess
from concurrent.futures import ThreadPoolExecutor

from vlib import BUILD, COQ, V, Hit, Result, TieError, diff_lines, sh

ASSUMPTIONS = [
    'machine facts (number of PUs/cores, PUs in the process mask) are inputs of the model, read from the harness',
    'only the documented fragment of the command-line syntax is generated: --name=value, --name value for string '
    'options, flags, `--`, positional words; @file, short options, --pika:config/app-config/options-file, '
    'allow_unknown=1 and explicit --pika:bind thread lists are outside the model (outcome `unsupported`)',
    'option / ini / environment VALUES containing `$` (nested placeholders, $[key] references) are not generated; ini.cpp '
    'expansion is modelled for ${NAME}, ${NAME:default} including nesting and escaped delimiters, and for $[key], '
    '$[key:default] in the one entry that carries user text (pika.reconstructed_cmd_line: application arguments with `$` '
    'words ARE generated and replayed); substituted text is not scanned again by the model',
    'per-worker affinity masks are not predicted by the model (C15); they are checked for invariance under '
    'option permutation and for bind=none',
]

KEYS = ['pika.os_threads', 'pika.cores', 'pika.scheduler', 'pika.bind', 'pika.affinity', 'pika.pu_step',
        'pika.pu_offset', 'pika.numa_sensitive', 'pika.process_mask', 'pika.ignore_process_mask',
        'pika.stacks.small_size', 'pika.stacks.medium_size', 'pika.max_busy_loop_count',
        'pika.shutdown_check_count', 'pika.thread_queue.max_thread_count']

# the monitor's own knowledge of the documented interface (NOT taken from the translator/model)
SCHED_NAMES = [('local', 0), ('local-priority-fifo', 1), ('local-priority-lifo', 2), ('static', 3),
               ('static-priority', 4), ('abp-priority-fifo', 5), ('abp-priority-lifo', 6), ('shared-priority', 7)]
SETTINGS = {
    # name: (option or None, env var, ini key, default)
    'threads': ('--pika:threads', 'PIKA_THREADS', 'pika.os_threads', 'cores'),
    'cores': ('--pika:cores', 'PIKA_CORES', 'pika.cores', 'all'),
    'scheduler': ('--pika:scheduler', 'PIKA_SCHEDULER', 'pika.scheduler', 'local-priority-fifo'),
    'bind': ('--pika:bind', 'PIKA_BIND', 'pika.bind', 'balanced'),
    'numa': ('--pika:numa-sensitive', 'PIKA_NUMA_SENSITIVE', 'pika.numa_sensitive', '0'),
    'mask': ('--pika:process-mask', 'PIKA_PROCESS_MASK', 'pika.process_mask', ''),
    'small': (None, 'PIKA_SMALL_STACK_SIZE', 'pika.stacks.small_size', None),
    'medium': (None, 'PIKA_MEDIUM_STACK_SIZE', 'pika.stacks.medium_size', None),
    'busy': (None, 'PIKA_MAX_BUSY_LOOP_COUNT', 'pika.max_busy_loop_count', '2000'),
    'shut': (None, 'PIKA_SHUTDOWN_CHECK_COUNT', 'pika.shutdown_check_count', '10'),
    'qmax': (None, 'PIKA_THREAD_QUEUE_MAX_THREAD_COUNT', 'pika.thread_queue.max_thread_count', '1000'),
}
HANDLED = {'threads', 'cores', 'scheduler', 'bind', 'numa', 'mask'}   # go through handle_* (manage_config)


DOLLAR_WORDS = ['${C16_VAR}', 'a${C16_UNSET:dflt}b', 'p${C16_VAR}q', '$[pika.os_threads]', 'n=$[pika.scheduler]',
                '$[pika.nosuch.key:zz]', 'a$b', '$', 'x$', '${C16_VAR', '$[pika.os_threads']


def dollar_word(a):
    """an argument containing a complete ${..} or $[..] word"""
    return re.search(r'\$\{[^}]*\}|\$\[[^\]]*\]', a) is not None


def hx(s):
    return s.encode().hex() if s else '-'


def unhx(h):
    return '' if h == '-' else bytes.fromhex(h).decode(errors='replace')


def build_driver(ctx):
    """as ctx.build_model, but the extracted module defines a type `string` (Coq strings) that would
    shadow OCaml's in ocaml/conv.ml.in: re-bind the name after `open M`"""
    d = '%s/ocaml/c16' % BUILD
    os.makedirs(d, exist_ok=True)
    rc, o = sh(['timeout', '300', 'coqc', '-Q', COQ, 'Pika', '-o', d + '/ExtractC16.vo', COQ + '/Extract/ExtractC16.v'], cwd=d)
    ctx.log('extract C16', rc, o[-2000:])
    if rc != 0:
        raise TieError('extraction of ExtractC16.v failed (model does not compile): ' + o[-2000:])
    with open(d + '/drv.ml', 'w') as f:
        f.write('open M\ntype cstring = M.string\ntype string = Stdlib.String.t\n')
        f.write(open(V + '/ocaml/conv.ml.in').read())
        f.write(open(V + '/ocaml/drv_c16.ml').read())
    rc, o = sh(['ocamlfind', 'ocamlopt', '-w', '-a', '-O3', 'm.mli', 'm.ml', 'drv.ml', '-o', 'drv'], cwd=d, timeout=600)
    if rc != 0:
        raise TieError('OCaml driver drv_c16.ml does not build: ' + o[-2000:])
    return d + '/drv'


# ------------------------------------------------------------------ case generation
def gen_value(rng, name, mach, invalid=False, symbolic=True):
    pus = mach['pus']
    if name == 'threads':
        if invalid:
            return rng.choice(['0', 'abc', '3x', str(pus + 1)])
        return rng.choice([str(rng.randint(1, min(pus, 6))), str(rng.randint(1, min(pus, 6))), str(pus)] + (['cores', 'all'] if symbolic else []))
    if name == 'cores':
        return rng.choice([str(rng.randint(1, min(pus, 4)))] + (['all'] if symbolic else []))
    if name == 'scheduler':
        if invalid:
            return rng.choice(['foo', 'local-priority-x'])
        return rng.choice(['local', 'static', 'local-priority-fifo', 'local-priority-lifo', 'static-priority',
                           'shared-priority', 'abp-priority-fifo', 'loc', 'local-p', 'stat'])
    if name == 'bind':
        return rng.choice(['none', 'compact', 'scatter', 'balanced'])
    if name == 'numa':
        if invalid:
            return rng.choice(['3', '7'])
        return rng.choice(['0', '1', '2'])
    if name == 'mask':
        bits = rng.sample(mach['pubits'], rng.randint(1, min(4, len(mach['pubits']))))
        return hex(sum(1 << b for b in bits))
    if name in ('small', 'medium'):
        return rng.choice(['0x10000', '0x18000', '0x20000', '0x28000', '98304', '0x30000'])
    return str(rng.randint(1, 5000))


def make_case(rng, mach, idx):
    names = list(SETTINGS)
    if mach['pus'] != mach['cores'] or len(mach['pubits']) < 2:
        names.remove('mask')
    k = rng.choice([1, 1, 2, 2, 3])
    chosen = rng.sample(names, k)
    if 'cores' in chosen and 'threads' in chosen:
        chosen.remove('threads')
    if 'mask' in chosen and 'threads' not in chosen and rng.random() < 0.5:
        pass
    env, pco, cmd = {}, [], []
    src = {}
    invalid = None
    for n in chosen:
        opt, envn, key, _ = SETTINGS[n]
        avail = ['env', 'pcoini', 'cmdini'] + (['pcoopt', 'cmdopt'] if opt else [])
        mode = rng.random()
        if mode < 0.25:
            present = [rng.choice(avail)]
        elif mode < 0.9:
            present = [s for s in avail if rng.random() < 0.5] or [rng.choice(avail)]
        else:
            present = list(avail)
        if n == 'numa' and len(present) > 3:
            present = rng.sample(present, 3)
        if n == 'bind' and 'pcoopt' in present and 'cmdopt' in present:
            present.remove('pcoopt')
        vals = {}
        used = set()
        for s in present:
            for _ in range(20):
                v = gen_value(rng, n, mach, symbolic=(len(present) == 1))
                if v not in used:
                    break
            used.add(v)
            vals[s] = v
        src[n] = vals
    # one invalid injection (about 1 case in 6): replaces the value of the highest-precedence source
    if rng.random() < 0.17:
        cands = [n for n in chosen if n in ('threads', 'scheduler', 'numa')]
        if cands:
            n = rng.choice(cands)
            order = ['cmdopt', 'pcoopt', 'cmdini', 'pcoini', 'env']
            top = [s for s in order if s in src[n]][0]
            # only where the deciding source is not itself subject to a known prepend inversion
            if not (n == 'numa' and top not in ('cmdopt', 'pcoopt')) and \
                    not (top == 'cmdini' and ('pcoini' in src[n] or 'pcoopt' in src[n])):
                src[n][top] = gen_value(rng, n, mach, invalid=True)
                if src[n][top] == str(mach['pus'] + 1) and 'bind' in chosen:
                    src[n][top] = '0'      # oversubscription is legitimate with bind=none
                invalid = (n, top, src[n][top])
    for n in chosen:
        opt, envn, key, _ = SETTINGS[n]
        for s, v in src[n].items():
            if s == 'env':
                env[envn] = v
            elif s == 'pcoini':
                pco.append('--pika:ini=%s=%s' % (key, v))
            elif s == 'cmdini':
                cmd.append('--pika:ini=%s=%s' % (key, v))
            elif s == 'pcoopt':
                pco.append('%s=%s' % (opt, v))
            elif s == 'cmdopt':
                if n in ('threads', 'scheduler', 'cores') and rng.random() < 0.15:
                    cmd.append([opt, v])         # "--name value" form: two tokens that stay together
                else:
                    cmd.append('%s=%s' % (opt, v))
    if 'cores' in chosen:
        cmd.append('--pika:threads=1')
    extra = rng.random()
    unknown = None
    if extra < 0.06:
        unknown = rng.choice(['--pika:bogus=1', '--pika:thraeds=2', '--pika:nosuch', '--pika:ini-file=x'])
        cmd.append(unknown)
    elif extra < 0.10:
        cmd.append('--pika:ignore-process-mask')
    elif extra < 0.13:
        env['PIKA_IGNORE_PROCESS_MASK'] = rng.choice(['0', '1'])
    elif extra < 0.19 and 'bind' not in chosen:
        # pu-step / pu-offset / affinity: rejected together with the default bind, accepted with an empty one
        cmd.append(rng.choice(['--pika:pu-step=2', '--pika:pu-offset=1', '--pika:affinity=core']))
        # (an out-of-range thread count is only an *invalid* value while a binding mode is in force:
        # with an empty bind pika accepts it — that is C15's finding — so never combine the two)
        if rng.random() < 0.5 and not (invalid and invalid[0] == 'threads'):
            env['PIKA_BIND'] = ''
    elif extra < 0.21 and 'scheduler' not in chosen:
        cmd.append('--pika:scheduler=local-priority')
        cmd.append('--pika:high-priority-threads=1')
    elif extra < 0.23:
        cmd.append('--pika:ini=pika.bogus_key=1')
    elif extra < 0.25:
        cmd.append('--pika:ini=pika.bogus_key!=1')
    # application arguments
    words = ['x', 'input.dat', 'a=b', 'n:3', '42', 'a b', 'out/', 'k,v', 'UPPER', 'with\ttab']
    nasty = ['a"b', "it's", 'a\\b', '']
    apps = []
    for _ in range(rng.choice([0, 0, 1, 2, 3])):
        apps.append(rng.choice(words))
    nasty_used = False
    if rng.random() < 0.05:
        apps.insert(rng.randint(0, len(apps)), rng.choice(nasty))
        nasty_used = True
    elif rng.random() < 0.06:
        # words the ini layer expands when init_helper reads the rebuilt command line back (C16:app_args:dollar_expanded)
        # and words with a dollar sign that it leaves alone
        apps.insert(rng.randint(0, len(apps)), rng.choice(DOLLAR_WORDS))
        env['C16_VAR'] = rng.choice(['v1', 'two words'])
    items = cmd + apps
    rng.shuffle(items)
    # keep the relative order of the application words (they must arrive in that order)
    it_apps = iter(apps)
    items = [next(it_apps) if (not isinstance(x, list) and x in apps and not str(x).startswith('--')) else x for x in items]
    tail = []
    if rng.random() < 0.08:
        tail = ['--'] + [rng.choice(['-z', '--pika:threads=1', 'w', '--flag'])]
    args = []
    for x in items:
        args.extend(x if isinstance(x, list) else [x])
    args += tail
    rng.shuffle(pco)
    if pco:
        env['PIKA_COMMANDLINE_OPTIONS'] = ' '.join(pco)
    return {'id': idx, 'env': env, 'args': args, 'src': src, 'invalid': invalid, 'unknown': unknown,
            'apps': [a for a in args if False], 'items': items, 'tail': tail, 'nasty': nasty_used}


def permuted(rng, case, idx):
    """same sources, options on the command line in another order (application words keep their order)"""
    items = list(case['items'])
    opts = [x for x in items if isinstance(x, list) or str(x).startswith('--')]
    rng.shuffle(opts)
    it = iter(opts)
    items2 = [next(it) if (isinstance(x, list) or str(x).startswith('--')) else x for x in items]
    args = []
    for x in items2:
        args.extend(x if isinstance(x, list) else [x])
    c = dict(case)
    c.update({'id': idx, 'args': args + case['tail'], 'items': items2, 'perm_of': case['id']})
    return c


def in_line(case, mach):
    env = ','.join('%s:%s' % (k, hx(v)) for k, v in sorted(case['env'].items())) or '-'
    return 'IN CFG %d keys=%s env=%s mach=%d,%d,%d,%d arg0=%s args=%s' % (
        case['id'], ','.join(KEYS), env, mach['pus'], mach['cores'], mach['maskcount'], mach['maskcount'],
        hx(mach['arg0']), ','.join(hx(a) for a in case['args']) or '-')


# ------------------------------------------------------------------ running the real thing
CLEAN_ENV = {k: v for k, v in os.environ.items() if not k.startswith('PIKA_') and not k.startswith('HWLOC_')}


def run_real(binary, case):
    env = dict(CLEAN_ENV)
    env.update(case['env'])
    env['C16_KEYS'] = ','.join(KEYS)
    try:
        p = subprocess.run([binary] + case['args'], env=env, stdout=subprocess.PIPE, stderr=subprocess.PIPE,
                           timeout=25)
        return p.returncode, p.stdout.decode(errors='replace'), p.stderr.decode(errors='replace')
    except subprocess.TimeoutExpired as e:
        return 124, (e.stdout or b'').decode(errors='replace'), (e.stderr or b'').decode(errors='replace') + '\n[timeout]'


def classify(rc, out, err):
    """observation of one run -> dict"""
    o = {'rc': rc, 'lines': {}}
    for ln in out.split('\n'):
        if ln.startswith('C16 '):
            p = ln.split(' ')
            o['lines'][p[1]] = dict(x.split('=', 1) for x in p[2:] if '=' in x) if p[1] != 'CFG' else {'raw': p[2] if len(p) > 2 else '-'}
    started = 'ARGV' in o['lines'] and 'WORKERS' in o['lines'] and 'STOP' in o['lines']
    if started and o['lines']['STOP'].get('rc') == '0' and rc == 0:
        o['kind'] = 'started'
        return o
    o['kind'] = 'rejected'
    msg = err + out
    if rc == 124:
        o['cls'] = 'hang'
    elif 'STOP' in o['lines'] and 'ARGV' not in o['lines']:
        o['cls'] = 'late_unknown' if 'unrecognised option' in msg else 'late_split'
    elif 'cannot be specified more than once' in msg:
        o['cls'] = 'multiple_occurrences'
    elif 'bad lexical cast' in msg:
        o['cls'] = 'bad_cast'
    elif 'Attempt to initialize unknown entry' in msg:
        o['cls'] = 'ini_unknown'
    elif 'larger than number of' in msg:
        o['cls'] = 'resources'
    elif 'command_line_error' in msg:
        o['cls'] = 'invalid'
    elif re.search(r"is invalid|is missing|does not take any arguments|should follow immediately|is ambiguous", msg):
        o['cls'] = 'syntax'
    else:
        o['cls'] = 'other:' + (re.findall(r'what\(\):\s*(.*)', msg) or [msg[-120:].replace('\n', ' ')])[0][:80].replace(' ', '_')
    return o


def out_line(case, o):
    if o['kind'] == 'started':
        L = o['lines']
        argv = L['ARGV'].get('argv', '').split(',')[1:]
        cfg = L['CFG']['raw']
        cores = '?'
        for kv in cfg.split(','):
            if kv.startswith('pika.cores:'):
                cores = unhx(kv.split(':', 1)[1])
        return 'OUT CFG %d started threads=%s cores=%s policy=%s stacks=%s,%s,%s,%s argv=%s cfg=%s' % (
            case['id'], L['WORKERS']['workers'], cores, L['SCHED']['policy'], L['STACKS']['small'], L['STACKS']['medium'],
            L['STACKS']['large'], L['STACKS']['huge'], ','.join(argv) or '-', cfg)
    return 'OUT CFG %d rejected %s' % (case['id'], o['cls'])


# ------------------------------------------------------------------ monitors (independent of the model)
def layer_rank(s):
    # the statement: command line > environment (variable or PIKA_COMMANDLINE_OPTIONS entry) > default;
    # inside one layer an explicit option is more specific than an ini definition
    return {'cmdopt': 6, 'cmdini': 5, 'pcoopt': 4, 'pcoini': 3, 'env': 2}[s]


def sched_policy(s):
    for n, p in SCHED_NAMES:
        if n.startswith(s):
            return p
    return None


def to_int(s):
    try:
        return int(s, 0)
    except ValueError:
        return None


def monitor(case, o, mach):
    """returns list of (signature, text)"""
    hits = []
    src = case['src']
    inv = case['invalid']
    rejected = o['kind'] != 'started'
    # 1. duplicates between PIKA_COMMANDLINE_OPTIONS and the command line
    for n, vals in src.items():
        if 'pcoopt' in vals and 'cmdopt' in vals and rejected and o.get('cls') == 'multiple_occurrences':
            return [('C16:prepend_duplicate:multiple_occurrences',
                     '%s given in PIKA_COMMANDLINE_OPTIONS (%s) and on the command line (%s): start-up terminates with '
                     'multiple_occurrences instead of the command line winning' % (n, vals['pcoopt'], vals['cmdopt']))]
    # 2. unknown pika option
    if case['unknown']:
        if not rejected:
            hits.append(('C16:unknown_option_swallowed', 'unknown option %s was accepted silently (exit status 0)' % case['unknown']))
        return hits
    # 3. invalid value in the deciding source
    if inv:
        if not rejected:
            hits.append(('C16:invalid_accepted:%s:%s' % (inv[0], 'zero' if inv[2] == '0' else 'nan' if not inv[2].isdigit() else 'range'),
                         'invalid value %r for %s (from %s) did not stop start-up' % (inv[2], inv[0], inv[1])))
        return hits
    if rejected and o.get('cls', '').startswith('late') and case['env'].get('PIKA_COMMANDLINE_OPTIONS') and \
            not any(a == '' or any(ch in a for ch in '"\'\\') for a in case['args']):
        return [('C16:prepend_glued_late', 'valid configuration rejected by the late handler (stop() = -1): the last token of '
                 'PIKA_COMMANDLINE_OPTIONS %r is glued to the first command-line argument %r'
                 % (case['env']['PIKA_COMMANDLINE_OPTIONS'], case['args'][:1]))]
    if rejected:
        return hits      # other rejections are judged by the correspondence (model says which are legitimate)
    L = o['lines']
    cfg = {}
    for kv in L['CFG']['raw'].split(','):
        if ':' in kv:
            k, v = kv.split(':', 1)
            cfg[k] = unhx(v)
    ignore = cfg.get('pika.ignore_process_mask') == '1'
    for n, vals in src.items():
        opt, envn, key, dflt = SETTINGS[n]
        top = max(vals, key=layer_rank)
        exp = vals[top]
        got = cfg.get(key)
        # what the runtime uses
        if n == 'threads':
            want = None
            if exp.isdigit():
                want = int(exp)
            got_used = int(L['WORKERS']['workers'])
            ok = (want is None) or got_used == want
            if exp in ('cores', 'all'):
                ok = got_used >= 1
            shown = 'workers=%d' % got_used
        elif n == 'scheduler':
            ok = str(sched_policy(exp)) == L['SCHED']['policy'] and got == exp
            shown = 'policy=%s entry=%s' % (L['SCHED']['policy'], got)
        elif n == 'small':
            ok = to_int(exp) == int(L['STACKS']['small'])
            shown = 'small=%s' % L['STACKS']['small']
        elif n == 'medium':
            ok = to_int(exp) == int(L['STACKS']['medium'])
            shown = 'medium=%s' % L['STACKS']['medium']
        elif n == 'cores':
            ok = (got == exp) if exp != 'all' else (got or '').isdigit()
            shown = 'entry=%s' % got
        elif n == 'bind':
            masks = L['AFF'].get('masks', '').split(',')
            ok = got == exp and ((exp == 'none') == all(int(m, 16) == 0 for m in masks))
            shown = 'entry=%s masks=%s' % (got, ','.join(masks)[:60])
        else:
            ok = got == exp
            shown = 'entry=%s' % got
        if not ok:
            # which source won instead?
            winner = [s for s, v in vals.items() if (v == got or (n == 'threads' and v == L['WORKERS']['workers']))]
            # several sources may carry the same value: blame the one the known mechanism would pick
            real_rank = {'cmdopt': 5, 'pcoopt': 5, 'pcoini': 3, 'cmdini': 2, 'env': 1}
            winner.sort(key=lambda s_: -real_rank[s_])
            w = winner[0] if winner else 'other'
            sig = 'C16:precedence:%s:%s_lost_to_%s' % (n, top, w)
            if n in HANDLED and top == 'cmdini' and w == 'pcoini':
                sig = 'C16:prepend_ini_first_wins'
            elif top == 'cmdini' and w == 'pcoopt':
                sig = 'C16:prepend_option_over_cmdline_ini'
            hits.append((sig, '%s: sources %s; the highest-precedence source present is %s=%r but the runtime uses %s'
                         % (n, vals, top, exp, shown)))
    # 4. application arguments
    exp_args = []
    term = False
    skip = False
    toks = case['args']
    i = 0
    while i < len(toks):
        t = toks[i]
        if term:
            exp_args.append(t)
        elif t == '--':
            term = True
        elif t.startswith('--pika:'):
            if '=' not in t and t in ('--pika:threads', '--pika:scheduler', '--pika:cores'):
                i += 1
        else:
            exp_args.append(t)
        i += 1
    got_args = [unhx(a) for a in L['ARGV'].get('argv', '').split(',')[1:]]
    if got_args != exp_args:
        bad = [a for a in exp_args if a == '' or any(c in a for c in '"\'\\')]
        dol = [a for a in exp_args if dollar_word(a)]
        if dol and not bad:
            hits.append(('C16:app_args:dollar_expanded',
                         'application arguments %r arrive as %r (argument %r is expanded by the ini layer when the rebuilt '
                         'command line is read back from pika.reconstructed_cmd_line)' % (exp_args, got_args, dol[0])))
        elif bad:
            hits.append(('C16:app_args:quote_backslash_or_empty',
                         'application arguments %r arrive as %r (argument %r is re-quoted and split again)' % (exp_args, got_args, bad[0])))
        else:
            hits.append(('C16:app_args:changed', 'application arguments %r arrive as %r' % (exp_args, got_args)))
    return hits


# ------------------------------------------------------------------ the check
def run(ctx):
    r = Result()
    r.rule = ('PROC: cases are generated from VERIF_SEED: 1-3 settings out of %d, each given through a random subset of '
              '{environment variable, PIKA_COMMANDLINE_OPTIONS option / --pika:ini, command-line --pika:ini / option} with '
              'pairwise distinct values, optionally one invalid value in the deciding source, unknown options, flags, '
              'application words (some with blanks/quotes), shuffled order, plus a permuted twin of every 4th case; one real '
              'process per case; non-trivial = at least two sources present for a setting, or an invalid/unknown input; '
              'distinct = distinct (environment, argv)') % len(SETTINGS)
    ctx.build_pika()
    drv = build_driver(ctx)
    h = ctx.build_harness('c16_cfg', 'c16_cfg.cpp')
    # machine facts from the real topology (inputs of the model)
    rc, out = sh([h, '--pika:threads=1'], timeout=60, env={'C16_KEYS': 'pika.os_threads'})
    m = re.search(r'C16 MACHINE pus=(\d+) cores=(\d+) maskcount=(\d+) mask=(0x[0-9a-f]+)', out)
    if not m:
        r.hits.append(Hit('tie', 'C16:harness', 'harness does not start the runtime: %s' % out[-600:], {'harness': 'c16_cfg'}))
        return r
    mv = int(m.group(4), 16)
    mach = {'pus': int(m.group(1)), 'cores': int(m.group(2)), 'maskcount': int(m.group(3)),
            'pubits': [b for b in range(mv.bit_length()) if mv >> b & 1 and b < int(m.group(1))], 'arg0': h}
    rng = random.Random(ctx.seed * 7919 + 16)
    cases = []
    if ctx.replay:
        rp = json.load(open(ctx.replay))
        c = rp.get('replay', {}).get('case')
        if c:
            c['id'] = 0
            cases = [c]
    if not cases:
        n = 260 if ctx.tier == 'quick' else 4000
        # fixed witnesses first (replayed on every run): F11, ini variant, quoting, dollar words, E2
        fixed = [
            {'env': {'PIKA_COMMANDLINE_OPTIONS': '--pika:threads=2'}, 'args': ['--pika:threads=3'],
             'src': {'threads': {'pcoopt': '2', 'cmdopt': '3'}}},
            {'env': {'PIKA_COMMANDLINE_OPTIONS': '--pika:ini=pika.os_threads=2'}, 'args': ['--pika:ini=pika.os_threads=3'],
             'src': {'threads': {'pcoini': '2', 'cmdini': '3'}}},
            {'env': {'PIKA_COMMANDLINE_OPTIONS': '--pika:threads=2'}, 'args': ['--pika:ini=pika.os_threads=3'],
             'src': {'threads': {'pcoopt': '2', 'cmdini': '3'}}},
            {'env': {'PIKA_THREADS': '5'}, 'args': ['--pika:threads=3'], 'src': {'threads': {'env': '5', 'cmdopt': '3'}}},
            {'env': {}, 'args': ['a"b', 'x'], 'src': {}},
            {'env': {}, 'args': ['a\\b', 'x'], 'src': {}},
            {'env': {}, 'args': ["a'b", 'x'], 'src': {}},
            {'env': {}, 'args': ['', 'x'], 'src': {}},
            # C16:app_args:dollar_expanded (C16_app_args_dollar_refuted): environment variable / configuration entry
            # substituted into an application argument
            {'env': {'HOME': '/c16home'}, 'args': ['${HOME}', 'x'], 'src': {}},
            {'env': {}, 'args': ['$[pika.os_threads]', '--pika:threads=3'], 'src': {'threads': {'cmdopt': '3'}}},
            {'env': {'HOME': '/a b'}, 'args': ['${HOME}', 'x'], 'src': {}},
            {'env': {}, 'args': ['a${C16_UNSET:dflt}b', '$[pika.nosuch]'], 'src': {}},
            {'env': {}, 'args': ['a$b', '$', 'x$'], 'src': {}},
            {'env': {}, 'args': ['--pika:bogus=1'], 'src': {}, 'unknown': '--pika:bogus=1'},
            {'env': {'PIKA_NUMA_SENSITIVE': '2'}, 'args': ['x', '--pika:numa-sensitive'], 'src': {'numa': {'env': '2', 'cmdopt': '0'}}},
            {'env': {}, 'args': ['--pika:threads=0'], 'src': {'threads': {'cmdopt': '0'}}, 'invalid': ('threads', 'cmdopt', '0')},
            {'env': {}, 'args': ['--pika:threads=abc'], 'src': {'threads': {'cmdopt': 'abc'}}, 'invalid': ('threads', 'cmdopt', 'abc')},
        ]
        for i, c in enumerate(fixed):
            c.setdefault('invalid', None)
            c.setdefault('unknown', None)
            c.update({'id': i, 'items': list(c['args']), 'tail': [], 'nasty': False})
            cases.append(c)
        while len(cases) < n:
            c = make_case(rng, mach, len(cases))
            cases.append(c)
            if len(cases) % 4 == 0 and len(cases) < n:
                cases.append(permuted(rng, c, len(cases)))
    # model
    ins = [in_line(c, mach) for c in cases]
    rc2, mout = sh([drv], input='\n'.join(ins) + '\n', timeout=600)
    mouts = [x for x in mout.split('\n') if x.startswith('OUT ')]
    if rc2 != 0 or len(mouts) != len(cases):
        r.hits.append(Hit('tie', 'C16:driver', 'model driver failed rc=%d, %d/%d lines: %s' % (rc2, len(mouts), len(cases), mout[-400:]), {}))
    # implementation, in parallel
    with ThreadPoolExecutor(max_workers=12) as ex:
        obs = list(ex.map(lambda c: classify(*run_real(h, c)), cases))
    outs = [out_line(c, o) for c, o in zip(cases, obs)]
    mmap = {x.split(' ')[2]: x for x in mouts}
    # unsupported cases are outside the model: not compared, but still monitored
    cmp_impl, cmp_model = [], []
    for c, o, ol in zip(cases, obs, outs):
        ml = mmap.get(str(c['id']), '')
        if ml.endswith(' unsupported'):
            r.count('model_unsupported')
            continue
        if ml.endswith('rejected bad_mask'):
            ml = ml.replace('bad_mask', 'bad_cast')
        cmp_impl.append(ol)
        cmp_model.append(ml)
    diffs, ncases = diff_lines(ctx, cmp_impl, cmp_model)
    r.evaluations += len(cases)
    r.traces += ncases
    byid = {str(c['id']): c for c in cases}
    for c, o in zip(cases, obs):
        srcs = sum(len(v) for v in c['src'].values())
        if any(len(v) >= 2 for v in c['src'].values()) or c['invalid'] or c['unknown']:
            r.nontrivial(in_line(c, mach))
        r.count('outcome=' + (o['kind'] if o['kind'] == 'started' else 'rejected:' + o['cls'].split(':')[0]))
        r.count('sources_present=%d' % min(srcs, 6))
        for n in c['src']:
            r.count('setting=' + n)
        if o.get('cls') in ('hang',) or (o['kind'] == 'rejected' and o['cls'].startswith('other:')):
            r.hits.append(Hit('corr', 'C16:unexpected_termination', 'case %d: process ended with %s rc=%s'
                              % (c['id'], o.get('cls'), o['rc']), {'harness': 'c16_cfg', 'case': c}))
        for sig, text in monitor(c, o, mach):
            r.hits.append(Hit('monitor', sig, text + ' [env %s argv %s]' % (c['env'], c['args']),
                              {'harness': 'c16_cfg', 'case': c, 'observed': out_line(c, o)}))
    # permutation twins must give the same observation
    omap = {c['id']: ol for c, ol in zip(cases, outs)}
    amap = {c['id']: o['lines'].get('AFF', {}).get('masks') for c, o in zip(cases, obs)}
    for c in cases:
        if 'perm_of' in c:
            a, b = omap[c['perm_of']].split(' ', 3)[3], omap[c['id']].split(' ', 3)[3]
            if a != b or amap[c['perm_of']] != amap[c['id']]:
                r.hits.append(Hit('monitor', 'C16:order_dependent', 'permuting the options changes the result: %r -> [%s] but %r -> [%s]'
                                  % (byid[str(c['perm_of'])]['args'], a[:200], c['args'], b[:200]),
                                  {'harness': 'c16_cfg', 'case': c, 'twin': byid[str(c['perm_of'])]}))
            r.count('permutation_pairs')
    for (k, a, b) in diffs[:20]:
        r.hits.append(Hit('corr', 'C16:correspondence', 'implementation and model differ on case %s: impl [%s] model [%s] (env %s argv %s)'
                          % (k[1], a[:300], b[:300], byid[k[1]]['env'], byid[k[1]]['args']),
                          {'harness': 'c16_cfg', 'case': byid[k[1]], 'impl': a, 'model': b}))
    for c, ol in list(zip(cases, outs))[3:6]:
        r.sample({'env': c['env'], 'argv': c['args'], 'observed': ol[:300]})
    r.extra['machine'] = {k: mach[k] for k in ('pus', 'cores', 'maskcount')}
    return r
