# C20 — MPI requests complete their sender exactly once, after the transfer.
# PROC runs of the MPI build over the completion modes (with / without a dedicated polling pool),
# the error-status path, a trace-check of the real poller (hooks 2001..2010) against the extracted
# model, the same for poll_singlethreaded (hooks 2001/2002/2009/2011, dedicated pool), the transform_mpi route
# model as compiled (translator flag), compaction DIFF, MTPOOL: start_polling on user pools with 1..3 workers.
import random

from vlib import Hit, Result, diff_lines, sh

ASSUMPTIONS = [
    'MPI is an oracle: a request completes at an arbitrary moment, MPI_Testsome/Testany report only completed requests and free them; '
    "MPI's own progress and the visibility of received data at the time a test reports completion are runtime behaviour outside the model (property claimed partial)",
    'moodycamel ConcurrentQueue is a concurrent bag (try_dequeue returns any element or, spuriously, nothing)',
    'sequentially consistent interleaving at the granularity of one atomic access / one lock-protected block; the lock scope of poll_multithreaded is split into drain / test-report / compact+unlock steps',
    'callbacks are identified with the request they were registered with (ghost); the body of a callback is covered by the transform_mpi route model (PART B), composed through the contract "invoked at most once, after a test"',
    'poll_singlethreaded (PART D): ONE OS thread runs the poller and every registration (register_polling installs it only for a polling pool with one worker - '
    'C20_single_mode_one_worker, tied to the source by the translator - and non-inline requests are transferred to that pool) '
    '- checked on every run by the second-thread monitors of STRACE, PROC and MTPOOL (start_polling on user pools with 1..3 workers); no callback registers a request inline (no_inline_add) - true of the callbacks transform_mpi '
    'registers (they resume a suspended task / schedule a task / signal the downstream receiver, whose own transform_mpi transfers to the pool first), checked by the '
    'inline-add monitor of PROC with operations chained from inside continuations; the single-threaded model applied to a polling pool with several workers is NOT sound '
    '(C20_single_second_thread_compacts, C20_single_second_thread_wrong_callback) - the code no longer does that',
    'the mpix_continuation method is not compiled',
    'liveness (some worker keeps calling the polling function) is assumed, not proved',
]

MPI_FLAGS = ['-I/usr/lib/x86_64-linux-gnu/openmpi/include', '-I/usr/lib/x86_64-linux-gnu/openmpi/include/openmpi',
             '-L/usr/lib/x86_64-linux-gnu/openmpi/lib', '-Wl,--no-as-needed', '-lmpi_cxx', '-lmpi']

ALL_MODES = list(range(32))
# quick: every handler method, both inline bits in both polarities, priority on/off, the default (30)
QUICK_MODES = [0, 3, 8, 13, 16, 23, 24, 27, 30]
# WAITQ (pika::wait()/shutdown against slow continuations): (completion mode, dedicated pool, last round is a shutdown)
# quick: the default mode (30) with wait and with shutdown, the other shapes of the continuation method (inline
# request 27, non-inline completion 24, non-inline request 26), new_task (19 inline / 16 transfers, shutdown),
# suspend_resume (11), yield_while (3); (30, pool): the same against poll_singlethreaded on a dedicated pool
WAITQ_QUICK = [(30, 0, 0), (27, 0, 0), (30, 0, 1), (24, 0, 0), (19, 0, 0), (16, 0, 1), (11, 0, 0), (3, 0, 0), (30, 1, 0), (26, 0, 0)]


def fields(line, skip):
    return dict(x.split('=', 1) for x in line.split(' ')[skip:] if '=' in x)


def single_monitors(tokens):
    """the property evaluated on the observations of the real poll_singlethreaded (independent of the model):
    callback at most once, only after Testany reported the request, only after MPI completed it; the counter at
    quiescent checkpoints; one OS thread; nothing touches the vectors while a callback runs in place"""
    out = []
    threads, done, tested, called = set(), set(), set(), set()
    nreg = ntest = 0
    in_cb = None
    for i, tok in enumerate(tokens):
        p = tok.split(',')
        k = p[0]
        if k in ('E', 'V', 'S', 'R', 'C', 'X'):
            threads.add(p[1])
        if k == 'E':
            nreg += 1
            if p[3] != '1':
                out.append(('C20:strace:mode', 'registration %s took the queue branch: single_thread_mode_ is off' % tok))
            if in_cb is not None:
                out.append(('C20:strace:vector_modified_in_callback', 'request %s registered (token %d) while the callback of %s runs in place' % (p[2], i, in_cb)))
        elif k == 'V':
            if in_cb is not None:
                out.append(('C20:strace:vector_modified_in_callback', 'push_back (token %d %s) while the callback of %s runs in place' % (i, tok, in_cb)))
        elif k == 'D':
            done.add(p[1])
        elif k == 'S':
            if p[3] not in done:
                out.append(('C20:strace:test_before_completion', 'Testany reported request %s (token %d) before MPI completed it' % (p[3], i)))
            if p[3] in tested:
                out.append(('C20:strace:callback_twice', 'request %s reported twice by Testany (token %d)' % (p[3], i)))
            tested.add(p[3])
            ntest += 1
        elif k == 'B':
            if p[1] in called:
                out.append(('C20:strace:callback_twice', 'callback of request %s invoked twice (token %d)' % (p[1], i)))
            if p[1] not in tested or p[1] not in done:
                out.append(('C20:strace:callback_before_completion', 'callback of request %s invoked (token %d) before its test/completion' % (p[1], i)))
            called.add(p[1])
            in_cb = p[1]
        elif k == 'R':
            in_cb = None
        elif k == 'C':
            if in_cb is not None:
                out.append(('C20:strace:vector_modified_in_callback', 'compact_vectors (token %d) while the callback of %s runs in place' % (i, in_cb)))
        elif k == 'K':
            if int(p[1]) != nreg - ntest:
                out.append(('C20:strace:counter', 'all_in_flight=%s at a quiescent checkpoint with %d registered and %d reported complete' % (p[1], nreg, ntest)))
            if int(p[2]) != len(called):
                out.append(('C20:strace:counter', 'callback count %s differs from the %d callbacks observed' % (p[2], len(called))))
    if len(threads) > 1:
        out.append(('C20:strace:second_thread', 'OS threads %s ran the single-threaded poller / its registrations' % sorted(threads)))
    return out, len(threads)


def run(ctx):
    r = Result()
    r.rule = ('PROC: one process per (completion mode, pool) pair: N self-addressed Irecv/Isend pairs (1..70000 ints, patterned payload) '
              'through transform_mpi with counting receivers, started from concurrent tasks in seeded random order; a third of the pairs is '
              '"gated" (the send is issued 40 ms later by another thread); pika::wait() is called while they are in flight. '
              'WAITQ: one process per (completion mode, pool, wait|shutdown): rounds of N+1 self-addressed pairs whose transform_mpi sender is followed by a '
              'then-stage that spins 3..7 ms (seeded) before it records completion; N+1 requests outstanding at once, partners posted in clustered bursts by tasks '
              'that all exist before the main thread calls pika::wait() (last round: finalize/stop); the per-request ledger (posted / entered / recorded) is read '
              'right after the call returns; every running continuation compares the global activity count with the number of running continuations. '
              'ERR: MPI_ERRORS_RETURN + MPI_DATATYPE_NULL. TRACE: generalized requests completed by the harness, hook trace replayed by the '
              'extracted model step by step; STRACE: the same for poll_singlethreaded (dedicated pool, registrations as tasks on the pool). '
              'MTPOOL: start_polling(no_handler, name of a user pool with W = 1..3 workers), transform_mpi over generalized requests, phase 1 = the two-thread '
              'witness schedule forced through hook 2009, phase 2 = n operations free running. TM/CMP: seeded event sequences / slot vectors on the extracted model. '
              'A case is non-trivial when requests were really registered with the poller or (TRACE) when at least two threads touched the poller; '
              'distinct = distinct IN lines')
    rnd = random.Random(ctx.seed * 1000003 + 20)
    ctx.build_pika('mpi')
    drv = ctx.build_model('C20', 'ExtractC20.v', 'drv_c20.ml')
    h = ctx.build_harness('c20_mpi', 'c20_mpi.cpp', variant='pika-mpi', extra=MPI_FLAGS)
    env = {'OMPI_MCA_btl': 'self,vader', 'OMPI_MCA_rmaps_base_oversubscribe': '1'}
    quick = ctx.tier == 'quick'
    modes = QUICK_MODES if quick else ALL_MODES
    npairs = 40 if quick else 400

    def known(line):
        return {'harness': 'c20_mpi', 'line': line}

    # ------------------------------------------------------------ PROC
    nhang = 0
    for mode in modes:
        for pool in (0, 1):
            if nhang >= 2:    # every further process would wait for its watchdog as well
                break
            args = [h, 'proc', str(mode), str(pool), str(npairs), str(ctx.seed)]
            rc, out = sh(args, timeout=150, env=env)
            lines = [x for x in out.split('\n') if x.startswith('OUT ')]
            r.evaluations += 1
            r.count('proc:method=%d' % (mode & 56))
            r.count('proc:pool=%d' % pool)
            rep = {'harness': 'c20_mpi', 'args': args[1:], 'output': lines}
            tag = 'm%dp%d' % (mode, pool)
            main = [x for x in lines if ' gated=' in x]
            if any('hang=1' in x for x in lines) or rc == 4 or rc == 124:
                r.hits.append(Hit('monitor', 'C20:proc:hang', 'PROC %s: requests lost or runtime hung (a registered continuation never ran / '
                                  'stop_polling or shutdown did not return): %s' % (tag, ' | '.join(lines)[-400:]), rep))
                nhang += 1
                continue
            if rc != 0 or not main:
                r.hits.append(Hit('monitor', 'C20:proc:crash', 'PROC %s: harness crashed rc=%d: %s' % (tag, rc, out[-600:]), rep))
                continue
            f = fields(main[0], 3)
            r.nontrivial(' '.join(args[1:]))
            if int(f['multi']) > 0:
                r.hits.append(Hit('monitor', 'C20:proc:multiple_signals', 'PROC %s: %s receivers were signalled more than once' % (tag, f['multi']), rep))
            if int(f['lost']) > 0:
                r.hits.append(Hit('monitor', 'C20:proc:lost', 'PROC %s: %s receivers were never signalled' % (tag, f['lost']), rep))
            if int(f['errs']) > 0:
                r.hits.append(Hit('monitor', 'C20:proc:unexpected_error', 'PROC %s: %s error/stopped signals on successful transfers' % (tag, f['errs']), rep))
            if int(f['premature']) > 0:
                r.hits.append(Hit('monitor', 'C20:proc:premature', 'PROC %s: %s receive continuations ran before the matching send was even issued '
                                  '(signalled before MPI completed the request)' % (tag, f['premature']), rep))
            if int(f['badsum']) > 0:
                r.hits.append(Hit('monitor', 'C20:proc:payload', 'PROC %s: %s receive continuations saw an incomplete payload' % (tag, f['badsum']), rep))
            total = int(f.get('total', 2 * npairs))
            if int(f['done_at_wait']) != total:
                r.hits.append(Hit('monitor', 'C20:proc:wait_returned_early', 'PROC %s: pika::wait() returned with %s of %d continuations run '
                                  '(gated sends issued: %s of %s)' % (tag, f['done_at_wait'], total, f['issued_at_wait'], f['gated']), rep))
            if int(f.get('chain_bad', 0)) > 0:
                r.hits.append(Hit('monitor', 'C20:proc:payload', 'PROC %s: %s chained receives saw a wrong payload' % (tag, f['chain_bad']), rep))
            # poll_singlethreaded as the real runs use it: hypotheses of the PART D theorems
            single = bool(pool) and (mode & 1) == 0 and (mode & 56) != 0
            if int(f.get('st_inline_add', 0)) > 0:
                r.hits.append(Hit('monitor', 'C20:proc:inline_add_in_callback', 'PROC %s: %s registrations happened between a Testany hit and the return of its callback '
                                  '(the vector is modified while callbacks_[i].cb_ runs in place)' % (tag, f['st_inline_add']), rep))
            if int(f.get('st_threads', 0)) > 1:
                r.hits.append(Hit('monitor', 'C20:proc:single_poller_threads', 'PROC %s: %s OS threads touched the single-threaded poller' % (tag, f['st_threads']), rep))
            if single and (int(f.get('st_reg', 0)) == 0 or int(f.get('st_hits', 0)) == 0):
                r.hits.append(Hit('tie', 'C20:proc:single_not_exercised', 'PROC %s: pool + non-inline requests but poll_singlethreaded saw %s registrations / %s completions'
                                  % (tag, f.get('st_reg'), f.get('st_hits')), rep))
            if single and (mode & 56) == 24 and (mode & 2) and int(f.get('chain_in_cb', 0)) == 0:
                r.hits.append(Hit('tie', 'C20:proc:chain_not_in_callback', 'PROC %s: no chained operation was started from inside a running callback '
                                  '(the no_inline_add hypothesis was not exercised)' % tag, rep))
            if single:
                r.count('proc:single_threaded_poller')
                r.extra['chain_started_in_callback'] = r.extra.get('chain_started_in_callback', 0) + int(f.get('chain_in_cb', 0))
                r.extra['single_hits'] = r.extra.get('single_hits', 0) + int(f.get('st_hits', 0))
            if int(f['work_after']) != 0:
                r.hits.append(Hit('monitor', 'C20:proc:work_count', 'PROC %s: get_work_count() = %s after everything completed' % (tag, f['work_after']), rep))
            if not any('shutdown=ok' in x for x in lines):
                r.hits.append(Hit('monitor', 'C20:proc:shutdown', 'PROC %s: no orderly shutdown' % tag, rep))
            r.sample({'proc': main[0]}, cap=2)

    # ------------------------------------------------------------ WAITQ: wait()/shutdown vs. slow continuations
    wq_cfgs = list(WAITQ_QUICK)
    if not quick:
        wq_cfgs = [(m, 0, f) for m in ALL_MODES for f in (0, 1)] + [(m, 1, f) for m in (30, 26, 24, 18, 16, 10, 8) for f in (0, 1)]
    wq_n, wq_rounds = (10, 5) if quick else (16, 12)
    wq_loop = {1: 0, 2: 0}
    wq_maxout, wq_polled, wq_multi_cb = 0, 0, 0
    nhang = 0
    for mode, pool, fin in wq_cfgs:
        if nhang >= 2:
            break
        args = [h, 'waitq', str(mode), str(pool), str(wq_n), str(wq_rounds), str(ctx.seed), str(fin)]
        rc, out = sh(args, timeout=200, env=env)
        lines = [x for x in out.split('\n') if x.startswith('OUT ')]
        r.evaluations += 1
        r.count('waitq:method=%d' % (mode & 56))
        r.count('waitq:pool=%d' % pool)
        r.count('waitq:final=%s' % ('shutdown' if fin else 'wait'))
        rep = {'harness': 'c20_mpi', 'args': args[1:], 'output': [x[:400] for x in lines]}
        tag = 'm%dp%df%d' % (mode, pool, fin)
        # the ledger as it was when wait() / stop() returned (one line per round), evaluated before anything else:
        # a later hang or crash must not hide it
        for x in lines:
            if ' kind=' not in x:
                continue
            f = fields(x, 3)
            what = 'shutdown' if f['kind'] == 'shutdown' else 'wait'
            call = 'pika::finalize(); pika::stop()' if what == 'shutdown' else 'pika::wait()'
            if int(f['undelivered']) > 0:
                r.hits.append(Hit('monitor', 'C20:%s:returned_with_undelivered_completions' % what,
                                  'WAITQ %s round %s: %s returned while %s request(s) that had been posted were still in flight / their '
                                  'continuation had not recorded completion (of %s operations whose posting tasks all existed before the call: '
                                  'posted=%s, continuation entered=%s, completion recorded=%s; Testsome/Testany had reported %s requests complete, '
                                  'activity count read after the call=%s)'
                                  % (tag, x.split(' ')[2].split('.r')[-1], call, f['undelivered'], f['expected'], f['posted'], f['entered'],
                                     f['recorded'], f['tested'], f['act_after']), rep))
            if int(f['unposted']) > 0:
                r.hits.append(Hit('monitor', 'C20:%s:returned_with_unposted_requests' % what,
                                  'WAITQ %s round %s: %s returned while %s operation(s) whose posting task existed before the call had not even '
                                  'made their MPI call (expected=%s posted=%s recorded=%s)'
                                  % (tag, x.split(' ')[2].split('.r')[-1], call, f['unposted'], f['expected'], f['posted'], f['recorded']), rep))
        summ = [x for x in lines if ' summary ' in x]
        if any('hang=1' in x for x in lines) or rc == 4 or rc == 124:
            r.hits.append(Hit('monitor', 'C20:waitq:hang', 'WAITQ %s: a posted request never had its continuation run, or wait()/stop_polling/shutdown did not '
                              'return: %s' % (tag, ' | '.join(lines)[-400:]), rep))
            nhang += 1
            continue
        if rc != 0 or not summ:
            r.hits.append(Hit('monitor', 'C20:waitq:crash', 'WAITQ %s: harness crashed rc=%d: %s' % (tag, rc, out[-600:]), rep))
            continue
        f = fields(summ[0], 3)
        if int(f['multi']) > 0:
            r.hits.append(Hit('monitor', 'C20:waitq:multiple_signals', 'WAITQ %s: %s operations ran their continuation / signalled their receiver more than once' % (tag, f['multi']), rep))
        if int(f['lost']) > 0:
            r.hits.append(Hit('monitor', 'C20:waitq:lost', 'WAITQ %s: %s receivers were never signalled' % (tag, f['lost']), rep))
        if int(f['errs']) > 0:
            r.hits.append(Hit('monitor', 'C20:waitq:unexpected_error', 'WAITQ %s: %s error/stopped signals on successful transfers' % (tag, f['errs']), rep))
        if int(f['premature']) > 0:
            r.hits.append(Hit('monitor', 'C20:waitq:premature', 'WAITQ %s: %s receive continuations ran before the matching send was even posted' % (tag, f['premature']), rep))
        if int(f['badsum']) > 0:
            r.hits.append(Hit('monitor', 'C20:waitq:payload', 'WAITQ %s: %s receive continuations saw an incomplete payload' % (tag, f['badsum']), rep))
        if int(f['order_bad']) > 0:
            r.hits.append(Hit('monitor', 'C20:waitq:continuation_order', 'WAITQ %s: %s continuations were entered twice or before their MPI call was made' % (tag, f['order_bad']), rep))
        if int(f['min_slack']) < 0:
            r.hits.append(Hit('monitor', 'C20:activity:count_below_running_continuations',
                              'WAITQ %s: a running continuation read the global activity count (what pika::wait() and shutdown wait on) and found it %d below the number '
                              'of continuations of posted requests running at that moment (count == 0 seen %s times from inside a continuation): such a request is no '
                              'longer counted although its continuation has not finished' % (tag, -int(f['min_slack']), f['zero_seen']), rep))
        if int(f['work_after']) != 0:
            r.hits.append(Hit('monitor', 'C20:waitq:work_count', 'WAITQ %s: get_work_count() = %s after everything completed' % (tag, f['work_after']), rep))
        if not any('shutdown=ok' in x for x in lines):
            r.hits.append(Hit('monitor', 'C20:waitq:shutdown', 'WAITQ %s: no orderly shutdown' % tag, rep))
        polled = (mode & 56) != 0
        if polled and int(f['reg']) > 0:
            r.nontrivial(' '.join(args[1:]))
            wq_polled += 1
            wq_maxout = max(wq_maxout, int(f['max_out']))
        if polled and not pool:
            wq_loop[1] += int(f['loop1'])
            wq_loop[2] += int(f['loop2'])
            wq_multi_cb = max(wq_multi_cb, int(f['cb_threads']))
        if polled and pool and (mode & 1) == 0:
            r.extra['waitq_single_hits'] = r.extra.get('waitq_single_hits', 0) + int(f['single_hits'])
        r.sample({'waitq': summ[0][:500]}, cap=2)
    if wq_polled and nhang == 0:
        # the scenario must really be what it claims (aggregated over the run, so scheduling luck of one process does not matter)
        if wq_loop[1] == 0 or wq_loop[2] == 0:
            r.hits.append(Hit('tie', 'C20:waitq:drain_loop_not_exercised', 'WAITQ: callbacks taken from the ready queue by the first drain loop of poll_multithreaded: %d, '
                              'by the second: %d (hook 2006/2012) - one of them never ran' % (wq_loop[1], wq_loop[2]), {'configs': wq_cfgs}))
        if wq_maxout < 8:
            r.hits.append(Hit('tie', 'C20:waitq:not_outstanding', 'WAITQ: at most %d requests were registered with the poller at once (>= 8 intended)' % wq_maxout, {'configs': wq_cfgs}))
        if wq_multi_cb < 2:
            r.hits.append(Hit('tie', 'C20:waitq:one_polling_worker', 'WAITQ: callbacks were invoked by %d OS thread(s) only in the runs without a polling pool' % wq_multi_cb, {'configs': wq_cfgs}))
    r.extra['waitq'] = {'configs': len(wq_cfgs), 'pairs_per_round': wq_n + 1, 'rounds': wq_rounds, 'first_loop_callbacks': wq_loop[1],
                        'second_loop_callbacks': wq_loop[2], 'max_outstanding': wq_maxout, 'callback_threads': wq_multi_cb}

    # ------------------------------------------------------------ ERR (F17)
    for mode in modes:
        for pool in ((0, 1) if not quick else (0,)):
            args = [h, 'err', str(mode), str(pool), '4']
            rc, out = sh(args, timeout=80, env=env)
            lines = [x for x in out.split('\n') if x.startswith('OUT ')]
            r.evaluations += 1
            r.count('err:method=%d' % (mode & 56))
            rep = {'harness': 'c20_mpi', 'args': args[1:], 'output': lines}
            if rc != 0 or not lines or 'hang=1' in lines[0]:
                r.hits.append(Hit('monitor', 'C20:err:crash', 'ERR m%dp%d: harness failed rc=%d %s' % (mode, pool, rc, out[-400:]), rep))
                continue
            f = fields(lines[0], 3)
            r.nontrivial(' '.join(args[1:]))
            if int(f['multi']) > 0 or int(f['nval']) > 0:
                r.hits.append(Hit('monitor', 'C20:err:double_signal', 'transform_mpi, MPI call returning an error status (mode %d): receivers got '
                                  'set_error=%s AND set_value=%s for %s operations (exactly one signal each expected)'
                                  % (mode, f['nerr'], f['nval'], f['ops']), rep))
            elif int(f['none']) > 0 or int(f['nerr']) != int(f['ops']):
                r.hits.append(Hit('monitor', 'C20:err:no_error_signal', 'error-status path (mode %d): %s' % (mode, lines[0]), rep))
            r.sample({'err': lines[0]}, cap=3)

    # ------------------------------------------------------------ POLLOFF
    for mode, pool in ((30, 0), (24, 1), (0, 0)) if quick else [(m, p) for m in (0, 8, 16, 24, 30, 29) for p in (0, 1)]:
        args = [h, 'polloff', str(mode), str(pool)]
        rc, out = sh(args, timeout=60, env=env)
        lines = [x for x in out.split('\n') if x.startswith('OUT ')]
        r.evaluations += 1
        rep = {'harness': 'c20_mpi', 'args': args[1:], 'output': lines}
        if rc != 0 or not lines or 'hang=1' in lines[0]:
            r.hits.append(Hit('monitor', 'C20:polloff:hang', 'enable/disable cycles (mode %d pool %d): %s' % (mode, pool, (lines or [out[-300:]])[0]), rep))
            continue
        f = fields(lines[0], 3)
        if int(f['polled_after_off']) != 0:
            r.hits.append(Hit('monitor', 'C20:polloff:still_polling', 'after stop_polling a worker still polled MPI requests (mode %d pool %d)' % (mode, pool), rep))
        if (mode & 56) != 0 and int(f['polled_while_on']) != 1:
            r.hits.append(Hit('monitor', 'C20:polloff:not_polling', 'while polling was enabled a completed request was not picked up (mode %d pool %d): %s' % (mode, pool, lines[0]), rep))

    # ------------------------------------------------------------ MTPOOL: start_polling(handler, "user pool with W workers")
    # public API only (rp_callback pool, start_polling(no_handler, name), transform_mpi over generalized requests).
    # The lock-free single-threaded poller may only be chosen for a polling pool with ONE worker
    # (C20_single_mode_one_worker); phase 1 of the harness replays the model witness
    # C20_single_second_thread_wrong_callback (hook 2009 keeps the thread with the Testany hit until another
    # thread has compacted), phase 2 runs n operations freely.
    mt = [(30, 2), (30, 1), (18, 2), (8, 3)] if quick else [(m, w) for m in (30, 18, 8, 24, 26, 10, 29, 0) for w in (1, 2, 3)]
    mtn = 60 if quick else 300
    for mode, w in mt:
        args = [h, 'mtpool', str(mode), str(w), str(mtn), str(ctx.seed)]
        rc, out = sh(args, timeout=150, env=env)
        lines = [x for x in out.split('\n') if x.startswith('OUT ')]
        r.evaluations += 1
        r.count('mtpool:workers=%d' % w)
        rep = {'harness': 'c20_mpi', 'args': args[1:], 'output': lines}
        tag = 'm%dw%d' % (mode, w)
        main = [x for x in lines if ' pool_threads=' in x]
        if any('hang=1' in x for x in lines) or rc in (4, 124):
            r.hits.append(Hit('monitor', 'C20:mtpool:hang', 'MTPOOL %s (start_polling on a pool with %d workers): runtime hung: %s'
                              % (tag, w, ' | '.join(lines)[-400:]), rep))
            continue
        if rc != 0 or not main:
            r.hits.append(Hit('monitor', 'C20:mtpool:crash', 'MTPOOL %s (start_polling on a pool with %d workers): process crashed rc=%d: %s'
                              % (tag, w, rc, out[-500:]), rep))
            continue
        f = fields(main[0], 3)
        nthreads = int(f['pool_threads'])
        if nthreads != w:
            r.hits.append(Hit('tie', 'C20:mtpool:pool_size', 'MTPOOL %s: pool has %d threads' % (tag, nthreads), rep))
        if int(f['single_regs']) > 0 and nthreads > 1:
            r.hits.append(Hit('monitor', 'C20:mtpool:single_mode_multiworker', 'MTPOOL %s: %s registrations pushed straight into the unlocked vectors '
                              '(single_thread_mode_ on, poll_singlethreaded installed) although the polling pool has %d workers'
                              % (tag, f['single_regs'], nthreads), rep))
        if int(f['single_threads']) > 1:
            r.hits.append(Hit('monitor', 'C20:mtpool:second_thread', 'MTPOOL %s: %s OS threads ran the single-threaded poller / its registrations'
                              % (tag, f['single_threads']), rep))
        prem = int(f['ph1_premature']) + int(f['ph2_premature'])
        lost = int(f['ph1_lost']) + int(f['ph2_lost'])
        multi = int(f['ph1_multi']) + int(f['ph2_multi'])
        if prem > 0:
            r.hits.append(Hit('monitor', 'C20:mtpool:premature', 'MTPOOL %s: %d receivers got set_value although MPI had not completed their request '
                              '(the callback of another request was invoked; phase 1: %s, held=%s other_thread_compacted=%s)'
                              % (tag, prem, f['ph1_premature'], f['held'], f['other_thread_compacted']), rep))
        if lost > 0:
            r.hits.append(Hit('monitor', 'C20:mtpool:lost', 'MTPOOL %s: %d receivers were never signalled although their request completed' % (tag, lost), rep))
        if multi > 0:
            r.hits.append(Hit('monitor', 'C20:mtpool:multiple_signals', 'MTPOOL %s: %d receivers were signalled more than once' % (tag, multi), rep))
        if int(f['errs']) > 0:
            r.hits.append(Hit('monitor', 'C20:mtpool:unexpected_error', 'MTPOOL %s: %s error/stopped signals' % (tag, f['errs']), rep))
        if int(f['work_after']) != 0:
            r.hits.append(Hit('monitor', 'C20:mtpool:work_count', 'MTPOOL %s: get_work_count() = %s after everything completed' % (tag, f['work_after']), rep))
        if not any('shutdown=ok' in x for x in lines) and not (prem or lost or multi or int(f['work_after'])):
            r.hits.append(Hit('monitor', 'C20:mtpool:shutdown', 'MTPOOL %s: no orderly shutdown' % tag, rep))
        polled = (mode & 56) != 0
        regs = int(f['single_regs']) + int(f['queued_regs'])
        # exercise checks (did the scenario reach what it is meant to reach): tolerate a registration or two that
        # raced the harness's own hook installation — observed once in 80 clean runs (61 of 62 seen)
        if int(f['ph1_reg']) != 1 or abs(regs - (mtn + 2 if polled else 0)) > 2:
            r.hits.append(Hit('tie', 'C20:mtpool:registrations', 'MTPOOL %s: %d registrations seen by hook 2001, expected %d (ph1_reg=%s)'
                              % (tag, regs, mtn + 2 if polled else 0, f['ph1_reg']), rep))
        if w == 1 and polled and (mode & 1) == 0 and (abs(int(f['single_regs']) - (mtn + 2)) > 2 or int(f['held']) != 1):
            r.hits.append(Hit('tie', 'C20:mtpool:single_not_exercised', 'MTPOOL %s: a one-worker user pool with non-inline requests must run poll_singlethreaded '
                              '(single_regs=%s held=%s)' % (tag, f['single_regs'], f['held']), rep))
        if nthreads > 1 and regs > 0:
            r.nontrivial(' '.join(args[1:]))
        r.sample({'mtpool': main[0]}, cap=2)

    # ------------------------------------------------------------ TRACE against the extracted model
    ins, outs = [], []
    tmodes = [30, 27] if quick else [30, 27, 25, 19, 11]
    ncases = 60 if quick else 400
    for i, mode in enumerate(tmodes):
        args = [h, 'trace', str(mode), str(ncases), str(ctx.seed * 10 + i)]
        rc, out = sh(args, timeout=400, env=env)
        li = [x for x in out.split('\n') if x.startswith('IN TRACE')]
        lo = [x for x in out.split('\n') if x.startswith('OUT TRACE')]
        rep = {'harness': 'c20_mpi', 'args': args[1:], 'tail': out[-1500:]}
        # make case ids unique across runs
        li = [x.replace('IN TRACE ', 'IN TRACE %d.' % mode, 1) for x in li]
        lo = [x.replace('OUT TRACE ', 'OUT TRACE %d.' % mode, 1) for x in lo]
        if any('hang=1' in x for x in lo) or rc in (4, 124):
            r.hits.append(Hit('monitor', 'C20:trace:lost_callback', 'TRACE mode %d: a completed request was never called back / counter did not return to zero: %s'
                              % (mode, ' | '.join(lo[-2:])[-500:]), dict(rep, case=li[-1][:3000] if li else None)))
        elif rc != 0:
            r.hits.append(Hit('monitor', 'C20:trace:crash', 'TRACE mode %d: harness failed rc=%d %s' % (mode, rc, out[-400:]), rep))
        lo = [x for x in lo if 'hang=1' not in x]
        for a, b in zip(li, lo):
            f = fields(b, 3)
            if int(f.get('dup', 0)) > 0:
                r.hits.append(Hit('monitor', 'C20:trace:callback_twice', 'a request callback was invoked twice: %s' % b[:300], dict(rep, case=a[:3000])))
            if int(f.get('lost', 0)) > 0:
                r.hits.append(Hit('monitor', 'C20:trace:lost_callback', 'a completed request was never called back: %s' % b[:300], dict(rep, case=a[:3000])))
            if int(f.get('inflight', 0)) != 0:
                r.hits.append(Hit('monitor', 'C20:trace:counter', 'all_in_flight is %s after all callbacks ran: %s' % (f['inflight'], b[:200]), dict(rep, case=a[:3000])))
            threads = set(t.split(',')[1] for t in a.split(' ')[5:] if t[0] in 'EVTLH')
            r.count('trace:threads=%d' % min(len(threads), 6))
            if len(threads) >= 2:
                r.nontrivial(a)
        ins += li[:len(lo)]
        outs += lo
    rc2, mout = sh([drv], input='\n'.join(ins) + '\n', timeout=1200)
    mouts = [x for x in mout.split('\n') if x.startswith('OUT TRACE')]
    diffs, n = diff_lines(ctx, outs, mouts)
    r.evaluations += n
    r.traces += n - len(diffs)
    inmap = {x.split(' ')[2]: x for x in ins}
    for (k, a, b) in diffs[:10]:
        r.hits.append(Hit('corr', 'C20:trace:correspondence', 'poller trace is not a run of the model (case %s): impl [%s] model [%s]' % (k[1], a[:300], b[:300]),
                          {'harness': 'c20_mpi', 'case': inmap.get(k[1], '')[:6000], 'impl': a, 'model': b}))
    if ins:
        r.sample({'trace_in': ins[0][:400], 'trace_out': outs[0][:200]})

    # ------------------------------------------------------------ STRACE: poll_singlethreaded against the extracted model
    sins, souts = [], []
    smodes = [30, 18] if quick else [30, 18, 8, 26, 20]
    sncases = 60 if quick else 400
    for i, mode in enumerate(smodes):
        args = [h, 'strace', str(mode), str(sncases), str(ctx.seed * 10 + i)]
        rc, out = sh(args, timeout=400, env=env)
        li = [x for x in out.split('\n') if x.startswith('IN STRACE')]
        lo = [x for x in out.split('\n') if x.startswith('OUT STRACE')]
        rep = {'harness': 'c20_mpi', 'args': args[1:], 'tail': out[-1500:]}
        li = [x.replace('IN STRACE ', 'IN STRACE %d.' % mode, 1) for x in li]
        lo = [x.replace('OUT STRACE ', 'OUT STRACE %d.' % mode, 1) for x in lo]
        if any('hang=1' in x for x in lo) or rc in (4, 124):
            r.hits.append(Hit('monitor', 'C20:strace:lost_callback', 'STRACE mode %d: a completed request was never called back / counter did not return to zero: %s'
                              % (mode, ' | '.join(lo[-2:])[-500:]), dict(rep, case=li[-1][:3000] if li else None)))
        elif rc != 0:
            r.hits.append(Hit('monitor', 'C20:strace:crash', 'STRACE mode %d: harness failed rc=%d %s' % (mode, rc, out[-400:]), rep))
        lo = [x for x in lo if 'hang=1' not in x]
        for a, b in zip(li, lo):
            f = fields(b, 3)
            if int(f.get('dup', 0)) > 0:
                r.hits.append(Hit('monitor', 'C20:strace:callback_twice', 'a request callback was invoked twice: %s' % b[:300], dict(rep, case=a[:3000])))
            if int(f.get('lost', 0)) > 0:
                r.hits.append(Hit('monitor', 'C20:strace:lost_callback', 'a completed request was never called back: %s' % b[:300], dict(rep, case=a[:3000])))
            if int(f.get('inflight', 0)) != 0:
                r.hits.append(Hit('monitor', 'C20:strace:counter', 'all_in_flight is %s after all callbacks ran: %s' % (f['inflight'], b[:200]), dict(rep, case=a[:3000])))
            toks = a.split(' ')[5:]
            mh, nthr = single_monitors(toks)
            for sig, detail in mh[:3]:
                r.hits.append(Hit('monitor', sig, 'poll_singlethreaded (case %s): %s' % (a.split(' ')[2], detail), dict(rep, case=a[:3000])))
            r.count('strace:threads=%d' % nthr)
            if sum(1 for t in toks if t[0] == 'S') >= 2 and any(t[0] == 'C' for t in toks):
                r.nontrivial(a)
        sins += li[:len(lo)]
        souts += lo
    rc2, mout = sh([drv], input='\n'.join(sins) + '\n', timeout=1200)
    mouts = [x for x in mout.split('\n') if x.startswith('OUT STRACE')]
    diffs, n = diff_lines(ctx, souts, mouts)
    r.evaluations += n
    r.traces += n - len(diffs)
    inmap = {x.split(' ')[2]: x for x in sins}
    for (k, a, b) in diffs[:10]:
        r.hits.append(Hit('corr', 'C20:strace:correspondence', 'trace of poll_singlethreaded is not a run of the model (case %s): impl [%s] model [%s]' % (k[1], a[:300], b[:300]),
                          {'harness': 'c20_mpi', 'case': inmap.get(k[1], '')[:6000], 'impl': a, 'model': b}))
    if not sins:
        r.hits.append(Hit('tie', 'C20:strace:empty', 'the single-threaded trace run produced no case', {'modes': smodes}))
    else:
        r.sample({'strace_in': sins[0][:400], 'strace_out': souts[0][:200]})

    # ------------------------------------------------------------ TM: the transform_mpi route model as compiled
    tin = []
    evs = ['D0', 'D1', 'D2', 'P0', 'P1', 'C0', 'C1', 'W', 'R']
    k = 0
    for mode in ALL_MODES:
        seqs = [['D1', 'P0'], ['D1', 'P1', 'C0', 'W', 'R'], ['D0', 'P0', 'C0', 'C0', 'W', 'W', 'R', 'R'], ['D2', 'P1'], ['D0', 'P1', 'C1']]
        for _ in range(20 if quick else 200):
            seqs.append([rnd.choice(evs[:3])] + [rnd.choice(evs) for _ in range(rnd.randint(0, 8))])
        for s in seqs:
            tin.append('IN TM %d %d %s' % (k, mode, ' '.join(s)))
            k += 1
    # compaction: spec vs in-place algorithm
    for _ in range(200 if quick else 3000):
        n = rnd.randint(1, 12)
        tin.append('IN CMP %d %s' % (k, ' '.join('n' if rnd.random() < 0.45 else str(j) for j in range(n))))
        k += 1
    rc3, tout = sh([drv], input='\n'.join(tin) + '\n', timeout=600)
    touts = {x.split(' ')[2]: x for x in tout.split('\n') if x.startswith('OUT ')}
    for line in tin:
        p = line.split(' ')
        o = touts.get(p[2])
        r.evaluations += 1
        if o is None:
            r.hits.append(Hit('tie', 'C20:driver', 'model driver produced no line for %s' % line, {'case': line}))
            break
        if p[1] == 'TM':
            f = fields(o, 3)
            if int(f['nsig']) > 1 or (f['done'] == 'true') != (int(f['nsig']) == 1) or ('v' in f['sigs'] and f['tested'] != 'true'):
                sig = 'C20:err:double_signal' if p[4] == 'D1' else 'C20:tm:signals'
                r.hits.append(Hit('model', sig, 'transform_mpi route model (set_value as compiled, mode %s), events %s: signals=%s done=%s tested=%s — '
                                  'the receiver must be signalled exactly once and set_value only after a test' % (p[3], ' '.join(p[4:]), f['sigs'], f['done'], f['tested']),
                                  {'case': line, 'model': o}))
            if len(p) > 5:
                r.nontrivial(line)
        else:
            f = fields(o, 3)
            if f['spec'] != f['inplace']:
                r.hits.append(Hit('corr', 'C20:compact', 'compact (spec) and compact_inplace (index algorithm of the code) differ: %s' % o, {'case': line, 'model': o}))
    r.extra['modes_run'] = modes
    r.extra['pairs_per_run'] = npairs
    return r
