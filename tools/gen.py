# tools/gen.py — the translator: rewrites coq/Gen/*.v from /repo's working tree on every run
# (DESIGN.md section 2.3a).  Each generator is registered in GENERATORS; a generator that cannot
# find what it expects raises TieError (the check then reports the tie as broken).
import os
import re

from vlib import COQ, REPO, TieError

GENERATORS = []


def generator(f):
    GENERATORS.append(f)
    return f


def read(rel):
    p = os.path.join(REPO, rel)
    if not os.path.exists(p):
        raise TieError('source file missing: ' + rel)
    return open(p).read()


def write_if_changed(name, text):
    p = os.path.join(COQ, 'Gen', name)
    os.makedirs(os.path.dirname(p), exist_ok=True)
    old = open(p).read() if os.path.exists(p) else None
    if old != text:
        with open(p, 'w') as f:
            f.write(text)
        return True
    return False


def run(ctx):
    report = {}
    errs = []
    for g in GENERATORS:
        try:
            report[g.__name__] = g()
        except TieError as e:
            errs.append('%s: %s' % (g.__name__, e))
            report[g.__name__] = {'error': str(e)}
    if errs:
        raise TieError('; '.join(errs))
    return report


# generators live in tools/genmods/<name>.py (auto-discovered); each defines functions decorated
# with @gen.generator that call gen.read(...) and gen.write_if_changed('GenX.v', text)
def _discover():
    import importlib
    import glob as _g
    import sys as _s
    here = os.path.dirname(os.path.abspath(__file__))
    _s.modules.setdefault('gen', _s.modules[__name__])
    for f in sorted(_g.glob(here + '/genmods/*.py')):
        name = os.path.basename(f)[:-3]
        if name != '__init__':
            importlib.import_module('genmods.' + name)


_discover()
