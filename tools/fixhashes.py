#!/usr/bin/env python3
# rewrite the commit hashes of `fixed:` lines in KNOWN_FINDINGS.txt to the hashes on /repo's main
# branch (fix commits were cherry-picked with -x from per-property work branches)
import re, subprocess
log = subprocess.run(['git', '-C', '/repo', 'log', '--format=%h%x00%B%x01'], stdout=subprocess.PIPE, text=True).stdout
m = {}
main = set()
for ent in log.split('\x01'):
    if '\x00' not in ent: continue
    h, body = ent.strip().split('\x00', 1)
    main.add(h)
    for x in re.findall(r'cherry picked from commit ([0-9a-f]{7,40})', body):
        m[x[:7]] = h
lines = open('/verif/KNOWN_FINDINGS.txt').read().split('\n')
out = []
for l in lines:
    mm = re.match(r'(fixed: property=\S+ )([0-9a-f]{7,12})( .*)', l)
    if mm and mm.group(2)[:7] in m:
        l = mm.group(1) + m[mm.group(2)[:7]] + mm.group(3)
    elif mm and not any(h.startswith(mm.group(2)[:7]) for h in main):
        print('UNMAPPED', l[:80])
    out.append(l)
open('/verif/KNOWN_FINDINGS.txt', 'w').write('\n'.join(out))
