# tools/vlib.py — shared machinery of tools/check (see DESIGN.md section 2.5)
import glob
import hashlib
import json
import os
import re
import subprocess
import sys
import time

V = os.environ.get('VERIF_ROOT', '/verif')
REPO = os.environ.get('VERIF_REPO', '/repo')
BUILD = V + '/_build'
COQ = V + '/coq'

ALLOWED_AXIOMS = {
    # standard-library axioms that may appear under Print Assumptions (named in DESIGN.md section 4)
    'functional_extensionality_dep', 'FunctionalExtensionality.functional_extensionality_dep',
    'Eqdep.Eq_rect_eq.eq_rect_eq', 'eq_rect_eq', 'Classical_Prop.classic', 'classic',
    'proof_irrelevance', 'ProofIrrelevance.proof_irrelevance', 'JMeq_eq', 'JMeq.JMeq_eq',
    'propositional_extensionality',
}

FORBIDDEN = re.compile(
    r'\b(Admitted|admit|Axiom|Axioms|Parameter|Parameters|Conjecture|Admit\s+Obligations|bypass_check)\b'
    r'|Unset\s+Guard|Unset\s+Positivity|Unset\s+Universe\s+Checking|-type-in-type|-impredicative-set')


def sh(cmd, timeout=None, cwd=None, env=None, input=None):
    """run a shell command, return (rc, stdout+stderr)"""
    e = dict(os.environ)
    if env:
        e.update(env)
    try:
        p = subprocess.run(cmd, shell=isinstance(cmd, str), cwd=cwd, env=e, input=input,
                           stdout=subprocess.PIPE, stderr=subprocess.STDOUT, timeout=timeout, text=True)
        return p.returncode, p.stdout
    except subprocess.TimeoutExpired as ex:
        out = ex.stdout or ''
        if isinstance(out, bytes):
            out = out.decode(errors='replace')
        return 124, out + '\n[timeout after %ss]' % timeout


class Hit:
    """something a check found.
    kind: 'monitor'  — the property itself fails on the implementation (concrete replay)
          'model'    — the property's monitor fails on the model for a concrete input
          'corr'     — model and implementation disagree on a concrete case
          'proof'    — a proof obligation no longer checks
          'tie'      — translator / build of the tie failed
    """

    def __init__(self, kind, signature, detail, replay=None):
        self.kind = kind
        self.signature = signature
        self.detail = detail
        self.replay = replay or {}


class Result:
    def __init__(self):
        self.evaluations = 0
        self.nontrivial_keys = set()
        self.rule = ''
        self.samples = []
        self.traces = 0
        self.hits = []
        self.dist = {}
        self.notes = []
        self.extra = {}

    def count(self, key, n=1):
        self.dist[key] = self.dist.get(key, 0) + n

    def nontrivial(self, key):
        self.nontrivial_keys.add(hashlib.sha1(key.encode()).hexdigest()[:16] if len(key) > 40 else key)

    def sample(self, s, cap=6):
        if len(self.samples) < cap:
            self.samples.append(s)


class Ctx:
    def __init__(self, prop, tier, seed, replay=None):
        self.prop = prop
        self.tier = tier
        self.seed = seed
        self.replay = replay
        self.t0 = time.time()
        self.logf = open('%s/check_%s.log' % (BUILD, prop), 'w')

    def log(self, *a):
        msg = ' '.join(str(x) for x in a)
        self.logf.write(msg + '\n')
        self.logf.flush()

    def say(self, *a):
        msg = ' '.join(str(x) for x in a)
        print(msg, flush=True)
        self.log(msg)

    # ---------------------------------------------------------------- builds
    def incflags(self, variant='pika'):
        b = '%s/%s' % (BUILD, variant)
        inc = []
        for d in sorted(glob.glob(REPO + '/libs/pika/*/include')) + sorted(glob.glob(b + '/libs/pika/*/include')):
            inc.append('-I' + d)
        inc.append('-I' + b)
        inc.append('-I' + V + '/harness')
        return inc

    def build_pika(self, variant='std'):
        rc, out = sh([V + '/tools/buildpika'] + ([variant] if variant != 'std' else []), timeout=1500)
        self.log(out)
        if rc != 0:
            raise TieError('libpika does not build from /repo with -DPIKA_VERIF: ' + out[-2000:])

    def build_harness(self, name, src, extra=(), variant='pika', link_pika=True, opt='-O1'):
        """compile harness/<src> into _build/<name>; recompiled when any dependency changed"""
        out = '%s/%s' % (BUILD, name)
        dep = out + '.d'
        stale = True
        if os.path.exists(out) and os.path.exists(dep):
            stale = False
            mt = os.path.getmtime(out)
            try:
                txt = open(dep).read().replace('\\\n', ' ')
                deps = txt.split(':', 1)[1].split()
                for d in deps:
                    if not os.path.exists(d) or os.path.getmtime(d) > mt:
                        stale = True
                        break
            except Exception:
                stale = True
            lib = '%s/%s/lib/libpika.so' % (BUILD, variant)
            if link_pika and os.path.exists(lib) and os.path.getmtime(lib) > mt:
                stale = True
        if not stale:
            return out
        cmd = ['g++', '-std=c++20', opt, '-g', '-DPIKA_VERIF', '-Wno-deprecated-declarations', '-MMD', '-MF', dep] \
            + self.incflags(variant) + list(extra) + [V + '/harness/' + src, '-o', out]
        if link_pika:
            cmd += ['-L', '%s/%s/lib' % (BUILD, variant), '-lpika', '-Wl,-rpath,%s/%s/lib' % (BUILD, variant),
                    '-lfmt', '-lhwloc']
        cmd += ['-lpthread', '-latomic']
        rc, o = sh(cmd, timeout=900)
        self.log(' '.join(cmd[:6]), '...', src, 'rc', rc)
        if rc != 0:
            self.log(o)
            if os.path.exists(out):
                os.remove(out)
            raise TieError('harness %s does not compile against /repo: %s' % (src, o[-3000:]))
        return out

    def build_model(self, prop, extract_v, driver_ml):
        """extract the Coq model (coq/Extract/<extract_v>) and build the OCaml driver"""
        d = '%s/ocaml/%s' % (BUILD, prop.lower())
        os.makedirs(d, exist_ok=True)
        rc, o = sh(['timeout', '300', 'coqc', '-Q', COQ, 'Pika', '-o', d + '/' + extract_v.replace('.v', '.vo'), '%s/Extract/%s' % (COQ, extract_v)],
                   cwd=d)
        self.log('extract', extract_v, rc, o[-2000:])
        if rc != 0:
            raise TieError('extraction of %s failed (model does not compile): %s' % (extract_v, o[-2000:]))
        with open(d + '/drv.ml', 'w') as f:
            f.write('open M\n')
            f.write(open(V + '/ocaml/conv.ml.in').read())
            f.write(open(V + '/ocaml/' + driver_ml).read())
        rc, o = sh(['ocamlfind', 'ocamlopt', '-w', '-a', '-O3', 'm.mli', 'm.ml', 'drv.ml', '-o', 'drv'], cwd=d, timeout=600)
        if rc != 0:
            rc, o = sh(['ocamlfind', 'ocamlopt', '-w', '-a', 'm.mli', 'm.ml', 'drv.ml', '-o', 'drv'], cwd=d, timeout=600)
        self.log('ocamlopt', rc, o[-2000:])
        if rc != 0:
            raise TieError('OCaml driver %s does not build: %s' % (driver_ml, o[-2000:]))
        return d + '/drv'


class TieError(Exception):
    pass


# -------------------------------------------------------------------- Coq side
def strip_comments(src):
    out = []
    depth = 0
    i = 0
    n = len(src)
    while i < n:
        if src.startswith('(*', i):
            depth += 1
            i += 2
        elif src.startswith('*)', i) and depth > 0:
            depth -= 1
            i += 2
        else:
            if depth == 0:
                out.append(src[i])
            elif src[i] == '\n':
                out.append('\n')
            i += 1
    return ''.join(out)


def forbidden_tokens():
    bad = []
    for f in sorted(glob.glob(COQ + '/**/*.v', recursive=True)):
        src = strip_comments(open(f).read())
        for ln, line in enumerate(src.split('\n'), 1):
            m = FORBIDDEN.search(line)
            if m:
                bad.append('%s:%d: %s' % (os.path.relpath(f, V), ln, m.group(0)))
    rc, o = sh("grep -n 'type-in-type\\|impredicative-set\\|-vos\\|-vok' %s/_CoqProject" % COQ)
    if rc == 0 and o.strip():
        bad.append('_CoqProject: ' + o.strip())
    return bad


def coq_project():
    """_CoqProject is derived from the tree: every .v under Base Gen Model Proofs Props"""
    files = []
    for d in ('Base', 'Gen', 'Model', 'Proofs', 'Props'):
        files += sorted(os.path.relpath(f, COQ) for f in glob.glob('%s/%s/*.v' % (COQ, d)))
    txt = '-Q . Pika\n' + '\n'.join(files) + '\n'
    p = COQ + '/_CoqProject'
    old = open(p).read() if os.path.exists(p) else None
    if old != txt:
        open(p, 'w').write(txt)
    if old != txt or not os.path.exists(COQ + '/Makefile'):
        sh('coq_makefile -f _CoqProject -o Makefile', cwd=COQ)


def coq_make(ctx, target_vo):
    """full .vo build of everything <target_vo> depends on (never -vos)"""
    coq_project()
    lock = BUILD + '/.coq.lock'
    rc, o = sh('flock %s timeout 1500 make -k -j16 %s 2>&1' % (lock, target_vo), cwd=COQ, timeout=1600)
    ctx.log('make', target_vo, 'rc', rc)
    ctx.log(o[-6000:])
    return rc, o


def coq_props(ctx, prop):
    """Build Props/Properties_<prop>.vo; returns dict with obligations/discharged/theorems/errors."""
    pf = 'Props/Properties_%s.v' % prop
    src = strip_comments(open('%s/%s' % (COQ, pf)).read())
    thms = re.findall(r'^\s*(?:Theorem|Lemma|Corollary)\s+([A-Za-z0-9_\']+)', src, re.M)
    printed = re.findall(r'Print\s+Assumptions\s+([A-Za-z0-9_\']+)\s*\.', src)
    res = {'file': pf, 'theorems': thms, 'obligations': len(thms), 'discharged': 0, 'assumptions': {},
           'errors': [], 'undischarged': []}
    for t in thms:
        if t not in printed:
            res['errors'].append('theorem %s has no Print Assumptions' % t)
    # only `exact <lemma>` proofs are allowed in Props files
    bodies = re.findall(r'Proof\.(.*?)Qed\.', src, re.S)
    # dependencies first
    rc, o = coq_make(ctx, pf.replace('.v', '.vo'))
    # now compile the Props file itself again to capture the Print Assumptions output
    rc2, out = sh(['timeout', '600', 'coqc', '-Q', '.', 'Pika', pf], cwd=COQ)
    ctx.log('coqc', pf, 'rc', rc2)
    ctx.log(out[-4000:])
    # parse the Print Assumptions blocks, in order
    blocks = []
    cur = None
    for line in out.split('\n'):
        if line.startswith('Closed under the global context'):
            blocks.append([])
            cur = None
        elif line.startswith('Axioms:'):
            cur = []
            blocks.append(cur)
        elif cur is not None:
            m = re.match(r'^([A-Za-z_][A-Za-z0-9_\.\']*)\s*:', line)
            if m:
                cur.append(m.group(1))
            elif line.startswith('File ') or line.startswith('Error'):
                cur = None
    for i, t in enumerate(printed):
        if i < len(blocks):
            ax = blocks[i]
            res['assumptions'][t] = ax
            if all(a in ALLOWED_AXIOMS or a.split('.')[-1] in ALLOWED_AXIOMS for a in ax):
                if t in thms:
                    res['discharged'] += 1
            else:
                res['undischarged'].append(t)
                res['errors'].append('theorem %s depends on non-standard axioms: %s' % (t, ax))
        else:
            if t in thms:
                res['undischarged'].append(t)
    if rc2 != 0:
        m = re.search(r'File "([^"]+)", line (\d+)[^\n]*\n(?:.*\n)*?Error:?\s*(.*(?:\n.*){0,4})', out)
        first_err = None
        # prefer the first error of the make output (the root cause is usually in Proofs/)
        m2 = re.search(r'File "([^"]+)", line (\d+)[^\n]*\nError:?\s*((?:.*\n){0,5})', o)
        if m2:
            first_err = '%s:%s: %s' % (m2.group(1), m2.group(2), ' '.join(m2.group(3).split())[:400])
        elif m:
            first_err = '%s:%s: %s' % (m.group(1), m.group(2), ' '.join(m.group(3).split())[:400])
        res['errors'].append('coqc failed: ' + (first_err or out[-600:]))
    bad = forbidden_tokens()
    if bad:
        res['errors'].append('forbidden tokens: ' + '; '.join(bad[:10]))
        res['discharged'] = 0
    res['ok'] = (rc2 == 0 and not res['errors'] and res['discharged'] == res['obligations'] and res['obligations'] > 0)
    return res


# -------------------------------------------------------------------- known findings
def known_findings(prop):
    kf = {}
    p = V + '/KNOWN_FINDINGS.txt'
    if os.path.exists(p):
        for line in open(p):
            line = line.strip()
            m = re.match(r'finding:\s+property=(\S+)\s+key=(\S+)\s+(.*)', line)
            if m and m.group(1) == prop:
                kf[m.group(2)] = m.group(3)
    return kf


def diff_lines(ctx, impl_lines, model_lines, keyidx=2):
    """compare 'OUT <KIND> <id> ...' lines of implementation and model by (kind,id)"""
    def index(lines):
        d = {}
        for ln in lines:
            p = ln.split(' ', keyidx + 1)
            if len(p) > keyidx and p[0] == 'OUT':
                d[(p[1], p[2])] = ln
        return d
    a = index(impl_lines)
    b = index(model_lines)
    diffs = []
    for k in a:
        if k not in b:
            diffs.append((k, a[k], '<model produced no line>'))
        elif a[k] != b[k]:
            diffs.append((k, a[k], b[k]))
    for k in b:
        if k not in a:
            diffs.append((k, '<implementation produced no line>', b[k]))
    return diffs, len(a)
