#!/usr/bin/env python3
# tools/skeleton.py — source-skeleton tie (DESIGN.md section 2.3a').
#
# Every hand-written model was transcribed from particular functions of the anchored files.
# This translator reduces each anchored source file to its *synchronisation skeleton*: the ordered
# stream of control keywords, operators, literals, called names and accessed member names, with
# comments, formatting, local variable names, logging/assertion statements and PIKA_VERIF blocks
# removed.  The skeleton the models were written against is committed (tools/skeletons/<id>.json);
# on every run it is regenerated from /repo's working tree and compared.  A difference means the
# code the model transcribes has changed shape (reordered steps, `while` -> `if`, exchange ->
# load+store, changed comparison, dropped notify ...): the tie is reported broken, the check then
# relies on its failing-input search and otherwise reports `no-failing-input-found`.
#
#   tools/skeleton.py --update [Cnn ...]    rewrite the expected skeletons from the current tree
import difflib
import json
import os
import re
import sys

V = os.environ.get('VERIF_ROOT', '/verif')
REPO = os.environ.get('VERIF_REPO', '/repo')

KEYWORDS = {'if', 'else', 'while', 'for', 'do', 'return', 'break', 'continue', 'switch', 'case', 'default', 'throw',
            'try', 'catch', 'goto', 'noexcept', 'constexpr', 'const', 'static', 'virtual', 'override', 'delete',
            'new', 'true', 'false', 'nullptr', 'this', 'sizeof', 'co_await', 'co_return'}
DROP_STATEMENT = re.compile(r'^\s*(PIKA_ASSERT|PIKA_ASSERT_MSG|PIKA_LOG|PIKA_DETAIL_DP|PIKA_UNUSED|LTM_|LTS_|LBT_|'
                            r'PIKA_ITT_|PIKA_ASSERT_LOCKED|PIKA_ASSERT_OWNS_LOCK)\b')
TOKEN = re.compile(r'''
    (?P<str>"(?:\\.|[^"\\])*"|'(?:\\.|[^'\\])*')
  | (?P<num>\b(?:0[xX][0-9a-fA-F']+|\d[\d']*(?:\.\d+)?)(?:[uUlLfF]*)\b)
  | (?P<id>[A-Za-z_][A-Za-z0-9_]*)
  | (?P<op>->\*|->|<=>|<<=|>>=|\+\+|--|<<|>>|<=|>=|==|!=|&&|\|\||\+=|-=|\*=|/=|%=|&=|\|=|\^=|::|[-+*/%<>=!&|^~?:;,.(){}\[\]])
''', re.X)


def strip_comments(src):
    out = []
    i, n = 0, len(src)
    while i < n:
        c = src[i]
        if src.startswith('//', i):
            j = src.find('\n', i)
            i = n if j < 0 else j
        elif src.startswith('/*', i):
            j = src.find('*/', i + 2)
            seg = src[i:(n if j < 0 else j + 2)]
            out.append('\n' * seg.count('\n'))
            i = n if j < 0 else j + 2
        elif c == '"' or c == "'":
            j = i + 1
            while j < n and src[j] != c:
                if src[j] == '\\':
                    j += 1
                if src[j] == '\n':
                    break
                j += 1
            out.append(src[i:j + 1])
            i = j + 1
        else:
            out.append(c)
            i += 1
    return ''.join(out)


def strip_verif_blocks(lines):
    """remove `#if defined(PIKA_VERIF)` branches, keep their `#else` branch; keeps line numbering"""
    out = []
    stack = []   # entries: ['verif'|'other', in_else]
    for ln in lines:
        s = ln.strip()
        if s.startswith('#'):
            d = s[1:].strip()
            if d.startswith('if'):
                if re.match(r'if\s+defined\s*\(\s*PIKA_VERIF\s*\)\s*$', d) or re.match(r'ifdef\s+PIKA_VERIF\s*$', d):
                    stack.append(['verif', False])
                    out.append('')
                    continue
                stack.append(['other', False])
            elif d.startswith('else') and stack and stack[-1][0] == 'verif':
                stack[-1][1] = True
                out.append('')
                continue
            elif d.startswith('endif') and stack:
                top = stack.pop()
                if top[0] == 'verif':
                    out.append('')
                    continue
        if any(k == 'verif' and not in_else for k, in_else in stack):
            out.append('')
        else:
            out.append(ln)
    return out


def drop_statements(lines):
    """drop logging / assertion statements (possibly spanning several lines, up to the closing ';')"""
    out = []
    skipping = False
    depth = 0
    for ln in lines:
        if not skipping and DROP_STATEMENT.match(ln):
            skipping = True
            depth = 0
        if skipping:
            depth += ln.count('(') - ln.count(')')
            if depth <= 0 and ';' in ln:
                skipping = False
            out.append('')
        else:
            out.append(ln)
    return out


def skeleton(text):
    """-> list of (token, line)"""
    lines = strip_comments(text).split('\n')
    lines = strip_verif_blocks(lines)
    lines = drop_statements(lines)
    toks = []
    for lineno, ln in enumerate(lines, 1):
        s = ln.strip()
        if s.startswith('#'):
            if re.match(r'#\s*(if|ifdef|ifndef|elif|else|endif)\b', s):
                toks.append(('#' + re.sub(r'\s+', ' ', s[1:].strip()), lineno))
            continue
        for m in TOKEN.finditer(ln):
            toks.append((m.lastgroup, m.group(0), lineno, m.end(), ln))
    # second pass: classify identifiers
    out = []
    names = {}
    seq = [t for t in toks]
    for i, t in enumerate(seq):
        if len(t) == 2:
            out.append(t)
            continue
        kind, val, lineno, end, ln = t
        if kind == 'str':
            out.append(('"s"', lineno))
        elif kind == 'num':
            out.append((val.replace("'", ''), lineno))
        elif kind == 'op':
            if val in '{};,':     # braces/semicolons/commas are formatting-level: `if (x) y;` vs `if (x) { y; }`
                continue
            out.append((val, lineno))
        else:
            if val in KEYWORDS:
                out.append((val, lineno))
                continue
            nxt = seq[i + 1] if i + 1 < len(seq) else None
            prv = seq[i - 1] if i > 0 else None
            is_call = nxt is not None and len(nxt) == 5 and nxt[1] == '('
            is_member = prv is not None and len(prv) == 5 and prv[1] in ('.', '->')
            is_scoped = prv is not None and len(prv) == 5 and prv[1] == '::'
            is_tmpl_call = nxt is not None and len(nxt) == 5 and nxt[1] == '<' and re.search(
                r'(compare_exchange|exchange|load|store|fetch_|memory_order|lock|wait|notify|emplace|get|visit|forward|move)', val)
            if is_call or is_member or is_scoped or is_tmpl_call:
                out.append((val, lineno))
            else:
                # every other identifier (local variable, parameter, type name) is kept up to
                # alpha-equivalence: it becomes v<k>, k = order of first appearance in the file.  A
                # consistent rename changes nothing; using a different variable at one site
                # (`old_state.state_ex()` for `current_state.state_ex()`, `default_threads` for
                # `init_cores`) changes the stream.
                k = names.get(val)
                if k is None:
                    k = names[val] = len(names)
                out.append(('v%d' % k, lineno))
    return out


def files_of(prop):
    for l in open(V + '/properties.jsonl'):
        p = json.loads(l)
        if p['id'] == prop:
            extra = []
            f = '%s/tools/props/%s.json' % (V, prop.lower())
            if os.path.exists(f):
                extra = json.load(open(f)).get('skeleton_extra_files', [])
                skip = set(json.load(open(f)).get('skeleton_skip_files', []))
            else:
                skip = set()
            return [x for x in p['anchors']['files'] + extra if x not in skip]
    return []


def expected_path(prop):
    return '%s/tools/skeletons/%s.json' % (V, prop.lower())


def current(prop):
    res = {}
    for rel in files_of(prop):
        p = os.path.join(REPO, rel)
        if not os.path.exists(p):
            res[rel] = None
            continue
        sk = skeleton(open(p, errors='replace').read())
        res[rel] = sk
    return res


def update(prop):
    cur = current(prop)
    os.makedirs(V + '/tools/skeletons', exist_ok=True)
    data = {rel: (None if sk is None else [t for t, _ in sk]) for rel, sk in cur.items()}
    json.dump(data, open(expected_path(prop), 'w'))
    return {rel: (0 if sk is None else len(sk)) for rel, sk in cur.items()}


def compare(prop):
    """-> (report, diffs); diffs: list of dict(file, line, expected, got)"""
    ep = expected_path(prop)
    if not os.path.exists(ep):
        return {'status': 'no expected skeleton committed'}, []
    exp = json.load(open(ep))
    cur = current(prop)
    diffs = []
    ntok = 0
    for rel, etoks in exp.items():
        sk = cur.get(rel)
        if sk is None:
            if etoks is not None:
                diffs.append({'file': rel, 'line': 0, 'expected': 'file present', 'got': 'file missing'})
            continue
        ctoks = [t for t, _ in sk]
        ntok += len(ctoks)
        if etoks == ctoks:
            continue
        sm = difflib.SequenceMatcher(a=etoks or [], b=ctoks, autojunk=False)
        for tag, i1, i2, j1, j2 in sm.get_opcodes():
            if tag == 'equal':
                continue
            line = sk[min(j1, len(sk) - 1)][1] if sk else 0
            ctx_lo = max(0, j1 - 6)
            diffs.append({'file': rel, 'line': line,
                          'expected': ' '.join((etoks or [])[max(0, i1 - 6):i2 + 4]),
                          'got': ' '.join(ctoks[ctx_lo:j2 + 4])})
            if len(diffs) > 12:
                break
    return {'files': len(exp), 'tokens': ntok, 'differences': len(diffs)}, diffs


if __name__ == '__main__':
    args = sys.argv[1:]
    if args and args[0] == '--update':
        props = args[1:] or [json.loads(l)['id'] for l in open(V + '/properties.jsonl')]
        for p in props:
            print(p, update(p))
    elif args:
        rep, d = compare(args[0])
        print(rep)
        for x in d:
            print(json.dumps(x)[:400])
