# tools/genmods/c09.py — C09 translator: constants the C09 proofs depend on, re-read from the
# source on every run: barrier ticket array size and phase width (barrier.hpp), the phase
# increments used by barrier.cpp / barrier.hpp, call_once status constants (once.hpp).
import re

import gen
from vlib import TieError

BARRIER_HPP = 'libs/pika/synchronization/include/pika/synchronization/barrier.hpp'
BARRIER_CPP = 'libs/pika/synchronization/src/barrier.cpp'
ONCE_HPP = 'libs/pika/synchronization/include/pika/synchronization/once.hpp'

WIDTH = {'std::uint8_t': 8, 'std::uint16_t': 16, 'std::uint32_t': 32, 'std::uint64_t': 64,
         'unsigned char': 8}


def need(m, what):
    if not m:
        raise TieError('C09 translator: cannot find ' + what)
    return m


# ---- shape of the three ticket claims of barrier_algorithm_base::arrive -----------------------------------------
# The claims are the branches of ONE if / else-if chain inside the scan loop:
#   if (current == last_node && (current_expected & 1)) { <claim old -> full: "1 in 1"> }
#   else if (<claim old -> half: "1 in 2">) { return false; }
#   else if (expect == half_step) { <claim half -> full: "2 in 2"> }
# Each claim must be ONE atomic read-modify-write (compare_exchange_strong) for the model's step to be one step; a
# claim written as a separate load (or a comparison with a value read earlier) and store is a different algorithm
# (two arrivals can both win the ticket).  The flags go to coq/Gen/GenBarrier.v and select the step shape of
# Model/BarrierTree.v (treex_step); the proofs go through only for compare_exchange.
def _strip(c):
    c = re.sub(r'//[^\n]*', '', c)
    c = re.sub(r'/\*.*?\*/', '', c, flags=re.S)
    # hook lines are add-only and guarded: drop every PIKA_VERIF block and other preprocessor lines
    c = re.sub(r'#\s*if\s+defined\(PIKA_VERIF\).*?#\s*endif', '', c, flags=re.S)
    c = re.sub(r'^\s*#[^\n]*$', '', c, flags=re.M)
    return c


def _match(c, i, op, cl):
    """c[i] == op: index just behind the matching cl"""
    assert c[i] == op
    d = 0
    for j in range(i, len(c)):
        if c[j] == op:
            d += 1
        elif c[j] == cl:
            d -= 1
            if d == 0:
                return j + 1
    raise TieError('C09 translator: unbalanced %s in barrier_algorithm_base::arrive' % op)


def _skip_ws(c, i):
    while i < len(c) and c[i].isspace():
        i += 1
    return i


def _statement(c, i):
    """one statement starting at c[i]: a block or everything up to the next ';' at depth 0"""
    i = _skip_ws(c, i)
    if c[i] == '{':
        return _match(c, i, '{', '}')
    d = 0
    for j in range(i, len(c)):
        if c[j] in '({':
            d += 1
        elif c[j] in ')}':
            d -= 1
        elif c[j] == ';' and d == 0:
            return j + 1
    raise TieError('C09 translator: statement without end in barrier_algorithm_base::arrive')


def claim_branches(c):
    c = _strip(c)
    m = need(re.search(r'bool\s+barrier_algorithm_base::arrive\s*\(', c), 'barrier_algorithm_base::arrive')
    b0 = c.index('{', _match(c, m.end() - 1, '(', ')'))
    body = c[b0:_match(c, b0, '{', '}')]
    heads = [x for x in re.finditer(r'\bif\s*\(\s*current\s*==\s*last_node\b', body)]
    if len(heads) != 1:
        raise TieError('C09 translator: expected exactly one `if (current == last_node && ...)` ticket-claim chain in arrive(), found %d' % len(heads))
    i = body.index('(', heads[0].start())
    branches = []
    while True:
        e = _match(body, i, '(', ')')
        cond = body[i:e]
        s_end = _statement(body, e)
        branches.append((cond, body[e:s_end]))
        j = _skip_ws(body, s_end)
        if not body.startswith('else', j):
            break
        j = _skip_ws(body, j + 4)
        if not re.match(r'if\b', body[j:]):
            raise TieError('C09 translator: the ticket-claim chain of arrive() has a plain `else` branch (unknown shape)')
        i = _skip_ws(body, j + 2)
        if body[i] != '(':
            raise TieError('C09 translator: malformed else-if in the ticket-claim chain')
    if len(branches) != 3:
        raise TieError('C09 translator: the ticket-claim chain of arrive() has %d branches, the model has 3 (1 in 1, 1 in 2, 2 in 2)' % len(branches))
    if not re.search(r'current_expected\s*&\s*1', branches[0][0]):
        raise TieError('C09 translator: first branch of the ticket-claim chain is not the odd-last-node test')
    return branches


def claim_shape(text, target, what):
    """True: one compare_exchange_strong(..., <target>, ...) and no plain store; False: no compare_exchange, a store of
    <target> (after a load / a comparison); anything else: TieError"""
    cas = re.findall(r'\.\s*compare_exchange_(strong|weak)\s*\(\s*([A-Za-z_0-9]+)\s*,\s*([A-Za-z_0-9]+)', text)
    stores = re.findall(r'\.\s*store\s*\(\s*([A-Za-z_0-9]+)', text) + re.findall(r'[^=!<>]=\s*(half_step|full_step)\s*;', text)
    rmw = re.findall(r'\.\s*(exchange|fetch_add|fetch_sub|fetch_or|fetch_and|fetch_xor)\s*\(', text)
    if len(cas) == 1 and cas[0][0] == 'strong' and cas[0][2] == target and not stores and not rmw:
        return True
    if not cas and not rmw and len(stores) == 1 and stores[0] == target:
        return False
    raise TieError('C09 translator: ticket claim "%s" has an unknown shape (compare_exchange: %s, stores: %s, other RMW: %s); the model knows '
                   'compare_exchange_strong(expect, %s) and load; store(%s)' % (what, cas, stores, rmw, target, target))


def claim_flags(c):
    br = claim_branches(c)
    last = claim_shape(br[0][0] + br[0][1], 'full_step', 'old -> full on the unpaired last node (1 in 1)')
    first = claim_shape(br[1][0] + br[1][1], 'half_step', 'old -> half (1 in 2)')
    if not re.search(r'==\s*half_step', br[2][0]):
        raise TieError('C09 translator: third branch of the ticket-claim chain does not test for half_step')
    second = claim_shape(br[2][0] + br[2][1], 'full_step', 'half -> full (2 in 2)')
    return last, first, second


@gen.generator
def gen_barrier():
    h = gen.read(BARRIER_HPP)
    c = gen.read(BARRIER_CPP)
    ty = need(re.search(r'using\s+barrier_phase_t\s*=\s*([A-Za-z_:0-9 ]+?)\s*;', h), 'barrier_phase_t').group(1)
    if ty not in WIDTH:
        raise TieError('C09 translator: unknown phase type ' + ty)
    slots = int(need(re.search(r'\}\s*tickets\s*\[\s*(\d+)\s*\]\s*;', h), 'tickets[N]').group(1))
    init = int(need(re.search(r'std::atomic<detail::barrier_phase_t>\s+phase\s*\{\s*(\d+)\s*\}', h), 'ticket initial value').group(1))
    half = int(need(re.search(r'half_step\s*=\s*old_phase\s*\+\s*(\d+)', c), 'half_step').group(1))
    full = int(need(re.search(r'full_step\s*=\s*old_phase\s*\+\s*(\d+)', c), 'full_step').group(1))
    pub = int(need(re.search(r'phase\.store\(\s*old_phase\s*\+\s*(\d+)', h), 'phase.store(old_phase + k)').group(1))
    phase0 = int(need(re.search(r',\s*phase\((\d+)\)', h), 'barrier phase initial value').group(1))
    need(re.search(r'count\s*=\s*\(expected\s*\+\s*1\)\s*>>\s*1', c), 'state array size (expected + 1) >> 1')
    c_last, c_first, c_second = claim_flags(c)
    cb = lambda b: 'true' if b else 'false'
    txt = ('(* GENERATED by tools/genmods/c09.py from %s and %s - do not edit *)\n'
           'From Coq Require Import NArith.\n'
           'Definition phase_bits : N := %d%%N.\n'
           'Definition ticket_slots : nat := %d.\n'
           'Definition ticket_init : N := %d%%N.\n'
           'Definition half_inc : N := %d%%N.\n'
           'Definition full_inc : N := %d%%N.\n'
           'Definition publish_inc : N := %d%%N.\n'
           'Definition phase_init : N := %d%%N.\n'
           '(* ticket claims of barrier_algorithm_base::arrive: true = one compare_exchange_strong, false = load; store *)\n'
           'Definition claim_last_is_cas : bool := %s.\n'
           'Definition claim_first_is_cas : bool := %s.\n'
           'Definition claim_second_is_cas : bool := %s.\n') % (BARRIER_HPP, BARRIER_CPP, WIDTH[ty], slots, init, half, full, pub, phase0,
                                                                  cb(c_last), cb(c_first), cb(c_second))
    gen.write_if_changed('GenBarrier.v', txt)
    return {'phase_bits': WIDTH[ty], 'ticket_slots': slots, 'half_inc': half, 'full_inc': full, 'publish_inc': pub,
            'claim_last_is_cas': c_last, 'claim_first_is_cas': c_first, 'claim_second_is_cas': c_second}


@gen.generator
def gen_once():
    s = gen.read(ONCE_HPP)
    comp = need(re.search(r'function_complete_flag_value\s*=\s*0x([0-9a-fA-F\']+)\s*;', s), 'function_complete_flag_value').group(1).replace("'", '')
    runv = need(re.search(r'running_value\s*=\s*0x([0-9a-fA-F\']+)\s*;', s), 'running_value').group(1).replace("'", '')
    init = int(need(re.search(r':\s*status_\((\d+)\)', s), 'status_ initial value').group(1))
    idle = int(need(re.search(r'long\s+status\s*=\s*(\d+)\s*;', s), 'CAS expected value').group(1))
    rst = int(need(re.search(r'catch\s*\(\.\.\.\)\s*\{[^}]*?status_\.store\((\d+)\)', s, re.S), 'status reset after throw').group(1))
    txt = ('(* GENERATED by tools/genmods/c09.py from %s - do not edit *)\n'
           'From Coq Require Import NArith.\n'
           'Definition once_complete : N := %d%%N.\n'
           'Definition once_running : N := %d%%N.\n'
           'Definition once_init : N := %d%%N.\n'
           'Definition once_cas_expected : N := %d%%N.\n'
           'Definition once_after_throw : N := %d%%N.\n') % (ONCE_HPP, int(comp, 16), int(runv, 16), init, idle, rst)
    gen.write_if_changed('GenOnce.v', txt)
    return {'complete': comp, 'running': runv, 'init': init, 'after_throw': rst}
