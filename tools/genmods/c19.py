# tools/genmods/c19.py — translator pieces for C19 (suspend/resume of pools and processing units).
# Regenerates coq/Gen/GenRuntimeState.v from $VERIF_REPO on every run:
#   * the `runtime_state` enumerators in declaration order with their numeric values (the code compares
#     them with <= and <), as an inductive type + order function;
#   * the runtime_state constants the suspend/resume protocol is written with (which state a worker must be
#     below to count as running, which state select_active_pu accepts first and how it escalates, the CAS
#     source/target of suspend, what the worker stores before sleeping, what the callers wait on);
#   * for suspend_processing_unit_direct: whether every PIKA_THROWS_IF refusal is followed by `return;`.
# Model/SuspendResume.v is written against these names only, so a change of any of them in the source changes
# the model that the theorems are about (and that the correspondence harness is compared with).
import re

import gen
from vlib import TieError

STATE_H = 'libs/pika/threading_base/include/pika/threading_base/scheduler_state.hpp'
SCHED_BASE = 'libs/pika/threading_base/src/scheduler_base.cpp'
POOL_IMPL = 'libs/pika/thread_pools/include/pika/thread_pools/scheduled_thread_pool_impl.hpp'
LOOP = 'libs/pika/thread_pools/include/pika/thread_pools/scheduling_loop.hpp'


def strip_cxx_comments(s):
    s = re.sub(r'/\*.*?\*/', '', s, flags=re.S)
    return re.sub(r'//[^\n]*', '', s)


def strip_verif(s):
    """remove the PIKA_VERIF hook blocks (they are not part of the protocol)"""
    return re.sub(r'#if defined\(PIKA_VERIF\)\n.*?#endif\n', '', s, flags=re.S)


def function_body(src, header_re, what):
    m = re.search(header_re, src)
    if not m:
        raise TieError('cannot find ' + what)
    i = src.index('{', m.end() - 1)
    depth = 0
    for j in range(i, len(src)):
        if src[j] == '{':
            depth += 1
        elif src[j] == '}':
            depth -= 1
            if depth == 0:
                return src[i:j + 1]
    raise TieError('unbalanced braces in ' + what)


def function_body_tail(body, start_re):
    """text of `body` after the block that follows the match of start_re"""
    m = re.search(start_re, body)
    if not m:
        raise TieError('cannot find /%s/' % start_re)
    i = body.index('{', m.end())
    depth = 0
    for j in range(i, len(body)):
        if body[j] == '{':
            depth += 1
        elif body[j] == '}':
            depth -= 1
            if depth == 0:
                return body[j + 1:]
    raise TieError('unbalanced braces after /%s/' % start_re)


def one(pattern, text, what, flags=re.S):
    m = re.findall(pattern, text, flags)
    if len(m) != 1:
        raise TieError('%s: expected exactly one match of /%s/, found %d' % (what, pattern, len(m)))
    return m[0]


def parse_enum():
    src = strip_cxx_comments(gen.read(STATE_H))
    m = re.search(r'enum\s+class\s+runtime_state\s*:\s*[\w:]+\s*\{(.*?)\}', src, re.S)
    if not m:
        raise TieError('enum class runtime_state not found')
    vals = {}
    order = []
    nxt = 0
    for item in m.group(1).split(','):
        item = item.strip()
        if not item:
            continue
        if '=' in item:
            name, v = [x.strip() for x in item.split('=', 1)]
            if re.fullmatch(r'-?\d+', v):
                val = int(v)
            elif v in vals:
                val = vals[v]
            else:
                raise TieError('cannot evaluate runtime_state enumerator %s = %s' % (name, v))
        else:
            name, val = item, nxt
        alias = val in [vals[n] for n in order]
        vals[name] = val
        nxt = val + 1
        if not alias:
            order.append(name)
    return order, vals


@gen.generator
def gen_runtime_state():
    order, vals = parse_enum()
    for need in ('running', 'suspended', 'pre_sleep', 'sleeping', 'stopping'):
        if need not in order:
            raise TieError('runtime_state::%s missing' % need)
    sb = strip_verif(strip_cxx_comments(gen.read(SCHED_BASE)))
    pool = strip_verif(strip_cxx_comments(gen.read(POOL_IMPL)))
    loop = strip_verif(strip_cxx_comments(gen.read(LOOP)))

    # scheduling loop
    running_below = one(r'bool\s+running\s*=\s*this_state\.load\([^)]*\)\s*<\s*runtime_state::(\w+)\s*;', loop,
                        'scheduling_loop: running flag')
    sleep_if = one(r'if\s*\(this_state\.load\(\)\s*==\s*runtime_state::(\w+)\)\s*\{\s*if\s*\(can_exit\)\s*\{\s*'
                   r'scheduler\.SchedulingPolicy::suspend\(num_thread\);', loop, 'scheduling_loop: sleep decision')
    can_exit = one(r'bool\s+can_exit\s*=\s*(!running\s*&&\s*scheduler\.SchedulingPolicy::cleanup_terminated\(num_thread,\s*true\)\s*&&\s*'
                   r'scheduler\.SchedulingPolicy::get_queue_length\(num_thread\)\s*==\s*0)\s*;', loop,
                   'scheduling_loop: can_exit = !running && cleanup && queue length == 0')
    # scheduler_base::suspend / resume
    sus = function_body(sb, r'void\s+scheduler_base::suspend\(std::size_t\s+num_thread\)\s*\{', 'scheduler_base::suspend')
    sleep_store = one(r'states_\[num_thread\]\.store\(runtime_state::(\w+)\);', sus, 'scheduler_base::suspend store')
    wake = one(r'expected\s*=\s*runtime_state::(\w+);\s*states_\[num_thread\]\.compare_exchange_strong\(expected,\s*runtime_state::(\w+)\);',
               sus, 'scheduler_base::suspend wake CAS')
    if not re.search(r'store\(runtime_state::\w+\);\s*std::unique_lock<pu_mutex_type>\s+l\(suspend_mtxs_\[num_thread\]\);\s*'
                     r'suspend_conds_\[num_thread\]\.wait\(l\);', sus):
        raise TieError('scheduler_base::suspend: store / lock / wait sequence changed')
    res = function_body(sb, r'void\s+scheduler_base::resume\(std::size_t\s+num_thread\)\s*\{', 'scheduler_base::resume')
    notifies = 1 if re.search(r'else\s*\{[^}]*suspend_conds_\[num_thread\]\.notify_one\(\);', res, re.S) else 0
    # select_active_pu
    sel = function_body(sb, r'std::size_t\s+scheduler_base::select_active_pu\(', 'select_active_pu')
    sel_init = one(r'auto\s+max_allowed_state\s*=\s*runtime_state::(\w+);', sel, 'select_active_pu initial max')
    esc = re.findall(r'if\s*\(max_allowed_state\s*<=\s*runtime_state::(\w+)\)\s*\{\s*max_allowed_state\s*=\s*runtime_state::(\w+);', sel)
    if len(esc) != 2:
        raise TieError('select_active_pu: escalation chain changed')
    # fallback walk (allow_fallback == true: re-queueing of a yielding / woken task with its own worker as hint): the
    # comparison operator AND the constant of the acceptance test are regenerated (g_sel_fb_op, g_sel_fallback);
    # Model/SuspendResumeYield.v evaluates the test with them
    sel_fb_op, sel_fb = one(r'l\.owns_lock\(\)\s*&&\s*states_\[num_thread_local\]\s*(<=|<|==|>=|>|!=)\s*runtime_state::(\w+)\)', sel,
                            'select_active_pu fallback acceptance')
    if sel_fb not in order:
        raise TieError('select_active_pu fallback acceptance: unknown runtime_state::%s' % sel_fb)
    fb = function_body_tail(sel, r'if\s*\(\s*!allow_fallback\s*\)')
    if not re.search(r'for\s*\(std::size_t\s+offset\s*=\s*0;\s*offset\s*<\s*states_size;\s*\+\+offset\)\s*\{\s*std::size_t\s+num_thread_local\s*=\s*'
                     r'\(num_thread\s*\+\s*offset\)\s*%\s*states_size;\s*l\s*=\s*std::unique_lock<pu_mutex_type>\(pu_mtxs_\[num_thread_local\],\s*'
                     r'std::try_to_lock\);\s*if\s*\(l\.owns_lock\(\)\s*&&\s*states_\[num_thread_local\]\s*(?:<=|<|==|>=|>|!=)\s*runtime_state::\w+\)\s*'
                     r'\{\s*return\s+num_thread_local;\s*\}\s*\}\s*\}\s*return\s+num_thread;', fb):
        raise TieError('select_active_pu: shape of the fallback walk changed (try every PU once from the hint, accept under the try_lock, else keep the hint)')
    if not re.search(r'if\s*\(l\.owns_lock\(\)\)\s*\{\s*if\s*\(states_\[num_thread_local\]\s*<=\s*max_allowed_state\)', sel):
        raise TieError('select_active_pu: acceptance test under the PU lock changed')
    # suspend_processing_unit_internal / _direct, resume_processing_unit_direct
    spi = function_body(pool, r'void\s+scheduled_thread_pool<Scheduler>::suspend_processing_unit_internal\(', 'suspend_processing_unit_internal')
    cas = one(r'expected\s*=\s*runtime_state::(\w+);\s*state\.compare_exchange_strong\(expected,\s*runtime_state::(\w+)\);\s*l\.unlock\(\);',
              spi, 'suspend_processing_unit_internal CAS under the PU lock')
    spi_wait = one(r'return\s+state\.load\(\)\s*==\s*runtime_state::(\w+);', spi, 'suspend_processing_unit_internal wait')
    rpd = function_body(pool, r'void\s+scheduled_thread_pool<Scheduler>::resume_processing_unit_direct\(', 'resume_processing_unit_direct')
    rpd_wait = one(r'this->sched_->Scheduler::resume\(virt_core\);\s*return\s+state\.load\(\)\s*==\s*runtime_state::(\w+);', rpd,
                   'resume_processing_unit_direct notify-until loop')
    spd = function_body(pool, r'void\s+scheduled_thread_pool<Scheduler>::suspend_processing_unit_direct\(', 'suspend_processing_unit_direct')
    guards = re.findall(r'PIKA_THROWS_IF\([^;]*\);\s*(return;)?', spd)
    if len(guards) != 2:
        raise TieError('suspend_processing_unit_direct: expected two refusals, found %d' % len(guards))
    if not re.search(r'has_scheduler_mode\(scheduler_mode::enable_elasticity\)', spd) or \
            not re.search(r'has_scheduler_mode\(scheduler_mode::enable_stealing\)', spd):
        raise TieError('suspend_processing_unit_direct: refusal conditions changed')
    sd = function_body(pool, r'void\s+scheduled_thread_pool<Scheduler>::suspend_direct\(', 'suspend_direct')
    sd_guard = re.findall(r'PIKA_THROWS_IF\([^;]*\);\s*(return;)?', sd)
    if len(sd_guard) != 1:
        raise TieError('suspend_direct: expected one refusal')
    si = function_body(pool, r'void\s+scheduled_thread_pool<Scheduler>::suspend_internal\(', 'suspend_internal')
    si_cas = one(r'expected\s*=\s*runtime_state::(\w+);\s*sched_->Scheduler::get_state\(i\)\.compare_exchange_strong\(\s*expected,\s*runtime_state::(\w+)\);',
                 si, 'suspend_internal CAS loop')

    def b(x):
        return 'true' if x else 'false'

    L = []
    L.append('(* GENERATED by tools/genmods/c19.py from %s, %s, %s, %s — do not edit *)' % (STATE_H, SCHED_BASE, POOL_IMPL, LOOP))
    L.append('From Coq Require Import NArith List Bool.')
    L.append('Import ListNotations.')
    L.append('Local Open Scope N_scope.')
    L.append('')
    L.append('Inductive rstate := ' + ' | '.join('rs_' + n for n in order) + '.')
    L.append('')
    L.append('(* numeric value of the enumerator (int8_t in the source; invalid = -1 is mapped to 0 and every')
    L.append('   other value is shifted by one, which preserves the order) *)')
    L.append('Definition rs_ord (s : rstate) : N :=')
    L.append('  match s with')
    for n in order:
        L.append('  | rs_%s => %d' % (n, vals[n] + 1))
    L.append('  end.')
    L.append('Definition rs_le (a b : rstate) : bool := rs_ord a <=? rs_ord b.')
    L.append('Definition rs_lt (a b : rstate) : bool := rs_ord a <? rs_ord b.')
    L.append('Definition rs_eqb (a b : rstate) : bool := rs_ord a =? rs_ord b.')
    L.append('Definition rs_all : list rstate := [' + '; '.join('rs_' + n for n in order) + '].')
    L.append('')
    L.append('(* scheduling_loop: running := state < %s; sleeps when state == %s and can_exit *)' % (running_below, sleep_if))
    L.append('Definition g_running_below : rstate := rs_%s.' % running_below)
    L.append('Definition g_sleep_if : rstate := rs_%s.' % sleep_if)
    L.append('(* scheduler_base::suspend: store %s; wait; CAS %s -> %s *)' % (sleep_store, wake[0], wake[1]))
    L.append('Definition g_sleep_store : rstate := rs_%s.' % sleep_store)
    L.append('Definition g_wake_from : rstate := rs_%s.' % wake[0])
    L.append('Definition g_wake_to : rstate := rs_%s.' % wake[1])
    L.append('(* scheduler_base::resume(n) notifies suspend_conds_[n] *)')
    L.append('Definition g_resume_notifies : bool := %s.' % b(notifies))
    L.append('(* select_active_pu: first accepted maximum, escalation chain, fallback acceptance *)')
    L.append('Definition g_sel_init : rstate := rs_%s.' % sel_init)
    L.append('Definition g_sel_esc1_if : rstate := rs_%s.' % esc[0][0])
    L.append('Definition g_sel_esc1 : rstate := rs_%s.' % esc[0][1])
    L.append('Definition g_sel_esc2_if : rstate := rs_%s.' % esc[1][0])
    L.append('Definition g_sel_esc2 : rstate := rs_%s.' % esc[1][1])
    L.append('Definition g_sel_fallback : rstate := rs_%s.' % sel_fb)
    L.append('(* comparison operators of the source; the fallback walk accepts PU v iff  states_[v] <g_sel_fb_op> g_sel_fallback *)')
    L.append('Inductive cmpop := CmpLe | CmpLt | CmpEq | CmpGe | CmpGt | CmpNe.')
    L.append('Definition cmp_eval (o : cmpop) (a b : rstate) : bool :=')
    L.append('  match o with')
    L.append('  | CmpLe => rs_le a b | CmpLt => rs_lt a b | CmpEq => rs_eqb a b')
    L.append('  | CmpGe => rs_le b a | CmpGt => rs_lt b a | CmpNe => negb (rs_eqb a b)')
    L.append('  end.')
    L.append('Definition g_sel_fb_op : cmpop := %s.' % {'<=': 'CmpLe', '<': 'CmpLt', '==': 'CmpEq', '>=': 'CmpGe', '>': 'CmpGt', '!=': 'CmpNe'}[sel_fb_op])
    L.append('(* suspend_processing_unit_internal: CAS %s -> %s under the PU lock, then wait while == %s *)' % (cas[0], cas[1], spi_wait))
    L.append('Definition g_sus_from : rstate := rs_%s.' % cas[0])
    L.append('Definition g_sus_to : rstate := rs_%s.' % cas[1])
    L.append('Definition g_sus_wait : rstate := rs_%s.' % spi_wait)
    L.append('(* suspend_internal (whole pool): CAS %s -> %s for every worker without the PU lock *)' % (si_cas[0], si_cas[1]))
    L.append('Definition g_pool_from : rstate := rs_%s.' % si_cas[0])
    L.append('Definition g_pool_to : rstate := rs_%s.' % si_cas[1])
    L.append('(* resume_processing_unit_direct: notify until state != %s *)' % rpd_wait)
    L.append('Definition g_res_wait : rstate := rs_%s.' % rpd_wait)
    L.append('(* suspend_processing_unit_direct: is each refusal (no elasticity; own pool without stealing) followed by return? *)')
    L.append('Definition g_spu_refusal_returns : list bool := [%s].' % '; '.join(b(x) for x in guards))
    L.append('(* suspend_direct: is the refusal (pool suspending itself) followed by return? *)')
    L.append('Definition g_pool_refusal_returns : bool := %s.' % b(sd_guard[0]))
    L.append('')
    changed = gen.write_if_changed('GenRuntimeState.v', '\n'.join(L) + '\n')
    return {'file': 'coq/Gen/GenRuntimeState.v', 'enumerators': order, 'changed': changed,
            'can_exit': ' '.join(can_exit.split()),
            'spu_refusal_returns': [bool(x) for x in guards],
            'fallback_acceptance': 'states_[v] %s runtime_state::%s' % (sel_fb_op, sel_fb)}
