# tools/genmods/c10.py — translator piece for C10 (placement): the PRIORITY a new task gets.
# The priority decides the queue family a task is pushed on (high / high_recursive / boost ->
# high_priority_queues_[hint % H], low -> the low-priority queue, everything else -> queues_[hint]),
# and threads::detail::create_work / create_thread resolve it between
#     `if (nullptr == data.scheduler_base) data.scheduler_base = scheduler;`   and
#     `data.run_now = ...` / `scheduler->create_thread(`
# by a sequence of guarded assignments to data.priority.  Regenerated into coq/Gen/GenPriority.v on
# every run, IN SOURCE ORDER and with the constants the source tests and assigns:
#   * the `thread_priority` enumerators (declaration order, numeric values);
#   * for each of the two functions the list of resolution steps
#        SInherit tested parent new :  if (self) { if (data.priority == tested && parent == <self>->get_priority()) data.priority = new; }
#        SDefault tested new        :  if (data.priority == tested) data.priority = new;
#   * the priorities for which create_work sets run_now.
# Model/Priority.v interprets the step lists (resolve_priority); the theorems C10_explicit_priority_kept,
# C10_default_inherits_only_high_recursive, C10_normal_child_queue_is_hinted_queue are about that
# interpretation, so a reordering of the steps or another tested constant changes what is proved.
# Anything else between the two anchors is a TieError (the region must consist of these steps only).
import re

import gen
from vlib import TieError

ENUMS_H = 'libs/pika/coroutines/include/pika/coroutines/thread_enums.hpp'
CREATE_WORK = 'libs/pika/threading_base/src/create_work.cpp'
CREATE_THREAD = 'libs/pika/threading_base/src/create_thread.cpp'

P = r'execution::thread_priority::(\w+)'
SELF_PRIO = r'get_thread_id_data\(\s*(?:self->get_thread_id\(\)|get_self_id\(\)|threads::detail::get_self_id\(\))\s*\)\s*->\s*get_priority\(\)'
INHERIT = re.compile(
    r'if\s*\(\s*self\s*\)\s*\{\s*if\s*\(\s*data\.priority\s*==\s*' + P + r'\s*&&\s*(?:' + P + r'\s*==\s*' + SELF_PRIO +
    r'|' + SELF_PRIO + r'\s*==\s*' + P + r')\s*\)\s*\{\s*data\.priority\s*=\s*' + P + r'\s*;\s*\}\s*\}')
DEFAULT = re.compile(r'if\s*\(\s*data\.priority\s*==\s*' + P + r'\s*\)\s*(\{)?\s*data\.priority\s*=\s*' + P + r'\s*;\s*(?(2)\})')


def strip_cxx_comments(s):
    s = re.sub(r'/\*.*?\*/', '', s, flags=re.S)
    return re.sub(r'//[^\n]*', '', s)


def strip_verif(s):
    return re.sub(r'#if defined\(PIKA_VERIF\)\n.*?#endif\n', '', s, flags=re.S)


def parse_enum():
    src = strip_cxx_comments(gen.read(ENUMS_H))
    m = re.search(r'enum\s+class\s+thread_priority\s*:\s*[\w:]+\s*\{(.*?)\}', src, re.S)
    if not m:
        raise TieError('enum class thread_priority not found')
    order, vals, nxt = [], {}, 0
    for item in m.group(1).split(','):
        item = item.strip()
        if not item:
            continue
        if '=' in item:
            name, v = [x.strip() for x in item.split('=', 1)]
            if not re.fullmatch(r'-?\d+', v):
                raise TieError('cannot evaluate thread_priority enumerator %s = %s' % (name, v))
            val = int(v)
        else:
            name, val = item, nxt
        if val in vals.values():
            raise TieError('thread_priority: two enumerators with value %d' % val)
        vals[name] = val
        nxt = val + 1
        order.append(name)
    return order, vals


def resolution_steps(rel, fn, end_re, enumerators):
    src = strip_verif(strip_cxx_comments(gen.read(rel)))
    m0 = re.search(r'if\s*\(\s*nullptr\s*==\s*data\.scheduler_base\s*\)\s*data\.scheduler_base\s*=\s*scheduler\s*;', src)
    if not m0:
        raise TieError('%s: anchor `if (nullptr == data.scheduler_base) data.scheduler_base = scheduler;` not found' % fn)
    m1 = re.search(end_re, src[m0.end():])
    if not m1:
        raise TieError('%s: end anchor /%s/ not found' % (fn, end_re))
    region = src[m0.end():m0.end() + m1.start()]
    found = []
    for m in INHERIT.finditer(region):
        tested, c1, c2, new = m.group(1), m.group(2), m.group(3), m.group(4)
        found.append((m.start(), m.end(), ('SInherit', tested, c1 or c2, new)))
    spans = [(a, b) for a, b, _ in found]
    for m in DEFAULT.finditer(region):
        if any(a <= m.start() < b for a, b in spans):
            continue
        found.append((m.start(), m.end(), ('SDefault', m.group(1), m.group(3))))
    found.sort()
    rest, pos = '', 0
    for a, b, _ in found:
        rest += region[pos:a]
        pos = b
    rest += region[pos:]
    if rest.strip():
        raise TieError('%s: the priority resolution region contains code that is not a resolution step: %r'
                       % (fn, ' '.join(rest.split())[:200]))
    if re.search(r'data\.priority\s*=[^=]', src[:m0.start()]):
        raise TieError('%s: data.priority is assigned before the resolution region' % fn)
    steps = [s for _, _, s in found]
    for s in steps:
        for c in s[1:]:
            if c not in enumerators:
                raise TieError('%s: unknown thread_priority::%s' % (fn, c))
    tail = src[m0.end() + m1.start():]
    # after the region the priority may be read but must not be written again in this function
    if re.search(r'data\.priority\s*=[^=]', tail):
        raise TieError('%s: data.priority is assigned after the resolution region' % fn)
    return steps, tail


@gen.generator
def gen_priority():
    order, vals = parse_enum()
    for need in ('default_', 'low', 'normal', 'high_recursive', 'boost', 'high'):
        if need not in order:
            raise TieError('thread_priority::%s missing' % need)
    cw, cw_tail = resolution_steps(CREATE_WORK, 'detail::create_work', r'data\.run_now\s*=', order)
    ct, _ = resolution_steps(CREATE_THREAD, 'detail::create_thread', r'scheduler->create_thread\(', order)
    m = re.match(r'data\.run_now\s*=\s*\((.*?)\)\s*;', cw_tail, re.S)
    if not m:
        raise TieError('create_work: run_now assignment not recognised')
    terms = [t.strip() for t in m.group(1).split('||')]
    run_now = []
    for t in terms:
        mm = re.fullmatch(P + r'\s*==\s*data\.priority|data\.priority\s*==\s*' + P, t)
        if not mm:
            raise TieError('create_work: run_now term not recognised: %r' % t)
        run_now.append(mm.group(1) or mm.group(2))
    if not re.match(r'\s*thread_id_ref_type\s+id\s*=\s*invalid_thread_id;\s*scheduler->create_thread\(data,\s*data\.run_now\s*\?\s*&id\s*:\s*nullptr,\s*ec\);',
                    cw_tail[m.end():]):
        raise TieError('create_work: the resolved data is not handed to scheduler->create_thread right after run_now')

    def step(s):
        return '%s %s' % (s[0], ' '.join('rp_' + c for c in s[1:]))

    L = []
    L.append('(* GENERATED by tools/genmods/c10.py from %s, %s, %s — do not edit *)' % (ENUMS_H, CREATE_WORK, CREATE_THREAD))
    L.append('From Coq Require Import NArith List Bool.')
    L.append('Import ListNotations.')
    L.append('Local Open Scope N_scope.')
    L.append('')
    L.append('(* execution::thread_priority, declaration order *)')
    L.append('Inductive rprio := ' + ' | '.join('rp_' + n for n in order) + '.')
    L.append('(* numeric value of the enumerator + 1 (unknown = -1 in the source) *)')
    L.append('Definition rp_ord (p : rprio) : N :=')
    L.append('  match p with')
    for n in order:
        L.append('  | rp_%s => %d' % (n, vals[n] + 1))
    L.append('  end.')
    L.append('Definition rp_eqb (a b : rprio) : bool := rp_ord a =? rp_ord b.')
    L.append('Definition rp_all : list rprio := [' + '; '.join('rp_' + n for n in order) + '].')
    L.append('')
    L.append('(* one guarded assignment to data.priority:')
    L.append('   SInherit t c n : if (self) { if (data.priority == t && c == <self>->get_priority()) data.priority = n; }')
    L.append('   SDefault t n   : if (data.priority == t) data.priority = n; *)')
    L.append('Inductive pstep := SInherit (tested parent_is newp : rprio) | SDefault (tested newp : rprio).')
    L.append('(* threads::detail::create_work, in source order *)')
    L.append('Definition g_cw_steps : list pstep := [' + '; '.join(step(s) for s in cw) + '].')
    L.append('(* threads::detail::create_thread, in source order *)')
    L.append('Definition g_ct_steps : list pstep := [' + '; '.join(step(s) for s in ct) + '].')
    L.append('(* create_work: data.run_now = priority is one of *)')
    L.append('Definition g_cw_run_now : list rprio := [' + '; '.join('rp_' + c for c in run_now) + '].')
    L.append('')
    changed = gen.write_if_changed('GenPriority.v', '\n'.join(L) + '\n')
    return {'file': 'coq/Gen/GenPriority.v', 'changed': changed, 'enumerators': order,
            'create_work_steps': [' '.join(s) for s in cw], 'create_thread_steps': [' '.join(s) for s in ct],
            'run_now': run_now}
