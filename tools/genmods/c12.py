# tools/genmods/c12.py — translator for C12: source text -> coq/Gen/GenSwapctx.v
#
# Regenerated on every run from $VERIF_REPO's working tree:
#   * the instruction list of PIKA_COROUTINE_SWAPCONTEXT in coroutines/src/swapcontext64.ipp
#     (AT&T asm text -> `list instr`), checked to be the file compiled on x86-64 (swapcontext.cpp)
#     and instantiated for swapcontext_stack and swapcontext_stack2;
#   * context_size, cb_idx, funp_idx of the x86-64 branch of context_linux_x86.hpp, and a
#     structural check of the frame construction in init() / rebind_stack();
#   * the constructor initialiser list and the assignments of thread_data::rebind_base
#     (-> lists of (field, rvalue)), the member list of thread_data;
#   * the same for context_base / coroutine_impl (constructor, exit path, rebind);
#   * the stack-size -> heap if-chains of thread_queue::create_thread_object / recycle_thread and the
#     enum -> size switch of scheduler_base::get_stack_size.
# Anything the translator does not recognise raises TieError: an edit is re-proved, never ignored.
import re

import gen
from vlib import TieError

SWAP = 'libs/pika/coroutines/src/swapcontext64.ipp'
SWAPCPP = 'libs/pika/coroutines/src/swapcontext.cpp'
CTXHPP = 'libs/pika/coroutines/include/pika/coroutines/detail/context_linux_x86.hpp'
CTXBASE = 'libs/pika/coroutines/include/pika/coroutines/detail/context_base.hpp'
COROHPP = 'libs/pika/coroutines/include/pika/coroutines/detail/coroutine_impl.hpp'
COROCPP = 'libs/pika/coroutines/src/detail/coroutine_impl.cpp'
TDCPP = 'libs/pika/threading_base/src/thread_data.cpp'
TDHPP = 'libs/pika/threading_base/include/pika/threading_base/thread_data.hpp'
TQHPP = 'libs/pika/schedulers/include/pika/schedulers/thread_queue.hpp'
SBHPP = 'libs/pika/threading_base/include/pika/threading_base/scheduler_base.hpp'

# feature macros of the configured build (tools/buildpika); tools/props/c12.py verifies after the
# build that defines.hpp agrees with this set
DEFINED = {'PIKA_HAVE_THREAD_STACK_MMAP', '__x86_64__', '__linux__', '__linux', '__GNUC__', '__GNUG__',
           '_POSIX_MAPPED_FILES', 'PIKA_COROUTINE_NO_SEPARATE_CALL_SITES'}
OPTIONAL_FEATURES = ['PIKA_HAVE_THREAD_DESCRIPTION', 'PIKA_HAVE_THREAD_PARENT_REFERENCE',
                     'PIKA_HAVE_THREAD_DEADLOCK_DETECTION', 'PIKA_HAVE_THREAD_BACKTRACE_ON_SUSPENSION',
                     'PIKA_HAVE_APEX', 'PIKA_HAVE_THREAD_PHASE_INFORMATION', 'PIKA_HAVE_THREAD_LOCAL_STORAGE',
                     'PIKA_HAVE_ADDRESS_SANITIZER', 'PIKA_HAVE_VALGRIND', 'PIKA_HAVE_COROUTINE_COUNTERS',
                     'PIKA_DEBUG']

REGS = {'rax': 'RAX', 'rbx': 'RBX', 'rcx': 'RCX', 'rdx': 'RDX', 'rsi': 'RSI', 'rdi': 'RDI', 'rbp': 'RBP',
        'rsp': 'RSP', 'r8': 'R8', 'r9': 'R9', 'r10': 'R10', 'r11': 'R11', 'r12': 'R12', 'r13': 'R13',
        'r14': 'R14', 'r15': 'R15'}


def fail(msg):
    raise TieError('c12 translator: ' + msg)


# ------------------------------------------------------------------ tiny preprocessor
def strip_pp(text, defined=DEFINED):
    """keep only the lines of the active preprocessor branches (conditions over defined(X))"""
    out = []
    stack = []  # entries: [active_parent, taken_any, active_now]

    def active():
        return all(s[2] for s in stack)

    def ev(cond):
        c = re.sub(r'defined\s*\(\s*(\w+)\s*\)', lambda m: ' True ' if m.group(1) in defined else ' False ', cond)
        c = re.sub(r'defined\s+(\w+)', lambda m: ' True ' if m.group(1) in defined else ' False ', c)
        c = c.replace('&&', ' and ').replace('||', ' or ')
        c = re.sub(r'!(?!=)', ' not ', c)
        c = re.sub(r'\b([A-Za-z_]\w*)\b', lambda m: m.group(1) if m.group(1) in ('True', 'False', 'and', 'or', 'not')
                   else ('1' if m.group(1) in defined else '0'), c)
        try:
            return bool(eval(c, {'__builtins__': {}}, {}))
        except Exception:
            fail('cannot evaluate preprocessor condition: ' + cond)

    lines = text.split('\n')
    i = 0
    while i < len(lines):
        line = lines[i]
        while line.rstrip().endswith('\\') and re.match(r'\s*#', line) and i + 1 < len(lines):
            i += 1
            line = line.rstrip()[:-1] + ' ' + lines[i]
        m = re.match(r'\s*#\s*(if|ifdef|ifndef|elif|else|endif)\b(.*)', line)
        if m:
            d, rest = m.group(1), m.group(2).split('//')[0].strip()
            if d == 'if':
                v = ev(rest)
                stack.append([None, v, v])
            elif d == 'ifdef':
                v = rest in defined
                stack.append([None, v, v])
            elif d == 'ifndef':
                v = rest not in defined
                stack.append([None, v, v])
            elif d == 'elif':
                if not stack:
                    fail('unbalanced #elif')
                if stack[-1][1]:
                    stack[-1][2] = False
                else:
                    v = ev(rest)
                    stack[-1][1] = v
                    stack[-1][2] = v
            elif d == 'else':
                if not stack:
                    fail('unbalanced #else')
                stack[-1][2] = not stack[-1][1]
                stack[-1][1] = True
            elif d == 'endif':
                if not stack:
                    fail('unbalanced #endif')
                stack.pop()
        elif active():
            out.append(line)
        i += 1
    return '\n'.join(out)


def strip_comments(text):
    text = re.sub(r'/\*.*?\*/', ' ', text, flags=re.S)
    text = re.sub(r'//[^\n]*', '', text)
    return text


def balanced(text, start, open_c, close_c):
    """text[start] == open_c; returns index just after the matching close"""
    if text[start] != open_c:
        fail('expected %r at offset %d' % (open_c, start))
    depth = 0
    i = start
    while i < len(text):
        c = text[i]
        if c == open_c:
            depth += 1
        elif c == close_c:
            depth -= 1
            if depth == 0:
                return i + 1
        i += 1
    fail('unbalanced %r' % open_c)


def func(text, head_re, what):
    """find `head_re ( params ) [: init-list] { body }`; returns (init_list_text, body_text)"""
    ms = list(re.finditer(head_re, text))
    if len(ms) != 1:
        fail('%s: expected exactly one definition, found %d' % (what, len(ms)))
    i = text.index('(', ms[0].start())
    j = balanced(text, i, '(', ')')
    while text[j:].lstrip().startswith('('):   # operator()(...)
        i = text.index('(', j)
        j = balanced(text, i, '(', ')')
    k = j
    # skip qualifiers up to ':' or '{'
    while k < len(text) and text[k] not in ':{;':
        k += 1
    if k >= len(text) or text[k] == ';':
        fail('%s: declaration without body' % what)
    init = ''
    if text[k] == ':':
        # initialiser list: scan to the '{' at paren depth 0
        depth = 0
        q = k + 1
        while q < len(text):
            if text[q] in '(':
                depth += 1
            elif text[q] == ')':
                depth -= 1
            elif text[q] == '{' and depth == 0:
                break
            q += 1
        init = text[k + 1:q]
        k = q
    e = balanced(text, k, '{', '}')
    return init, text[k + 1:e - 1]


def nows(s):
    return re.sub(r'\s+', '', s)


def split_inits(init, what):
    """`a(x), b(y(z))` -> [(a, 'x'), (b, 'y(z)')]"""
    res = []
    i = 0
    n = len(init)
    while i < n:
        m = re.compile(r'\s*,?\s*([A-Za-z_]\w*)\s*').match(init, i)
        if not m:
            if init[i:].strip() == '':
                break
            fail('%s: cannot parse initialiser list near %r' % (what, init[i:i + 40]))
        name = m.group(1)
        j = m.end()
        if j >= n or init[j] not in '({':
            fail('%s: initialiser of %s has no argument list' % (what, name))
        e = balanced(init, j, init[j], ')' if init[j] == '(' else '}')
        res.append((name, nows(init[j + 1:e - 1])))
        i = e
    return res


def statements(body):
    """split a function body into top-level statements (text up to ';' at depth 0, or a braced block)"""
    res = []
    depth = 0
    cur = ''
    for c in body:
        cur += c
        if c in '({':
            depth += 1
        elif c in ')}':
            depth -= 1
            if c == '}' and depth == 0:
                res.append(cur.strip())
                cur = ''
        elif c == ';' and depth == 0:
            res.append(cur.strip())
            cur = ''
    if cur.strip():
        fail('trailing text in function body: %r' % cur.strip()[:60])
    return [s for s in res if s and s != ';']


# ------------------------------------------------------------------ 1. the assembly routine
def parse_operand_mem(op):
    m = re.fullmatch(r'(-?(?:0x[0-9a-fA-F]+|\d+))?\(%(\w+)\)', op)
    if not m:
        return None
    off = int(m.group(1), 0) if m.group(1) else 0
    if m.group(2) not in REGS:
        fail('unknown base register %%%s' % m.group(2))
    return off, REGS[m.group(2)]


def parse_reg(op):
    m = re.fullmatch(r'%(\w+)', op)
    if not m:
        return None
    if m.group(1) not in REGS:
        fail('unknown register %%%s (only the 64-bit general purpose registers are modelled)' % m.group(1))
    return REGS[m.group(1)]


def parse_imm(op):
    m = re.fullmatch(r'\$(-?(?:0x[0-9a-fA-F]+|\d+))', op)
    return int(m.group(1), 0) if m else None


def z(n):
    return '(%d)' % n if n < 0 else '%d' % n


def parse_instr(line):
    parts = line.split(None, 1)
    mn = parts[0]
    ops = [o.strip() for o in parts[1].split(',')] if len(parts) > 1 else []
    if mn in ('movq', 'mov') and len(ops) == 2:
        s, d = ops
        rs, rd, ms, md = parse_reg(s), parse_reg(d), parse_operand_mem(s), parse_operand_mem(d)
        if ms and rd:
            return 'MovLoad %s %s %s' % (z(ms[0]), ms[1], rd)
        if rs and md:
            return 'MovStore %s %s %s' % (rs, z(md[0]), md[1])
        if rs and rd:
            return 'MovRR %s %s' % (rs, rd)
    elif mn in ('pushq', 'push') and len(ops) == 1 and parse_reg(ops[0]):
        return 'Push %s' % parse_reg(ops[0])
    elif mn in ('popq', 'pop') and len(ops) == 1 and parse_reg(ops[0]):
        return 'Pop %s' % parse_reg(ops[0])
    elif mn in ('add', 'addq', 'sub', 'subq') and len(ops) == 2:
        imm, rd = parse_imm(ops[0]), parse_reg(ops[1])
        if imm is not None and rd:
            return 'AddImm %s %s' % (z(imm if mn.startswith('add') else -imm), rd)
    elif mn in ('lea', 'leaq') and len(ops) == 2:
        ms, rd = parse_operand_mem(ops[0]), parse_reg(ops[1])
        if ms and rd:
            return 'Lea %s %s %s' % (z(ms[0]), ms[1], rd)
    elif mn == 'jmp' and len(ops) == 1 and ops[0].startswith('*') and parse_reg(ops[0][1:]):
        return 'JmpReg %s' % parse_reg(ops[0][1:])
    elif mn in ('ret', 'retq') and not ops:
        return 'Ret'
    elif mn == 'ud2' and not ops:
        return 'Ud2'
    elif mn == 'nop' and not ops:
        return 'Nop'
    elif mn in ('stmxcsr', 'ldmxcsr', 'fnstcw', 'fldcw') and len(ops) == 1 and parse_operand_mem(ops[0]):
        ms = parse_operand_mem(ops[0])
        return '%s %s %s' % (mn.capitalize(), z(ms[0]), ms[1])
    fail('instruction not understood by the model: %r' % line)


def parse_asm():
    src = gen.read(SWAP)
    cpp = gen.read(SWAPCPP)
    if not re.search(r'defined\(__x86_64__\)[^\n]*\n\s*#\s*include\s+"swapcontext64\.ipp"', cpp):
        fail('swapcontext.cpp no longer includes swapcontext64.ipp for __x86_64__')
    defs = list(re.finditer(r'#define\s+PIKA_COROUTINE_SWAPCONTEXT\(name\)', src))
    if len(defs) != 1:
        fail('expected one definition of PIKA_COROUTINE_SWAPCONTEXT, found %d' % len(defs))
    # the macro body: continuation lines
    body = []
    for ln in src[defs[0].end():].split('\n'):
        body.append(ln.rstrip())
        if not ln.rstrip().endswith('\\'):
            break
    text = '\n'.join(b[:-1] if b.endswith('\\') else b for b in body)
    m = re.search(r'\basm\s*(?:volatile\s*)?\(', text)
    if not m:
        fail('no asm( ... ) in PIKA_COROUTINE_SWAPCONTEXT')
    e = balanced(text, m.end() - 1, '(', ')')
    inner = text[m.end():e - 1]
    if text[e:].replace('/**/', '').strip() not in ('', ';'):
        fail('unexpected text after asm(...) in the macro: %r' % text[e:].strip()[:60])
    # tokens: string literals, `#name`, PIKA_COROUTINE_TYPE_DIRECTIVE(name)
    toks = re.findall(r'"((?:[^"\\]|\\.)*)"|(#name)|(PIKA_COROUTINE_TYPE_DIRECTIVE\(name\))|(\S)', inner)
    asm = ''
    for s, nm, td, other in toks:
        if other:
            fail('unexpected token %r inside asm(...) (operands/clobbers are not modelled)' % other)
        if nm:
            asm += '@NAME@'
        elif td:
            asm += '.type @NAME@, @function\n\t'
        else:
            asm += s.replace('\\n', '\n').replace('\\t', '\t')
    instrs = []
    seen_label = False
    raw = []
    for ln in asm.split('\n'):
        ln = ln.strip()
        if not ln:
            continue
        if ln.startswith('.'):
            if seen_label:
                fail('directive after the entry label: %r' % ln)
            if not re.fullmatch(r'\.text|\.align\s+\d+|\.p2align\s+\d+|\.globl\s+@NAME@|\.type\s+@NAME@,\s*@function', ln):
                fail('unknown assembler directive %r' % ln)
            continue
        if ln == '@NAME@:':
            if seen_label:
                fail('two entry labels')
            seen_label = True
            continue
        if ln.endswith(':'):
            fail('local label %r (control flow inside the routine is not modelled)' % ln)
        if not seen_label:
            fail('instruction before the entry label: %r' % ln)
        raw.append(ln)
        instrs.append(parse_instr(ln))
    if not instrs:
        fail('empty routine')
    insts = re.findall(r'^\s*PIKA_COROUTINE_SWAPCONTEXT\((\w+)\);', src, re.M)
    if sorted(insts) != ['swapcontext_stack', 'swapcontext_stack2']:
        fail('instantiations of the routine changed: %s' % insts)
    return instrs, raw


# ------------------------------------------------------------------ 2. frame layout constants
def parse_layout():
    src = strip_comments(strip_pp(gen.read(CTXHPP)))
    consts = {}
    for name in ('context_size', 'cb_idx', 'funp_idx'):
        ms = re.findall(r'static\s+std::size_t\s+const\s+%s\s*=\s*(\d+)\s*;' % name, src)
        if len(ms) != 1:
            fail('%s: expected one definition in the x86-64 branch, found %s' % (name, ms))
        consts[name] = int(ms[0])
    # frame construction in init() and rebind_stack()
    want_sp = nows('m_sp = (static_cast<void**>(m_stack) + static_cast<std::size_t>(m_stack_size) / sizeof(void*)) - context_size;')
    want_cb = nows('m_sp[cb_idx] = this;')
    want_fp = nows('m_sp[funp_idx] = reinterpret_cast<void*>(funp);')
    want_tr = nows('fun* funp = trampoline<CoroutineImpl>;')
    for fn in ('init', 'rebind_stack'):
        _, body = func(src, r'\bvoid\s+%s\s*\(\s*\)' % fn, CTXHPP + ':' + fn)
        b = nows(body)
        for w, what in ((want_sp, 'm_sp = top - context_size'), (want_cb, 'm_sp[cb_idx] = this'),
                        (want_fp, 'm_sp[funp_idx] = funp'), (want_tr, 'funp = trampoline<CoroutineImpl>')):
            if b.count(w) != 1:
                fail('%s(): statement `%s` not found exactly once' % (fn, what))
        if not (b.index(want_sp) < b.index(want_cb) and b.index(want_sp) < b.index(want_fp)):
            fail('%s(): frame slots written before m_sp is set' % fn)
        # no other write through m_sp
        others = re.findall(r'm_sp\[(\w+)\]=', b)
        if sorted(others) != ['cb_idx', 'funp_idx']:
            fail('%s(): unexpected writes through m_sp: %s' % (fn, others))
    # the swap_context free functions pass (&from.m_sp, to.m_sp)
    calls = re.findall(r'(swapcontext_stack2?)\(\s*&from\.m_sp\s*,\s*to\.m_sp\s*\)', src)
    if not calls:
        fail('swap_context no longer calls swapcontext_stack(&from.m_sp, to.m_sp)')
    if re.findall(r'swapcontext_stack2?\(\s*(?!&from\.m_sp\s*,\s*to\.m_sp\s*\)|void)', src):
        fail('a call of the routine with other arguments appeared')
    tr = nows(func(src, r'PIKA_FORCEINLINE\s+void\s+trampoline\s*', 'trampoline')[1])
    if tr != nows('(*static_cast<T*>(fun))(); std::abort();'):
        fail('trampoline body changed: ' + tr)
    consts['routines_called'] = sorted(set(calls))
    return consts


# ------------------------------------------------------------------ 3. thread_data fields
TD_FIELDS = {'current_state_': 'F_current_state', 'priority_': 'F_priority',
             'requested_interrupt_': 'F_requested_interrupt', 'enabled_interrupt_': 'F_enabled_interrupt',
             'ran_exit_funcs_': 'F_ran_exit_funcs', 'exit_funcs_': 'F_exit_funcs',
             'scheduler_base_': 'F_scheduler_base', 'last_worker_thread_num_': 'F_last_worker_thread_num',
             'stacksize_enum_': 'F_stacksize_enum', 'is_stackless_': 'F_is_stackless',
             'stacksize_': 'F_stacksize', 'queue_': 'F_queue'}
TD_RV = {
    'thread_state(init_data.initial_state,thread_restart_state::signaled)': 'RStateSignaled',
    'init_data.priority': 'RInit I_priority', 'init_data.scheduler_base': 'RInit I_scheduler_base',
    'init_data.stacksize': 'RInit I_stacksize', 'false': 'RBool false', 'true': 'RBool true',
    'std::size_t(-1)': 'RNoWorker', 'is_stackless': 'RArg 0', 'stacksize': 'RArg 1', 'queue': 'RArg 2',
}
IGNORED_STMT = re.compile(r'^(PIKA_LOG|PIKA_ASSERT|PIKA_ASSERT_MSG|PIKA_UNUSED)\s*\(')


def td_rv(expr, where):
    if expr not in TD_RV:
        fail('%s: right-hand side %r is not known to the model' % (where, expr))
    return TD_RV[expr]


def parse_thread_data():
    hpp = strip_comments(strip_pp(gen.read(TDHPP)))
    cpp = strip_comments(strip_pp(gen.read(TDCPP)))
    # member list: private data members of class thread_data (names ending in '_')
    m = re.search(r'void\s+rebind_base\s*\(\s*thread_init_data&\s*init_data\s*\)\s*;\s*private:(.*?)\n\s*public:', hpp, re.S)
    if not m:
        fail('cannot find the data member section of thread_data')
    members = []
    containers = []
    for st in statements(m.group(1)):
        mm = re.match(r'^(.*?)\b([A-Za-z_]\w*_)\s*;$', st, re.S)
        if not mm:
            fail('thread_data: cannot parse member declaration %r' % st[:80])
        members.append(mm.group(2))
        if 'forward_list' in mm.group(1) or 'vector' in mm.group(1) or 'list<' in mm.group(1):
            containers.append(mm.group(2))
    for mname in members:
        if mname not in TD_FIELDS:
            fail('thread_data has a member %s the model does not know (is it per-task state that rebind must reset?)' % mname)
    for known in TD_FIELDS:
        if known not in members:
            fail('thread_data no longer has member %s' % known)
    # constructor
    init, _ = func(cpp, r'thread_data::thread_data\s*\(', 'thread_data constructor')
    ctor = []
    for name, expr in split_inits(init, 'thread_data constructor'):
        if name == 'thread_data_reference_counting':
            continue
        if name not in TD_FIELDS:
            fail('constructor initialises unknown member %s' % name)
        ctor.append((TD_FIELDS[name], td_rv(expr, 'constructor ' + name)))
    for c in containers:
        if TD_FIELDS[c] not in [f for f, _ in ctor]:
            ctor.append((TD_FIELDS[c], 'REmpty'))  # default-constructed container
    # rebind_base
    _, body = func(cpp, r'void\s+thread_data::rebind_base\s*\(', 'thread_data::rebind_base')
    assigns = []
    calls = []
    for st in statements(body):
        s = nows(st)
        if IGNORED_STMT.match(st):
            continue
        mm = re.fullmatch(r'(\w+_)=(.*);', s)
        if mm and mm.group(1) in TD_FIELDS:
            assigns.append((TD_FIELDS[mm.group(1)], td_rv(mm.group(2), 'rebind_base ' + mm.group(1))))
            continue
        mm = re.fullmatch(r'(\w+_)\.store\((.*?)(,std::memory_order_\w+)?\);', s)
        if mm and mm.group(1) in TD_FIELDS:
            assigns.append((TD_FIELDS[mm.group(1)], td_rv(mm.group(2), 'rebind_base ' + mm.group(1))))
            continue
        mm = re.fullmatch(r'(\w+_)\.clear\(\);', s)
        if mm and mm.group(1) in TD_FIELDS:
            assigns.append((TD_FIELDS[mm.group(1)], 'REmpty'))
            continue
        if s == 'free_thread_exit_callbacks();':
            calls.append('free_thread_exit_callbacks')
            continue
        fail('rebind_base: statement not understood: %r' % st[:100])
    # thread_data_stackful::rebind calls rebind_base then coroutine_.rebind
    sf = strip_comments(strip_pp(gen.read('libs/pika/threading_base/include/pika/threading_base/thread_data_stackful.hpp')))
    _, rb = func(sf, r'void\s+rebind\s*\(\s*thread_init_data&\s*init_data\s*\)\s*override', 'thread_data_stackful::rebind')
    rbs = [nows(s) for s in statements(rb) if not IGNORED_STMT.match(s)]
    if rbs != ['this->thread_data::rebind_base(init_data);', 'coroutine_.rebind(std::move(init_data.func),thread_id_type(this));']:
        fail('thread_data_stackful::rebind changed: %s' % rbs)
    return members, ctor, assigns, calls


# ------------------------------------------------------------------ 4. coroutine fields
C_FIELDS = {'m_thread_id': 'C_thread_id', 'm_state': 'C_state', 'm_exit_state': 'C_exit_state',
            'm_exit_status': 'C_exit_status', 'm_type_info': 'C_type_info', 'm_thread_data': 'C_thread_data',
            'm_result': 'C_result', 'm_arg': 'C_arg', 'm_fun': 'C_fun',
            'continuation_recursion_count_': 'C_continuation_recursion_count'}
C_RV = {'id': 'CId', 'std::move(f)': 'CFun', 'ctx_ready': 'CReady', 'ctx_exit_not_requested': 'CExitNotRequested',
        'ctx_not_exited': 'CNotExited', '': 'CNullExc', 'std::exception_ptr()': 'CNullExc', '0': 'CZero',
        'nullptr': 'CNullArg',
        'threads::detail::thread_schedule_state::unknown,threads::detail::invalid_thread_id': 'CResultUnknown',
        'result_type(threads::detail::thread_schedule_state::unknown,threads::detail::invalid_thread_id)': 'CResultUnknown'}


def c_rv(field, expr, where):
    if field == 'C_type_info' and expr == '':
        return 'CNullExc'
    if expr not in C_RV or (expr == '' and field != 'C_type_info'):
        fail('%s: right-hand side %r is not known to the model' % (where, expr))
    return C_RV[expr]


def c_assigns(body, where, allow_calls):
    res, calls = [], []
    for st in statements(body):
        if IGNORED_STMT.match(st):
            continue
        s = nows(st)
        mm = re.fullmatch(r'(\w+)=(.*);', s)
        if mm and mm.group(1) in C_FIELDS:
            f = C_FIELDS[mm.group(1)]
            res.append((f, c_rv(f, mm.group(2), where)))
            continue
        mm = re.fullmatch(r'(\w+)\.reset\(\);', s)
        if mm and mm.group(1) in C_FIELDS:
            res.append((C_FIELDS[mm.group(1)], 'CZero'))   # reset id / function = null
            continue
        mm = re.fullmatch(r'(?:this->)?(?:super_type::)?(\w+)\((\w*)\);', s)
        if mm and mm.group(1) in allow_calls:
            calls.append(mm.group(1))
            res.append(('@call', mm.group(1)))
            continue
        fail('%s: statement not understood: %r' % (where, st[:100]))
    return res, calls


def parse_coroutine():
    cb = strip_comments(strip_pp(gen.read(CTXBASE)))
    ci = strip_comments(strip_pp(gen.read(COROHPP)))
    cc = strip_comments(strip_pp(gen.read(COROCPP)))
    # constructors
    init, _ = func(cb, r'\bcontext_base\s*\(\s*std::ptrdiff_t', 'context_base constructor')
    ctor = []
    for name, expr in split_inits(init, 'context_base constructor'):
        if name in ('base_type', 'm_caller'):
            continue
        if name not in C_FIELDS:
            fail('context_base constructor initialises unknown member %s' % name)
        ctor.append((C_FIELDS[name], c_rv(C_FIELDS[name], expr, 'context_base constructor ' + name)))
    init, _ = func(ci, r'\bcoroutine_impl\s*\(\s*functor_type', 'coroutine_impl constructor')
    for name, expr in split_inits(init, 'coroutine_impl constructor'):
        if name == 'context_base':
            if expr != 'stack_size,id':
                fail('coroutine_impl passes %r to context_base' % expr)
            continue
        if name not in C_FIELDS:
            fail('coroutine_impl constructor initialises unknown member %s' % name)
        ctor.append((C_FIELDS[name], c_rv(C_FIELDS[name], expr, 'coroutine_impl constructor ' + name)))
    ctor.append(('C_sp_frame', 'CFreshFrame'))  # init() before the first switch (checked in parse_layout)
    # exit path: operator() calls reset_tss(); reset(); after the function returned
    _, op = func(cc, r'void\s+coroutine_impl::operator\(\)\s*', 'coroutine_impl::operator()')
    o = nows(op)
    k1, k2, k3, k4 = o.find('result_last=m_fun(*this->args());'), o.find('this->reset_tss();'), o.find('this->reset();'), o.find('this->do_return(status,std::move(tinfo));')
    exit_calls = []
    if k1 < 0 or k4 < 0:
        fail('coroutine_impl::operator(): call of the thread function / do_return not found')
    if k2 > k1 and k2 < k4:
        exit_calls.append('reset_tss')
    if k3 > k1 and k3 < k4:
        exit_calls.append('reset')
    if 'while(this->m_state==super_type::ctx_running)' not in o:
        fail('coroutine_impl::operator(): the rebinding loop changed')
    funcs = {}
    _, b = func(cb, r'\bvoid\s+reset_tss\s*\(\s*\)', 'context_base::reset_tss')
    funcs['reset_tss'] = c_assigns(b, 'reset_tss', [])[0]
    _, b = func(cb, r'\bvoid\s+reset\s*\(\s*\)', 'context_base::reset')
    funcs['base_reset'] = c_assigns(b, 'context_base::reset', [])[0]
    _, b = func(ci, r'\bvoid\s+reset\s*\(\s*\)', 'coroutine_impl::reset')
    funcs['reset'] = c_assigns(b, 'coroutine_impl::reset', ['reset', 'reset_stack'])[0]
    _, b = func(cb, r'\bvoid\s+rebind_base\s*\(\s*thread_id_type\s+id\s*\)', 'context_base::rebind_base')
    funcs['rebind_base'] = c_assigns(b, 'context_base::rebind_base', [])[0]
    _, b = func(ci, r'\bvoid\s+rebind\s*\(\s*functor_type&&\s*f\s*,\s*thread_id_type\s+id\s*\)', 'coroutine_impl::rebind')
    funcs['rebind'] = c_assigns(b, 'coroutine_impl::rebind', ['rebind_stack', 'rebind_base'])[0]

    def flat(name, sub):
        out = []
        for f, v in funcs[name]:
            if f == '@call':
                if v in sub:
                    out += flat(sub[v], sub)
                elif v == 'rebind_stack':
                    out.append(('C_sp_frame', 'CFreshFrame'))
                elif v == 'reset_stack':
                    pass  # madvise of the stack pages: OS behaviour, outside the model
                else:
                    fail('unexpected call %s' % v)
            else:
                out.append((f, v))
        return out
    exit_as = []
    for c in exit_calls:
        exit_as += flat(c, {'reset': 'base_reset'})
    rebind_as = flat('rebind', {'rebind_base': 'rebind_base'})
    return ctor, exit_as, rebind_as, exit_calls


# ------------------------------------------------------------------ 5. heaps
SIZEP = {'small_stacksize_': 'Small', 'medium_stacksize_': 'Medium', 'large_stacksize_': 'Large',
         'huge_stacksize_': 'Huge', 'nostack_stacksize_': 'Nostack'}
HEAPS = {'thread_heap_small_': 'Small', 'thread_heap_medium_': 'Medium', 'thread_heap_large_': 'Large',
         'thread_heap_huge_': 'Huge', 'thread_heap_nostack_': 'Nostack'}
ENUMS = {'small_': 'Small', 'medium': 'Medium', 'large': 'Large', 'huge': 'Huge', 'nostack': 'Nostack'}


END = {'front': 'HFront', 'back': 'HBack'}
DEBUG_STMT = r'(?:::pika::detail::\w+\.debug\((?:[^;]|;(?!\}))*?\);)?'


def parse_heap_code(path, what, var, create_call):
    """the per-size heaps of one queue implementation (thread_queue.hpp, or queue_holder_thread.hpp for thread_queue_mc):
    size -> heap chains of create_thread_object / recycle_thread and the ends of the std::list used"""
    tq = strip_comments(strip_pp(gen.read(path)))
    _, cbody = func(tq, r'\bvoid\s+create_thread_object\s*', what + '::create_thread_object')
    c = nows(cbody)
    chain = re.findall(r'if\(stacksize==parameters_\.(\w+)\)\{heap=&(\w+);\}', c)
    if len(chain) < 1 or c.count('heap=&') != len(chain):
        fail('%s::create_thread_object: cannot parse the stack size -> heap chain' % what)
    if 'std::ptrdiff_tconststacksize=data.scheduler_base->get_stack_size(data.stacksize);' not in c:
        fail('%s::create_thread_object: stack size is no longer data.scheduler_base->get_stack_size(data.stacksize)' % what)
    if len(re.findall(r'stacksize=(?!=)', c)) != 1:
        fail('%s::create_thread_object: a stack size (the local or data.stacksize) is assigned besides the initialisation' % what)
    m = re.findall(r'if\(!heap->empty\(\)\)\{%s=heap->(\w+)\(\);heap->pop_(\w+)\(\);threads::detail::get_thread_id_data\(%s\)->rebind\(data\);%s\}else'
                   % (var, var, DEBUG_STMT), c)
    if len(m) != 1 or c.count('heap->') != 3:
        fail('%s::create_thread_object: the reuse branch (if (!heap->empty()) { x = heap->END(); heap->pop_END(); rebind }) changed' % what)
    if m[0][0] != m[0][1] or m[0][0] not in END:
        fail('%s::create_thread_object: the reuse branch reads heap->%s() but removes with pop_%s()' % (what, m[0][0], m[0][1]))
    take = END[m[0][0]]
    if create_call not in c:
        fail('%s::create_thread_object: the allocation branch changed' % what)
    create = []
    for p, h in chain:
        if p not in SIZEP or h not in HEAPS:
            fail('%s::create_thread_object: unknown size parameter / heap %s / %s' % (what, p, h))
        create.append((SIZEP[p], HEAPS[h]))
    _, rbody = func(tq, r'\bvoid\s+recycle_thread\s*', what + '::recycle_thread')
    r = nows(rbody)
    if 'std::ptrdiff_tstacksize=threads::detail::get_thread_id_data(%s)->get_stack_size();' % var not in r:
        fail('%s::recycle_thread: stack size is no longer the object\'s get_stack_size()' % what)
    rchain = re.findall(r'if\(stacksize==parameters_\.(\w+)\)\{(\w+)\.push_(\w+)\(%s\);\}' % var, r)
    if len(rchain) < 1 or r.count('push_') != len(rchain) or r.count('thread_heap_') != len(rchain):
        fail('%s::recycle_thread: cannot parse the stack size -> heap chain' % what)
    ends = sorted(set(e for _, _, e in rchain))
    if len(ends) != 1 or ends[0] not in END:
        fail('%s::recycle_thread: the heaps are not all written at the same end: %s' % (what, ends))
    recycle = []
    for p, h, _ in rchain:
        if p not in SIZEP or h not in HEAPS:
            fail('%s::recycle_thread: unknown size parameter / heap %s / %s' % (what, p, h))
        recycle.append((SIZEP[p], HEAPS[h]))
    return create, recycle, take, END[ends[0]]


def parse_heaps():
    create, recycle, take, put = parse_heap_code(TQHPP, 'thread_queue', 'thrd',
                                                 'p=threads::detail::thread_data_stackful::create(data,this,stacksize);')
    sb = strip_comments(strip_pp(gen.read(SBHPP)))
    _, gbody = func(sb, r'std::ptrdiff_t\s+get_stack_size\s*\(\s*execution::thread_stacksize\s+stacksize\s*\)\s*const', 'scheduler_base::get_stack_size')
    g = nows(gbody)
    cases = re.findall(r'caseexecution::thread_stacksize::(\w+):returnthread_queue_init_\.(\w+);', g)
    enum_map = []
    for e, p in cases:
        if e not in ENUMS or p not in SIZEP:
            fail('get_stack_size: unknown case %s -> %s' % (e, p))
        enum_map.append((ENUMS[e], SIZEP[p]))
    if sorted(e for e, _ in enum_map) != ['Huge', 'Large', 'Medium', 'Small']:
        fail('get_stack_size: switch cases changed: %s' % cases)
    if 'caseexecution::thread_stacksize::nostack:return(std::numeric_limits<std::ptrdiff_t>::max)();' not in g:
        fail('get_stack_size: nostack case changed')
    # thread_data::get_stack_size() returns stacksize_
    th = strip_comments(strip_pp(gen.read(TDHPP)))
    if not re.search(r'get_stack_size\s*\(\s*\)\s*const\s*(?:noexcept\s*)?\{\s*return\s+stacksize_\s*;\s*\}', th):
        fail('thread_data::get_stack_size() no longer returns stacksize_')
    return create, recycle, enum_map, take, put


ENUMHPP = 'libs/pika/coroutines/include/pika/coroutines/thread_enums.hpp'


RES_STMT = 'if(data.stacksize==execution::thread_stacksize::current){data.stacksize=threads::detail::get_self_stacksize_enum();}'


def resolution_site(b, what):
    """b: whitespace-free body of a create_thread function; returns (site, start of the run_now block, its end)"""
    res = RES_STMT
    split = 'if(data.run_now){'
    if b.count(split) != 1:
        fail('%s: expected exactly one `if (data.run_now) {` split' % what)
    s0 = b.index(split)
    s1 = balanced(b, s0 + len(split) - 1, '{', '}')
    # the run_now block must leave the function (otherwise the code after it is not "the staged path only")
    if not b[s0:s1].rstrip('}').endswith('return;'):
        fail('%s: the run_now block no longer ends with return' % what)
    if re.findall(r'data\.run_now=(?!=)', b):
        fail('%s: data.run_now is assigned inside the function' % what)
    occ = [m.start() for m in re.finditer(re.escape(res), b)]
    if len(re.findall(r'data\.stacksize=(?!=)', b)) != len(occ):
        fail('%s: data.stacksize is assigned in a way the translator does not know' % what)
    before = [i for i in occ if i < s0]
    inside = [i for i in occ if s0 <= i < s1]
    after = [i for i in occ if i >= s1]
    for i in before + after:
        # must be a top-level statement of the function body (brace depth 0)
        if b[:i].count('{') != b[:i].count('}'):
            fail('%s: the resolution of `current` is nested inside another block' % what)
    if before and not inside and not after:
        site = 'CurBeforeSplit'
    elif inside and not before and not after:
        site = 'CurRunNowOnly'
    elif after and not before and not inside:
        site = 'CurStagedOnly'
    elif not occ:
        site = 'CurNever'
    else:
        fail('%s: `current` is resolved at several places (%d before / %d inside / %d after the run_now block)'
             % (what, len(before), len(inside), len(after)))
    return site, s0, s1


TQMC = 'libs/pika/schedulers/include/pika/schedulers/thread_queue_mc.hpp'
QHT = 'libs/pika/schedulers/include/pika/schedulers/queue_holder_thread.hpp'
SPQ = 'libs/pika/schedulers/include/pika/schedulers/shared_priority_queue_scheduler.hpp'


def parse_mc():
    """thread_queue_mc (shared-priority scheduler): its own copy of thread creation.  The thread objects and the per-size
    heaps live in queue_holder_thread (create_thread_object / recycle_thread), the `current` resolution and the
    run_now split in thread_queue_mc::create_thread, the conversion of staged descriptions in thread_queue_mc::add_new"""
    create, recycle, take, put = parse_heap_code(QHT, 'queue_holder_thread', 'tid',
                                                 'p=threads::detail::thread_data_stackful::create(data,this,stacksize);')
    mc = strip_comments(strip_pp(gen.read(TQMC)))
    _, body = func(mc, r'\bvoid\s+create_thread\s*\(', 'thread_queue_mc::create_thread')
    b = nows(body)
    site, s0, s1 = resolution_site(b, 'thread_queue_mc::create_thread')
    if b[s0:s1].count('holder_->create_thread_object(tid,data);') != 1 or b.count('create_thread_object') != 1:
        fail('thread_queue_mc::create_thread: the run_now block no longer calls holder_->create_thread_object(tid, data) (once, only there)')
    if b[s1:].count('new_task_items_.push(task_description(std::move(data)));') != 1 or b.count('new_task_items_') != 1:
        fail('thread_queue_mc::create_thread: the staged path no longer pushes task_description(std::move(data))')
    if not re.search(r'using\s+task_description\s*=\s*threads::detail::thread_init_data\s*;', mc):
        fail('thread_queue_mc: task_description is no longer thread_init_data')
    _, abody = func(mc, r'\bstd::size_t\s+add_new\s*\(\s*std::int64_t\s+add_count\s*,\s*thread_queue_type\s*\*\s*addfrom\s*,\s*bool\s+stealing\s*\)',
                    'thread_queue_mc::add_new')
    ab = nows(abody)
    if ('addfrom->new_task_items_.pop(task,stealing)' not in ab or 'threads::detail::thread_init_data&data=task;' not in ab
            or ab.count('holder_->create_thread_object(tid,data);') != 1):
        fail('thread_queue_mc::add_new: no longer creates the thread object from the popped task description through holder_')
    # nothing else in the creation path of this scheduler touches the class; run_now is only ever turned off
    for path, what in ((QHT, 'queue_holder_thread'), (SPQ, 'shared_priority_queue_scheduler'), (TQMC, 'thread_queue_mc')):
        t = nows(strip_comments(strip_pp(gen.read(path))))
        n_res = t.count(RES_STMT)
        if n_res != (1 if path == TQMC and site != 'CurNever' else 0):
            fail('%s: `current` is resolved %d times in this file' % (what, n_res))
        if len(re.findall(r'\.stacksize=(?!=)', t)) != n_res:
            fail('%s: the stack size class of the init data is assigned outside thread_queue_mc::create_thread\'s resolution of `current`' % what)
        for v in re.findall(r'\brun_now=(?!=)(\w+)', t):
            if v != 'false':
                fail('%s: run_now is set to %s (the model only knows run_now being turned off)' % (what, v))
    # the holder's heaps are touched by these two functions (and the destructor) only
    q = nows(strip_comments(strip_pp(gen.read(QHT))))
    if len(re.findall(r'thread_heap_\w+_\.(?:push|pop|insert|erase|splice|emplace|clear)', q)) != len(recycle):
        fail('queue_holder_thread: the per-size heaps are modified outside create_thread_object / recycle_thread')
    if len(re.findall(r'heap->(?!empty\(\))', q)) != 2:
        fail('queue_holder_thread: the chosen heap is used outside the reuse branch of create_thread_object')
    return create, recycle, take, put, site


def parse_current_resolution():
    """thread_queue::create_thread: where `thread_stacksize::current` is replaced by the class of the creating task,
    relative to the `if (data.run_now)` split into the immediate and the staged creation path; and the class
    get_self_stacksize_enum() reports when the caller is not a pika thread"""
    tq = strip_comments(strip_pp(gen.read(TQHPP)))
    _, body = func(tq, r'\bvoid\s+create_thread\s*\(', 'thread_queue::create_thread')
    b = nows(body)
    site, s0, s1 = resolution_site(b, 'thread_queue::create_thread')
    # create_thread_object is reached from the run_now block (creator's context) and from add_new (converting worker)
    if 'create_thread_object(thrd,data,lk);' not in b[s0:s1]:
        fail('thread_queue::create_thread: the run_now block no longer calls create_thread_object(thrd, data, lk)')
    if 'new(td)task_description{std::move(data)' not in b[s1:]:
        fail('thread_queue::create_thread: the staged path no longer stores the init data in a task_description')
    _, abody = func(tq, r'\bstd::size_t\s+add_new\s*\(\s*std::int64_t\s+add_count\s*,\s*thread_queue\s*\*\s*addfrom\s*,\s*std::unique_lock',
                    'thread_queue::add_new')
    if 'threads::detail::thread_init_data&data=task->data;' not in nows(abody) or 'create_thread_object(thrd,data,lk);' not in nows(abody):
        fail('thread_queue::add_new: no longer creates the thread object from the stored task->data')
    # get_self_stacksize_enum(): class reported without a current pika thread
    td = strip_comments(strip_pp(gen.read(TDCPP)))
    _, gbody = func(td, r'execution::thread_stacksize\s+get_self_stacksize_enum\s*\(', 'get_self_stacksize_enum')
    g = nows(gbody)
    m = re.search(r'thrd_data\?thrd_data->get_stack_size_enum\(\):execution::thread_stacksize::(\w+);', g)
    if not m or 'thread_data*thrd_data=get_self_id_data();' not in g:
        fail('get_self_stacksize_enum: no longer `self ? self->get_stack_size_enum() : <class>`')
    fallback = m.group(1)
    en = nows(strip_comments(gen.read(ENUMHPP)))
    me = re.search(r'enumclassthread_stacksize(?::[\w:]+)?\{([^}]*)\}', en)
    if not me:
        fail('thread_enums.hpp: enum class thread_stacksize not found')
    en = me.group(1) + ','
    for _ in range(3):
        if fallback in ENUMS:
            break
        a = re.search(r'\b%s=(\w+),' % re.escape(fallback), en)
        if not a:
            fail('thread_stacksize::%s: cannot resolve the alias' % fallback)
        fallback = a.group(1)
    if fallback not in ENUMS:
        fail('thread_stacksize: fallback class of get_self_stacksize_enum is %s' % fallback)
    # thread_data::get_stack_size_enum() returns stacksize_enum_ (set from init_data.stacksize by constructor / rebind_base: td_ctor, td_rebind)
    th = strip_comments(strip_pp(gen.read(TDHPP)))
    if not re.search(r'get_stack_size_enum\s*\(\s*\)\s*const\s*(?:noexcept\s*)?\{\s*return\s+stacksize_enum_\s*;\s*\}', th):
        fail('thread_data::get_stack_size_enum() no longer returns stacksize_enum_')
    # scheduler_base::get_stack_size resolves a remaining `current` in the context of its caller
    sb = nows(strip_comments(strip_pp(gen.read(SBHPP))))
    if 'if(stacksize==execution::thread_stacksize::current){stacksize=threads::detail::get_self_stacksize_enum();}' not in sb:
        fail('scheduler_base::get_stack_size no longer resolves thread_stacksize::current through get_self_stacksize_enum()')
    return site, ENUMS[fallback]


def coq_list(items, indent='  '):
    if not items:
        return '[]'
    return '[' + (';\n' + indent + ' ').join(items) + ']'


@gen.generator
def gen_swapctx():
    instrs, raw = parse_asm()
    lay = parse_layout()
    members, td_ctor, td_rebind, td_calls = parse_thread_data()
    c_ctor, c_exit, c_rebind, exit_calls = parse_coroutine()
    create, recycle, enum_map, tq_take, tq_put = parse_heaps()
    cur_site, no_self = parse_current_resolution()
    mc_create, mc_recycle, mc_take, mc_put, mc_site = parse_mc()
    out = []
    out.append('(* GENERATED by tools/genmods/c12.py from $VERIF_REPO on every run of tools/check — do not edit. *)')
    out.append('From Coq Require Import ZArith List.')
    out.append('From Pika Require Import Model.CtxSyntax.')
    out.append('Import ListNotations.')
    out.append('Local Open Scope Z_scope.')
    out.append('')
    out.append('(* %s : PIKA_COROUTINE_SWAPCONTEXT (swapcontext_stack, swapcontext_stack2) *)' % SWAP)
    out.append('Definition swapcontext : list instr :=')
    out.append('  ' + coq_list(instrs, '  ') + '.')
    out.append('')
    out.append('(* %s, x86-64 branch *)' % CTXHPP)
    out.append('Definition context_size : Z := %d.' % lay['context_size'])
    out.append('Definition cb_idx : Z := %d.' % lay['cb_idx'])
    out.append('Definition funp_idx : Z := %d.' % lay['funp_idx'])
    out.append('')
    out.append('(* %s : constructor initialiser list (members: %s) *)' % (TDCPP, ' '.join(members)))
    out.append('Definition td_ctor : list (tfield * rvalue) :=')
    out.append('  ' + coq_list(['(%s, %s)' % x for x in td_ctor]) + '.')
    out.append('(* thread_data::rebind_base, in statement order (calls: %s) *)' % ' '.join(td_calls))
    out.append('Definition td_rebind : list (tfield * rvalue) :=')
    out.append('  ' + coq_list(['(%s, %s)' % x for x in td_rebind]) + '.')
    out.append('')
    out.append('(* context_base / coroutine_impl: constructor (+ init()), exit path of operator() (%s), rebind *)' % ' '.join(exit_calls))
    out.append('Definition coro_ctor : list (cfield * crvalue) :=')
    out.append('  ' + coq_list(['(%s, %s)' % x for x in c_ctor]) + '.')
    out.append('Definition coro_exit : list (cfield * crvalue) :=')
    out.append('  ' + coq_list(['(%s, %s)' % x for x in c_exit]) + '.')
    out.append('Definition coro_rebind : list (cfield * crvalue) :=')
    out.append('  ' + coq_list(['(%s, %s)' % x for x in c_rebind]) + '.')
    out.append('')
    out.append('(* %s : if-chains (size parameter compared, heap chosen), in order *)' % TQHPP)
    out.append('Definition create_chain : list (sclass * sclass) :=')
    out.append('  ' + coq_list(['(%s, %s)' % x for x in create]) + '.')
    out.append('Definition recycle_chain : list (sclass * sclass) :=')
    out.append('  ' + coq_list(['(%s, %s)' % x for x in recycle]) + '.')
    out.append('(* scheduler_base::get_stack_size: enum value -> size parameter *)')
    out.append('Definition enum_size : list (sclass * sclass) :=')
    out.append('  ' + coq_list(['(%s, %s)' % x for x in enum_map]) + '.')
    out.append('(* thread_queue::create_thread: where thread_stacksize::current is replaced by the creating task\'s class, relative to')
    out.append('   the `if (data.run_now)` split; get_self_stacksize_enum() without a current pika thread *)')
    out.append('Definition current_resolution : cur_site := %s.' % cur_site)
    out.append('Definition no_self_class : sclass := %s.' % no_self)
    out.append('(* which end of the heap (std::list) create_thread_object takes a recycled object from / recycle_thread puts it back at *)')
    out.append('Definition tq_heap_take : hend := %s.' % tq_take)
    out.append('Definition tq_heap_put : hend := %s.' % tq_put)
    out.append('')
    out.append('(* thread_queue_mc (shared-priority scheduler), its own copy: %s : create_thread_object / recycle_thread;' % QHT)
    out.append('   %s : create_thread (resolution of `current`, run_now split), add_new *)' % TQMC)
    out.append('Definition mc_create_chain : list (sclass * sclass) :=')
    out.append('  ' + coq_list(['(%s, %s)' % x for x in mc_create]) + '.')
    out.append('Definition mc_recycle_chain : list (sclass * sclass) :=')
    out.append('  ' + coq_list(['(%s, %s)' % x for x in mc_recycle]) + '.')
    out.append('Definition mc_heap_take : hend := %s.' % mc_take)
    out.append('Definition mc_heap_put : hend := %s.' % mc_put)
    out.append('Definition mc_current_resolution : cur_site := %s.' % mc_site)
    out.append('')
    changed = gen.write_if_changed('GenSwapctx.v', '\n'.join(out))
    return {'file': 'coq/Gen/GenSwapctx.v', 'changed': changed, 'instructions': len(instrs), 'asm': raw,
            'context_size': lay['context_size'], 'cb_idx': lay['cb_idx'], 'funp_idx': lay['funp_idx'],
            'routines_called': lay['routines_called'],
            'td_ctor': len(td_ctor), 'td_rebind': len(td_rebind), 'coro_rebind': len(c_rebind),
            'create_chain': create, 'recycle_chain': recycle, 'current_resolution': cur_site, 'no_self_class': no_self,
            'heap_ends': [tq_take, tq_put], 'mc_create_chain': mc_create, 'mc_recycle_chain': mc_recycle,
            'mc_heap_ends': [mc_take, mc_put], 'mc_current_resolution': mc_site,
            'assumed_undefined': OPTIONAL_FEATURES}
