# tools/genmods/c16.py — translator for C16: source text of pika -> coq/Gen/GenIni.v
#
# Regenerated from $VERIF_REPO's working tree on every run:
#   builtin_ini   every `key = value` line of the built-in ini (runtime_configuration.cpp,
#                 pre_initialize_ini + pre_initialize_logging_ini) with its section prefix.  The
#                 initializer list is passed through the real C++ preprocessor with the build's
#                 include path, so `#if` blocks and PIKA_PP_STRINGIZE(PIKA_PP_EXPAND(X)) defaults
#                 are what the library was compiled with.
#   opt_key       `--pika:<option>` -> ini key, read from the handle_* functions /
#                 handle_arguments / update_logging_settings of command_line_handling.cpp
#   pika_options  every option registered in parse_command_line.cpp with its kind
#                 (0 flag, 1 single string value, 2 composing vector, 3 value with implicit value, 4 single non-string value)
#   sched_table   the prefix table of partitioner::setup_schedulers, in source order, with the
#                 numeric value of the scheduling_policy enumerator it selects
# Anything unexpected raises TieError (the check reports the tie as broken).
import glob
import os
import re
import subprocess

import gen
from vlib import BUILD, REPO, TieError, V

RC = 'libs/pika/runtime_configuration/src/runtime_configuration.cpp'
CLH = 'libs/pika/command_line_handling/src/command_line_handling.cpp'
PCL = 'libs/pika/command_line_handling/src/parse_command_line.cpp'
DP = 'libs/pika/resource_partitioner/src/detail_partitioner.cpp'
PF = 'libs/pika/resource_partitioner/include/pika/resource_partitioner/partitioner_fwd.hpp'

# options that are not settings (no ini key is expected for them)
NON_SETTINGS = {'pika:help', 'pika:version', 'pika:info', 'pika:options-file', 'pika:print-bind',
                'pika:app-config', 'pika:config', 'pika:ini', 'pika:exit', 'pika:dump-config-initial',
                'pika:dump-config', 'pika:debug-clp', 'pika:ignore', 'pika:positional',
                'pika:mpi-enable-pool', 'pika:mpi-completion-mode', 'pika:attach-debugger'}


def coq_str(s):
    for ch in s:
        if ord(ch) < 32 or ord(ch) > 126:
            raise TieError('non-printable character in translated string %r' % s)
    return '"' + s.replace('"', '""') + '"'


def strip_cpp_comments(t):
    out = []
    i = 0
    n = len(t)
    while i < n:
        c = t[i]
        if c == '"':
            j = i + 1
            while j < n and t[j] != '"':
                j += 2 if t[j] == '\\' else 1
            out.append(t[i:j + 1])
            i = j + 1
        elif t.startswith('//', i):
            j = t.find('\n', i)
            i = n if j < 0 else j
        elif t.startswith('/*', i):
            j = t.find('*/', i)
            i = n if j < 0 else j + 2
        else:
            out.append(c)
            i += 1
    return ''.join(out)


def unescape_c(s):
    out = []
    i = 0
    while i < len(s):
        if s[i] == '\\' and i + 1 < len(s):
            m = {'n': '\n', 't': '\t', '\\': '\\', '"': '"', "'": "'"}.get(s[i + 1])
            if m is None:
                raise TieError('unsupported escape in C string: ' + s)
            out.append(m)
            i += 2
        else:
            out.append(s[i])
            i += 1
    return ''.join(out)


def split_top_commas(t):
    parts, cur, depth, i = [], [], 0, 0
    while i < len(t):
        c = t[i]
        if c == '"':
            j = i + 1
            while j < len(t) and t[j] != '"':
                j += 2 if t[j] == '\\' else 1
            cur.append(t[i:j + 1])
            i = j + 1
            continue
        if c in '([{':
            depth += 1
        elif c in ')]}':
            depth -= 1
        if c == ',' and depth == 0:
            parts.append(''.join(cur))
            cur = []
        else:
            cur.append(c)
        i += 1
    if ''.join(cur).strip():
        parts.append(''.join(cur))
    return [p.strip() for p in parts if p.strip()]


def initializer_after(src, marker, what):
    p = src.find(marker)
    if p < 0:
        raise TieError('%s: cannot find `%s`' % (what, marker))
    q = src.find('{', p)
    depth, i = 0, q
    while i < len(src):
        c = src[i]
        if c == '"':
            j = i + 1
            while j < len(src) and src[j] != '"':
                j += 2 if src[j] == '\\' else 1
            i = j + 1
            continue
        if c == '{':
            depth += 1
        elif c == '}':
            depth -= 1
            if depth == 0:
                return src[q + 1:i]
        i += 1
    raise TieError('%s: unbalanced initializer' % what)


def preprocess(text):
    """run the real preprocessor (build include path, build defines) over an initializer list"""
    b = BUILD + '/pika'
    if not os.path.exists(b + '/libs/pika/config/include/pika/config/defines.hpp'):
        rc = subprocess.run([V + '/tools/buildpika'], stdout=subprocess.PIPE, stderr=subprocess.STDOUT)
        if rc.returncode != 0:
            raise TieError('libpika does not configure/build, cannot preprocess the built-in ini')
    inc = []
    for d in sorted(glob.glob(REPO + '/libs/pika/*/include')) + sorted(glob.glob(b + '/libs/pika/*/include')):
        inc.append('-I' + d)
    inc.append('-I' + b)
    os.makedirs(BUILD + '/c16', exist_ok=True)
    tmp = BUILD + '/c16/ini_pp.cpp'
    with open(tmp, 'w') as f:
        f.write('#include <pika/config.hpp>\n#include <pika/preprocessor/expand.hpp>\n'
                '#include <pika/preprocessor/stringize.hpp>\n#include <pika/version.hpp>\n'
                'C16_BEGIN_MARK\n' + text + '\nC16_END_MARK\n')
    p = subprocess.run(['g++', '-std=c++20', '-E', '-P', '-DPIKA_VERIF'] + inc + [tmp], stdout=subprocess.PIPE,
                       stderr=subprocess.PIPE, text=True, timeout=120)
    if p.returncode != 0:
        raise TieError('preprocessing the built-in ini failed: ' + p.stderr[-800:])
    o = p.stdout
    a, z = o.find('C16_BEGIN_MARK'), o.find('C16_END_MARK')
    if a < 0 or z < 0:
        raise TieError('preprocessor output lacks the markers')
    return o[a + len('C16_BEGIN_MARK'):z]


def ini_lines(src, marker, what):
    body = preprocess(strip_cpp_comments(initializer_after(src, marker, what)))
    res = []
    section = None
    for el in split_top_commas(body):
        lits = re.findall(r'"((?:[^"\\]|\\.)*)"', el)
        rest = re.sub(r'"((?:[^"\\]|\\.)*)"', '', el).strip()
        if not lits:
            raise TieError('%s: element without string literal: %s' % (what, el[:80]))
        line = unescape_c(''.join(lits)).strip()
        if rest:
            # dynamic element ("pid = " + std::to_string(getpid())): value not a constant
            if '=' not in line:
                raise TieError('%s: cannot understand dynamic element %s' % (what, el[:80]))
            res.append((section, line.split('=', 1)[0].strip(), None))
            continue
        if line.startswith('[') and line.endswith(']'):
            section = line[1:-1]
            continue
        if '=' not in line:
            raise TieError('%s: not a key = value line: %s' % (what, line))
        k, v = line.split('=', 1)
        res.append((section, k.strip(), v.strip()))
    return res


def functions(src):
    """(name, body) of every function definition at namespace level whose name matters to us"""
    out = []
    for m in re.finditer(r'\b((?:command_line_handling::)?(?:handle_\w+|update_logging_settings))\s*\(', src):
        # find the parameter list end, then expect `{` (definition) not `;`
        i = m.end() - 1
        depth = 0
        while i < len(src):
            if src[i] == '(':
                depth += 1
            elif src[i] == ')':
                depth -= 1
                if depth == 0:
                    break
            i += 1
        j = i + 1
        while j < len(src) and src[j] in ' \t\r\n':
            j += 1
        if src.startswith('const', j):
            j += 5
            while j < len(src) and src[j] in ' \t\r\n':
                j += 1
        if j >= len(src) or src[j] != '{':
            continue
        # must be at namespace level: preceded (on its line) by a return type, not by `=`/`.`/`(`
        ls = src.rfind('\n', 0, m.start()) + 1
        pre = src[ls:m.start()]
        if re.search(r'[=.(,]|return|detail::$', pre.strip()) and not pre.strip().endswith('void') and \
                not re.match(r'^\s*[\w:<>\s]+$', pre):
            continue
        depth, k = 0, j
        while k < len(src):
            c = src[k]
            if c == '"':
                e = k + 1
                while e < len(src) and src[e] != '"':
                    e += 2 if src[e] == '\\' else 1
                k = e + 1
                continue
            if c == '{':
                depth += 1
            elif c == '}':
                depth -= 1
                if depth == 0:
                    break
            k += 1
        out.append((m.group(1).split('::')[-1], src[j:k + 1]))
    return out


def window(body, pos):
    """the statement (or if-block) that contains position pos"""
    s = max(body.rfind(';', 0, pos), body.rfind('{', 0, pos), body.rfind('}', 0, pos)) + 1
    head = body[s:pos].lstrip()
    if head.startswith('if'):
        # through the end of the block (or single statement) controlled by this if
        i = body.find('(', s)
        depth = 0
        while i < len(body):
            if body[i] == '(':
                depth += 1
            elif body[i] == ')':
                depth -= 1
                if depth == 0:
                    break
            i += 1
        j = i + 1
        while j < len(body) and body[j] in ' \t\r\n':
            j += 1
        if j < len(body) and body[j] == '{':
            depth, k = 0, j
            while k < len(body):
                if body[k] == '{':
                    depth += 1
                elif body[k] == '}':
                    depth -= 1
                    if depth == 0:
                        break
                k += 1
            return body[s:k + 1]
        e = body.find(';', j)
        return body[s:e + 1]
    e = body.find(';', pos)
    return body[s:e + 1]


def option_keys(src):
    src = strip_cpp_comments(src)
    # drop the PIKA_HAVE_MPI handlers (not compiled in the standard variant)
    table = {}
    for name, body in functions(src):
        opts = [(m.group(1), m.start()) for m in re.finditer(r'vm_?\s*\.\s*count\(\s*"(pika:[a-z-]+)"\s*\)', body)]
        keys = sorted(set(re.findall(r'"(pika\.[a-z_.]+?)!?=?"', body)))
        distinct = sorted(set(o for o, _ in opts))
        for o, pos in opts:
            if o in NON_SETTINGS:
                continue
            if len(distinct) == 1 and len([k for k in keys]) >= 1 and name != 'handle_arguments':
                cand = re.findall(r'cfgmap\s*\.\s*get_value<[^>]*>\(\s*"(pika\.[a-z_.]+)"', body)
                if not cand:
                    raise TieError('%s: no cfgmap key next to option %s' % (name, o))
                k = cand[0]
            else:
                w = window(body, pos)
                cand = re.findall(r'"(pika\.[a-z_.]+?)!?=?"', w)
                if not cand:
                    raise TieError('%s: no ini key in the statement that tests option %s' % (name, o))
                k = cand[0]
            if table.get(o, k) != k:
                raise TieError('option %s maps to two ini keys: %s and %s' % (o, table[o], k))
            table[o] = k
    return table


def registered_options(src):
    src = strip_cpp_comments(src)
    p = src.find('void parse_commandline(')
    if p < 0:
        raise TieError('parse_commandline not found')
    body = src[p:]
    # drop PIKA_HAVE_MPI block (standard variant)
    body = re.sub(r'#if defined\(PIKA_HAVE_MPI\).*?#endif', '', body, flags=re.S)
    opts = []
    for m in re.finditer(r'\(\s*"(pika:[a-z-]+)"\s*,\s*([^";]*?)(?:"|log_level_description)', body):
        name, spec = m.group(1), m.group(2)
        if 'value<' not in spec:
            kind = 0
        elif 'composing' in spec or 'std::vector' in spec:
            kind = 2
        elif 'implicit_value' in spec:
            kind = 3
        elif 'value<std::string>' in spec:
            kind = 1
        else:
            kind = 4
        if body[max(0, m.start() - 6):m.start()].endswith('pd.add'):
            continue
        if name not in [o for o, _ in opts]:
            opts.append((name, kind))
    if len(opts) < 20:
        raise TieError('only %d options found in parse_command_line.cpp' % len(opts))
    if 'unix_style' not in body or 'allow_unregistered' not in src:
        raise TieError('parser style changed (unix_style / allow_unregistered expected)')
    return opts


def scheduler_table(src, fwd):
    src = strip_cpp_comments(src)
    p = src.find('void partitioner::setup_schedulers()')
    if p < 0:
        raise TieError('setup_schedulers not found')
    body = src[p:p + 4000]
    enum = {}
    m = re.search(r'enum scheduling_policy\s*\{(.*?)\}', strip_cpp_comments(fwd), re.S)
    if not m:
        raise TieError('enum scheduling_policy not found')
    for name, val in re.findall(r'(\w+)\s*=\s*(-?\d+)', m.group(1)):
        enum[name] = int(val)
    tab = []
    for nm, pol in re.findall(
            r'0 == std::string\("([a-z-]+)"\)\.find\(default_scheduler_str\)\)\s*\{\s*default_scheduler = scheduling_policy::(\w+);',
            body):
        if pol not in enum or enum[pol] < 0:
            raise TieError('unknown scheduling policy ' + pol)
        tab.append((nm, enum[pol]))
    if len(tab) < 6:
        raise TieError('scheduler name table not recognised')
    return tab


@gen.generator
def gen_ini():
    rc = gen.read(RC)
    static = ini_lines(rc, 'std::vector<std::string> lines = {\n            // clang-format off', 'built-in ini')
    p = rc.find('void runtime_configuration::pre_initialize_logging_ini()')
    if p < 0:
        raise TieError('pre_initialize_logging_ini not found')
    logging = ini_lines(rc[p:], 'std::vector<std::string> lines = {', 'logging ini')
    entries = []
    for sec, k, v in static + logging:
        if sec is None:
            raise TieError('ini entry outside a section: ' + k)
        if v is None:
            continue
        entries.append((sec + '.' + k, v))
    keys = [k for k, _ in entries]
    if len(set(keys)) != len(keys):
        raise TieError('duplicate key in the built-in ini')
    ok = option_keys(gen.read(CLH))
    opts = registered_options(gen.read(PCL))
    for o, kind in opts:
        if o not in NON_SETTINGS and o not in ok:
            raise TieError('option --%s is registered but no handler maps it to an ini key' % o)
    for o in ok:
        if o not in [x for x, _ in opts]:
            raise TieError('handler reads option --%s which is not registered' % o)
    # every mapped key whose option is a plain setting must have a built-in placeholder line
    for o, k in sorted(ok.items()):
        if k not in keys and k not in ('pika.thread_queue.high_priority_queues',):
            raise TieError('ini key %s (option --%s) has no line in the built-in ini' % (k, o))
    sched = scheduler_table(gen.read(DP), gen.read(PF))
    t = ['(* GENERATED by tools/genmods/c16.py from the pika source tree - do not edit *)',
         'From Coq Require Import String List.', 'Import ListNotations.', 'Open Scope string_scope.', '',
         '(* built-in ini: full key, raw value (placeholders unexpanded), in source order *)',
         'Definition builtin_ini : list (string * string) := [']
    t.append(';\n'.join('  (%s, %s)' % (coq_str(k), coq_str(v)) for k, v in entries))
    t += ['].', '', '(* --pika:<option> -> ini key (handle_* functions of command_line_handling.cpp) *)',
          'Definition opt_key : list (string * string) := [']
    t.append(';\n'.join('  (%s, %s)' % (coq_str(o), coq_str(k)) for o, k in sorted(ok.items())))
    t += ['].', '', '(* registered options: name, kind (0 flag, 1 string value, 2 composing, 3 implicit value, 4 numeric value) *)',
          'Definition pika_options : list (string * nat) := [']
    t.append(';\n'.join('  (%s, %d)' % (coq_str(o), k) for o, k in opts))
    t += ['].', '', '(* partitioner::setup_schedulers: prefix table in source order -> scheduling_policy value *)',
          'Definition sched_table : list (string * nat) := [']
    t.append(';\n'.join('  (%s, %d)' % (coq_str(n), v) for n, v in sched))
    t += ['].', '']
    changed = gen.write_if_changed('GenIni.v', '\n'.join(t))
    return {'builtin_ini_lines': len(entries), 'options': len(opts), 'opt_key': len(ok), 'schedulers': len(sched),
            'changed': changed}
