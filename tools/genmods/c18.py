# tools/genmods/c18.py — translator for the storage decisions of the type-erased wrappers (C18):
#   libs/pika/execution_base/include/pika/execution_base/any_sender.hpp
#   libs/pika/functional/include/pika/functional/detail/basic_function.hpp
#   libs/pika/functional/include/pika/functional/detail/vtable/vtable.hpp      -> coq/Gen/GenErased.v
#
# What is translated (text -> Coq, no guessing; anything of another shape raises TieError):
#   * the two conditions and the result of movable_sbo_storage::can_use_embedded_storage<Impl>()
#       constexpr bool fits_storage = sizeof(std::decay_t<Impl>) <op> embedded_storage_size;
#       constexpr bool sufficiently_aligned = alignof(std::decay_t<Impl>) <op> alignment_size;
#       return <expr over the two names, &&, ||, !>;
#   * the default AlignmentSize template argument (k * sizeof(void*) or sizeof(void*)), the alignas of the
#     embedded buffer, the EmbeddedStorageSize used by unique_any_sender, any_sender and
#     any_operation_state_holder
#   * function_storage_size and the heap conditions of vtable::allocate / vtable::_deallocate
#       if (sizeof(T) <op> storage_size)
#   * whether vtable::allocate / _deallocate look at alignof(T) at all (they do not: finding C18:FUN:misaligned) and the
#     declaration of function_base's inline buffer (no alignas)
#   * the ORDER of the primitive steps of every special member of function_base / basic_function, of the vtable
#     leaves (allocate, _deallocate, copyable_vtable::_copy) and of movable_/copyable_sbo_storage (both settings of
#     PIKA_DETAIL_ENABLE_ANY_SENDER_SBO), as `prog` terms (see step_lists below)
import re

import gen
from vlib import TieError

ANY = 'libs/pika/execution_base/include/pika/execution_base/any_sender.hpp'
BF = 'libs/pika/functional/include/pika/functional/detail/basic_function.hpp'
VT = 'libs/pika/functional/include/pika/functional/detail/vtable/vtable.hpp'

CMP = {'<=': 'N.leb %s %s', '<': 'N.ltb %s %s', '>=': 'N.leb %s %s', '>': 'N.ltb %s %s'}


def strip(src):
    src = re.sub(r'/\*.*?\*/', ' ', src, flags=re.S)
    return re.sub(r'//[^\n]*', ' ', src)


def cmp_coq(op, a, b):
    if op not in CMP:
        raise TieError('unexpected comparison operator %r' % op)
    if op in ('>=', '>'):
        a, b = b, a
    return CMP[op] % (a, b)


def one(pattern, src, what, flags=re.S):
    ms = re.findall(pattern, src, flags)
    if len(ms) != 1:
        raise TieError('expected exactly one %s, found %d' % (what, len(ms)))
    return ms[0]


def size_expr(txt, what):
    txt = txt.strip()
    m = re.fullmatch(r'(?:(\d+)\s*\*\s*)?sizeof\s*\(\s*void\s*\*\s*\)', txt)
    if not m:
        raise TieError('%s is not k * sizeof(void*): %r' % (what, txt))
    return int(m.group(1) or '1')


def bool_expr(txt, names):
    toks = re.findall(r'&&|\|\||!|\(|\)|[A-Za-z_]\w*|\S', txt)
    out = []
    for t in toks:
        if t == '&&':
            out.append('&&')
        elif t == '||':
            out.append('||')
        elif t == '!':
            out.append('negb')
        elif t in '()':
            out.append(t)
        elif t in names:
            out.append(names[t])
        else:
            raise TieError('unexpected token %r in the result of can_use_embedded_storage' % t)
    return ' '.join(out)


# ---------------------------------------------------------------------------------------------
# step lists of the special members (Task "tie the ORDER of the primitive steps to the source")
#
# A member function body is parsed into a tree of statements
#     stmt ::= Do <prim> | If <cond> [stmt...] [stmt...]
# by a small statement tokenizer (balanced braces / parentheses, `if (...) s [else s]`, `if constexpr`,
# constructor initialiser lists, the two-valued preprocessor conditional on
# PIKA_DETAIL_ENABLE_ANY_SENDER_SBO).  Every simple statement and every condition must be one of the
# shapes listed in the tables below (compared with all white space removed); anything else raises
# TieError naming the member, the line and the statement text.  Declarations that have no run-time
# effect (`using`, `static_assert`) are skipped.
CPP = 'libs/pika/functional/src/basic_function.cpp'
CVT = 'libs/pika/functional/include/pika/functional/detail/vtable/copyable_vtable.hpp'

SBO_MACRO = 'PIKA_DETAIL_ENABLE_ANY_SENDER_SBO'

# ---- function family: statement text (white space removed) -> primitive step
F_PRIMS = {
    'vptr(other.vptr)': 'FInitVptrFromOther',
    'object(other.object)': 'FInitObjectFromOther',
    'object=vptr->copy(storage,detail::function_storage_size,other.object,false);': 'FCopyIntoOwnStorage',
    'object=vptr->copy(object,std::size_t(-1),other.object,true);': 'FCopyReuseObject',
    'std::memcpy(storage,other.storage,function_storage_size);': 'FMemcpyBuffer',
    'object=&storage;': 'FObjectToOwnBuffer',
    'other.vptr=empty_vptr;': 'FOtherVptrEmpty',
    'other.object=nullptr;': 'FOtherObjectNull',
    'destroy();': 'FDestroy',
    'PIKA_ASSERT(other.object!=nullptr);': 'FAssert',
    'PIKA_ASSERT(object!=nullptr);': 'FAssert',
    'vptr=other.vptr;': 'FVptrFromOther',
    'object=nullptr;': 'FObjectNull',
    'swap(other);': 'FSwapWithOther',
    'other.reset(empty_vtable);': 'FOtherReset',
    'vptr->deallocate(object,function_storage_size,true);': 'FDeallocateDestroy',
    'vptr=empty_vptr;': 'FVptrEmpty',
    'std::swap(vptr,f.vptr);': 'FSwapVptr',
    'std::swap(object,f.object);': 'FSwapObject',
    'std::swap(storage,f.storage);': 'FSwapBuffer',
    'f.object=&f.storage;': 'FOtherObjectToItsBuffer',
    # basic_function
    'base_type(other,get_empty_vtable())': 'BBaseCopyCtor',
    'base_type(std::move(other),get_empty_vtable())': 'BBaseMoveCtor',
    'base_type(get_empty_vtable())': 'BBaseEmptyCtor',
    'base_type::op_assign(other,get_empty_vtable());': 'BOpAssignCopy',
    'base_type::op_assign(std::move(other),get_empty_vtable());': 'BOpAssignMove',
    'return*this;': 'BReturnThis',
    'base_type::reset(get_empty_vtable());': 'BReset',
    'vtableconst*f_vptr=get_vtable<T>();': 'BGetVtable',
    'void*buffer=nullptr;': 'BBufferNull',
    'buffer=object;': 'BBufferIsObject',
    'vtable::templateget<T>(object).~T();': 'BDestroyInPlace',
    'vptr=f_vptr;': 'BVptrFromArg',
    'buffer=vtable::templateallocate<T>(storage,function_storage_size);': 'BAllocate',
    'object=::new(buffer)T(std::forward<F>(f));': 'BConstruct',
    # vtable leaves
    'vtable::get<T>(storage).~T();': 'VDestroyT',
    'get<T>(obj).~T();': 'VDestroyT',
    'void*buffer=vtable::allocate<T>(storage,storage_size);': 'VAllocate',
    'return::new(buffer)T(vtable::get<T>(src));': 'VConstructCopy',
    'returnnewaligned_storage_helper<T>;': 'VNewBlock',
    'returnstorage;': 'VReturnStorage',
    'deletestatic_cast<aligned_storage_helper<T>*>(obj);': 'VDeleteBlock',
}
F_CONDS = {
    'other.object!=nullptr': 'COtherObjectNonNull',
    'object==&other.storage': 'CObjectIsOtherBuffer',
    'vptr==other.vptr': 'CVptrEqOther',
    'this!=&other&&object': 'CNotSelfAndObject',
    'this!=&other': 'CNotSelf',
    'object!=nullptr': 'CObjectNonNull',
    'object==&f.storage': 'CObjectIsOtherBuffer',
    'f.object==&storage': 'COtherObjectIsOwnBuffer',
    '!detail::is_empty_function(f)': 'CArgNonEmpty',
    'vptr==f_vptr': 'CVptrEqArg',
    'destroy': 'CDestroyFlag',
    'sizeof(T)>storage_size': 'CSizeGtStorage',
}
# ---- sender family
S_PRIMS = {
    'PIKA_ASSERT(!empty());': 'SAssert',
    'PIKA_ASSERT(empty());': 'SAssert',
    'PIKA_ASSERT(&other!=this);': 'SAssert',
    'PIKA_ASSERT(static_cast<void*>(&other)!=static_cast<void*>(this));': 'SAssert',
    'get().~base_type();': 'SDestroyEmbedded',
    'deleteheap_storage;': 'SDeleteHeap',
    'heap_storage=nullptr;': 'SHeapNull',
    'reset_vtable();': 'SResetVtable',
    'autop=reinterpret_cast<base_type*>(&embedded_storage);': 'SPointerToOwnBuffer',
    'base_type*p=reinterpret_cast<base_type*>(&embedded_storage);': 'SPointerToOwnBuffer',
    'Impl*p=reinterpret_cast<Impl*>(&embedded_storage);': 'SPointerToOwnBuffer',
    'other.get().move_into(p);': 'SMoveInto',
    'other.get().clone_into(p);': 'SCloneInto',
    'object=p;': 'SObjectIsP',
    'other.get().~base_type();': 'SDestroyOtherEmbedded',
    'heap_storage=other.heap_storage;': 'SStealHeap',
    'other.heap_storage=nullptr;': 'SOtherHeapNull',
    'object=heap_storage;': 'SObjectIsHeap',
    'other.reset_vtable();': 'SOtherResetVtable',
    'release();': 'SRelease',
    'move_assign(std::move(other));': 'SMoveAssign',
    'copy_assign(other);': 'SCopyAssign',
    'return*this;': 'SReturnThis',
    'new(p)Impl(std::forward<Ts>(ts)...);': 'SConstructEmbedded',
    'heap_storage=newImpl(std::forward<Ts>(ts)...);': 'SNewHeap',
    'heap_storage=other.get().clone();': 'SCloneHeap',
    'storage_base_type()': 'SBaseDefaultCtor',
}
S_CONDS = {
    'using_embedded_storage()': 'CUsingEmbedded',
    'other.using_embedded_storage()': 'COtherUsingEmbedded',
    '!other.empty()': 'COtherNonEmpty',
    '!empty()': 'CNonEmpty',
    '&other!=this': 'CNotSelfS',
    'static_cast<void*>(&other)!=static_cast<void*>(this)': 'CNotSelfS',
    'can_use_embedded_storage<Impl>()': 'CCanEmbed',
}
SKIP = re.compile(r'^(using\b|static_assert\b)')


def _lines_before(src, pos):
    return src.count('\n', 0, pos) + 1


def blank_comments(src):
    """comments -> spaces, keeping every newline (line numbers stay those of the file)"""
    def bl(m):
        return re.sub(r'[^\n]', ' ', m.group(0))
    src = re.sub(r'/\*.*?\*/', bl, src, flags=re.S)
    return re.sub(r'//[^\n]*', bl, src)


def preprocess(src, sbo):
    """resolve the #if defined(PIKA_DETAIL_ENABLE_ANY_SENDER_SBO) / #else / #endif conditionals (lines of the
    inactive branch and the directives themselves become empty lines); other directives are left alone"""
    out = []
    stack = []
    for ln in src.split('\n'):
        s = ln.strip()
        if re.fullmatch(r'#\s*if\s+defined\s*\(\s*%s\s*\)' % SBO_MACRO, s):
            stack.append(['sbo', sbo])
            out.append('')
        elif re.match(r'#\s*if', s):
            stack.append(['other', True])
            out.append(ln)
        elif re.match(r'#\s*else\b', s) and stack and stack[-1][0] == 'sbo':
            stack[-1][1] = not stack[-1][1]
            out.append('')
        elif re.match(r'#\s*endif\b', s):
            if not stack:
                raise TieError('unbalanced #endif in ' + ANY)
            k = stack.pop()
            out.append('' if k[0] == 'sbo' else ln)
        else:
            out.append(ln if all(a for (k, a) in stack if k == 'sbo') else '')
    if stack:
        raise TieError('unbalanced #if in ' + ANY)
    return '\n'.join(out)


def match_close(src, i, o, c):
    """src[i] == o; index of the matching c"""
    depth = 0
    for k in range(i, len(src)):
        if src[k] == o:
            depth += 1
        elif src[k] == c:
            depth -= 1
            if depth == 0:
                return k
    raise TieError('unbalanced %s%s' % (o, c))


class Member:
    def __init__(self, name, file, line, inits, body, body_off, src):
        self.name, self.file, self.line, self.inits, self.body, self.body_off, self.src = name, file, line, inits, body, body_off, src


def find_member(src, file, name, sig_re, nth=0, count=1):
    """the definition whose head matches sig_re (up to and including the closing parenthesis of the parameter
    list); returns initialiser list and body"""
    ms = [m for m in re.finditer(sig_re, src)]
    defs = []
    for m in ms:
        k = m.end()
        mm = re.match(r'(?:\s|const\b|noexcept\b|&(?!&))*', src[k:])     # cv / ref qualifiers / noexcept
        k += mm.end()
        inits = []
        if src[k] == ':':
            b = k + 1
            depth = 0
            start = b
            while True:
                ch = src[b]
                if ch in '(<':
                    depth += 1
                elif ch in ')>':
                    depth -= 1
                elif ch == ',' and depth == 0:
                    inits.append((src[start:b], start))
                    start = b + 1
                elif ch == '{' and depth == 0:
                    inits.append((src[start:b], start))
                    break
                b += 1
            k = b
        if src[k] != '{':
            continue            # a declaration (`;`), `= default`, `= delete`
        e = match_close(src, k, '{', '}')
        defs.append(Member(name, file, _lines_before(src, m.start()), inits, src[k + 1:e], k + 1, src))
    if len(defs) != count:
        raise TieError('%s: expected %d definition(s) of %s, found %d' % (file, count, name, len(defs)))
    return defs[nth]


def parse_stmts(mem, text, off, prims, conds):
    """text -> list of ('do', prim) | ('if', cond, [..], [..])"""
    out = []
    i = 0
    n = len(text)

    def where(p):
        return '%s:%d (%s)' % (mem.file, _lines_before(mem.src, off + p), mem.name)

    def one_stmt(i):
        """parse one statement starting at i (after white space); returns (nodes, next index)"""
        while i < n and text[i].isspace():
            i += 1
        if i >= n:
            return [], i
        if text[i] == '{':
            e = match_close(text, i, '{', '}')
            return parse_stmts(mem, text[i + 1:e], off + i + 1, prims, conds), e + 1
        m = re.match(r'if\s*(constexpr\s*)?\(', text[i:])
        if m:
            p = i + m.end() - 1
            e = match_close(text, p, '(', ')')
            c = re.sub(r'\s+', '', text[p + 1:e])
            if c not in conds:
                raise TieError('%s: unknown condition shape `%s`' % (where(i), text[p + 1:e].strip()))
            th, j = one_stmt(e + 1)
            k = j
            while k < n and text[k].isspace():
                k += 1
            el = []
            if re.match(r'else\b', text[k:]):
                el, j = one_stmt(k + 4)
            return [('if', conds[c], th, el)], j
        if re.match(r'(else|for|while|do|switch|try|catch|goto)\b', text[i:]):
            raise TieError('%s: unsupported control structure `%s`' % (where(i), text[i:i + 40].split('\n')[0]))
        # simple statement: up to the `;` at nesting depth 0
        depth = 0
        k = i
        while k < n:
            ch = text[k]
            if ch in '({[':
                depth += 1
            elif ch in ')}]':
                depth -= 1
            elif ch == ';' and depth == 0:
                break
            k += 1
        if k >= n:
            raise TieError('%s: statement without `;`: `%s`' % (where(i), text[i:i + 60].strip()))
        raw = text[i:k + 1]
        s = re.sub(r'\s+', '', raw)
        if SKIP.match(raw.strip()):
            return [], k + 1
        if s not in prims:
            raise TieError('%s: unknown statement shape `%s`' % (where(i), ' '.join(raw.split())))
        return [('do', prims[s])], k + 1

    while True:
        nodes, i = one_stmt(i)
        out += nodes
        while i < n and text[i].isspace():
            i += 1
        if i >= n:
            return out


def member_prog(mem, prims, conds):
    nodes = []
    for (t, p) in mem.inits:
        s = re.sub(r'\s+', '', t)
        if s not in prims:
            raise TieError('%s:%d (%s): unknown member initialiser `%s`' % (mem.file, _lines_before(mem.src, p), mem.name, t.strip()))
        nodes.append(('do', prims[s]))
    return nodes + parse_stmts(mem, mem.body, mem.body_off, prims, conds)


def coq_prog(nodes):
    def one(nd):
        if nd[0] == 'do':
            return 'Do ' + nd[1]
        return 'If %s %s %s' % (nd[1], coq_prog(nd[2]), coq_prog(nd[3]))
    return '[' + '; '.join(one(x) for x in nodes) + ']'


def flat(nodes):
    out = []
    for nd in nodes:
        if nd[0] == 'do':
            out.append(nd[1])
        else:
            out.append('if ' + nd[1] + ' {' + ' '.join(flat(nd[2])) + '}' + (' else {' + ' '.join(flat(nd[3])) + '}' if nd[3] else ''))
    return out


def step_lists():
    """-> (coq text, report dict)"""
    cpp = blank_comments(gen.read(CPP))
    bf = blank_comments(gen.read(BF))
    vt = blank_comments(gen.read(VT))
    cv = blank_comments(gen.read(CVT))
    any_raw = blank_comments(gen.read(ANY))
    FB = r'function_base::'
    fmembers = [
        ('fb_copy_ctor', cpp, CPP, FB + r'function_base\s*\(\s*function_base\s+const\s*&\s*other\s*,[^)]*\)', 0, 1),
        ('fb_move_ctor', cpp, CPP, FB + r'function_base\s*\(\s*function_base\s*&&\s*other\s*,[^)]*\)', 0, 1),
        ('fb_dtor', cpp, CPP, FB + r'~function_base\s*\(\s*\)', 0, 1),
        ('fb_op_assign_copy', cpp, CPP, FB + r'op_assign\s*\(\s*function_base\s+const\s*&\s*other\s*,[^)]*\)', 0, 1),
        ('fb_op_assign_move', cpp, CPP, FB + r'op_assign\s*\(\s*function_base\s*&&\s*other\s*,[^)]*\)', 0, 1),
        ('fb_destroy', cpp, CPP, FB + r'destroy\s*\(\s*\)', 0, 1),
        ('fb_reset', cpp, CPP, FB + r'reset\s*\(\s*vtable\s+const\s*\*\s*empty_vptr\s*\)', 0, 1),
        ('fb_swap', cpp, CPP, FB + r'swap\s*\(\s*function_base\s*&\s*f\s*\)', 0, 1),
        ('bf_default_ctor', bf, BF, r'constexpr\s+basic_function\s*\(\s*\)', 0, 1),
        ('bf_copy_ctor', bf, BF, r'\bbasic_function\s*\(\s*basic_function\s+const\s*&\s*other\s*\)', 0, 1),
        ('bf_move_ctor', bf, BF, r'\bbasic_function\s*\(\s*basic_function\s*&&\s*other\s*\)', 0, 1),
        ('bf_copy_assign', bf, BF, r'operator=\s*\(\s*basic_function\s+const\s*&\s*other\s*\)', 0, 1),
        ('bf_move_assign', bf, BF, r'operator=\s*\(\s*basic_function\s*&&\s*other\s*\)', 0, 1),
        ('bf_assign_null', bf, BF, r'void\s+assign\s*\(\s*std::nullptr_t\s*\)', 0, 1),
        ('bf_assign', bf, BF, r'void\s+assign\s*\(\s*F\s*&&\s*f\s*\)', 0, 1),
        ('bf_reset', bf, BF, r'void\s+reset\s*\(\s*\)', 0, 1),
        ('vt_allocate', vt, VT, r'static\s+void\s*\*\s*allocate\s*\(\s*void\s*\*\s*storage\s*,\s*std::size_t\s+storage_size\s*\)', 0, 1),
        ('vt_deallocate', vt, VT, r'static\s+void\s+_deallocate\s*\(\s*void\s*\*\s*obj\s*,\s*std::size_t\s+storage_size\s*,\s*bool\s+destroy\s*\)', 0, 1),
        ('vt_copy', cv, CVT, r'static\s+void\s*\*\s*_copy\s*\(\s*void\s*\*\s*storage\s*,\s*std::size_t\s+storage_size\s*,\s*void\s+const\s*\*\s*src\s*,\s*bool\s+destroy\s*\)', 0, 1),
    ]
    smembers = [
        ('ss_release', r'void\s+release\s*\(\s*\)', 0, 1),
        ('ss_move_assign', r'void\s+move_assign\s*\(\s*movable_sbo_storage\s*&&\s*other\s*\)', 0, 1),
        ('ss_move_assign_from_copyable', r'void\s+move_assign\s*\(\s*copyable_sbo_storage\s*<[^>]*>\s*&&\s*other\s*\)', 0, 1),
        ('ss_dtor', r'~movable_sbo_storage\s*\(\s*\)', 0, 1),
        ('ss_move_ctor', r'\bmovable_sbo_storage\s*\(\s*movable_sbo_storage\s*&&\s*other\s*\)', 0, 1),
        ('ss_move_ctor_from_copyable', r'explicit\s+movable_sbo_storage\s*\(\s*copyable_sbo_storage\s*<[^>]*>\s*&&\s*other\s*\)', 0, 1),
        ('ss_move_op_assign', r'operator=\s*\(\s*movable_sbo_storage\s*&&\s*other\s*\)', 0, 1),
        ('ss_move_op_assign_from_copyable', r'operator=\s*\(\s*copyable_sbo_storage\s*<[^>]*>\s*&&\s*other\s*\)', 0, 1),
        ('ss_store', r'void\s+store\s*\(\s*Ts\s*&&\s*\.\.\.\s*ts\s*\)', 0, 1),
        ('ss_reset', r'void\s+reset\s*\(\s*\)', 0, 1),
        ('cs_copy_assign', r'void\s+copy_assign\s*\(\s*copyable_sbo_storage\s+const\s*&\s*other\s*\)', 0, 1),
        ('cs_copy_ctor', r'\bcopyable_sbo_storage\s*\(\s*copyable_sbo_storage\s+const\s*&\s*other\s*\)', 0, 1),
        ('cs_copy_op_assign', r'operator=\s*\(\s*copyable_sbo_storage\s+const\s*&\s*other\s*\)', 0, 1),
    ]
    defs = []
    report = {}
    for (nm, src, file, sig, nth, cnt) in fmembers:
        mem = find_member(src, file, nm, sig, nth, cnt)
        prog = member_prog(mem, F_PRIMS, F_CONDS)
        defs.append('Definition %s : prog := %s.' % (nm, coq_prog(prog)))
        report[nm] = '%s:%d: %s' % (file.split('/')[-1], mem.line, ' '.join(flat(prog)))
    # the storage classes end where namespace pika::execution::experimental::detail starts
    for (nm, sig, nth, cnt) in smembers:
        progs = []
        for sbo in (True, False):
            a = preprocess(any_raw, sbo)
            cut = a.find('struct PIKA_EXPORT any_operation_state_holder_base')
            if cut < 0:
                raise TieError('any_sender.hpp: end of the storage classes not found')
            mem = find_member(a[:cut], ANY, nm, sig, nth, cnt)
            progs.append(member_prog(mem, S_PRIMS, S_CONDS))
            line = mem.line
        defs.append('Definition %s (sbo : bool) : prog :=\n  if sbo then %s\n  else %s.' % (nm, coq_prog(progs[0]), coq_prog(progs[1])))
        report[nm] = 'any_sender.hpp:%d: [SBO] %s  [no SBO] %s' % (line, ' '.join(flat(progs[0])), ' '.join(flat(progs[1])))
    # alignment is (not) looked at by the function family's placement decision
    mem_al = find_member(vt, VT, 'vt_allocate', [x for x in fmembers if x[0] == 'vt_allocate'][0][3])
    mem_de = find_member(vt, VT, 'vt_deallocate', [x for x in fmembers if x[0] == 'vt_deallocate'][0][3])
    al_align = 'alignof' in mem_al.body
    de_align = 'alignof' in mem_de.body
    mu = re.search(r'union\s*\{\s*char\s+storage_init\s*;\s*mutable\s+unsigned\s+char\s+storage\s*\[\s*function_storage_size\s*\]\s*;\s*\}\s*;', bf)
    if not mu:
        raise TieError('%s: inline buffer declaration `union { char storage_init; mutable unsigned char storage[function_storage_size]; };` '
                       'not found (an alignas on the buffer changes the misalignment finding: update the model)' % BF)
    mo = re.search(r'vtable\s+const\s*\*\s*vptr\s*;\s*void\s*\*\s*object\s*;\s*union', bf)
    if not mo:
        raise TieError('%s: members `vtable const* vptr; void* object; union {...}` not found in this order' % BF)
    report['function_buffer'] = '%s:%d: unsigned char storage[function_storage_size] in an anonymous union without alignas, after two pointer members' % (
        BF.split('/')[-1], _lines_before(bf, mu.start()))
    report['allocate_alignment_test'] = '%s:%d: vtable::allocate<T> %s alignof(T)' % (VT.split('/')[-1], mem_al.line, 'tests' if al_align else 'does NOT test')
    report['deallocate_alignment_test'] = '%s:%d: vtable::_deallocate<T> %s alignof(T)' % (VT.split('/')[-1], mem_de.line, 'tests' if de_align else 'does NOT test')
    conds = sorted(set(F_CONDS.values()) | set(S_CONDS.values()))
    prims = []
    for v in list(F_PRIMS.values()) + list(S_PRIMS.values()):
        if v not in prims:
            prims.append(v)
    text = '''(* GENERATED by tools/genmods/c18.py from
   %s
   %s
   %s
   %s
   %s — do not edit.
   Step lists of the special members: statement order of the source.  Proofs/ErasedStepsProofs.v compares them with
   the transcription the model was written from (Model/ErasedSteps.v); Model/ErasedBlocks.v interprets the
   allocation-relevant ones (allocate / _deallocate / _copy / basic_function::assign). *)
From Coq Require Import NArith List.
From Pika Require Import Gen.GenErased.
Import ListNotations.
Inductive cond := %s.
Inductive prim :=
  %s.
Inductive stmt := Do (p : prim) | If (c : cond) (th el : list stmt).
Definition prog := list stmt.

(* the inline buffer of function_base is an unsigned char array in an anonymous union without alignas that
   follows two pointer members: its alignment is that of a pointer; vtable::allocate / _deallocate look at
   alignof(T): *)
Definition function_buffer_alignment : N := ptr_size.
Definition allocate_tests_alignment : bool := %s.
Definition deallocate_tests_alignment : bool := %s.

%s
''' % (CPP, BF, VT, CVT, ANY, ' | '.join(conds), '\n  '.join('| ' + p for p in prims), 'true' if al_align else 'false', 'true' if de_align else 'false',
       '\n'.join(defs))
    return text, report


@gen.generator
def gen_erased():
    a = strip(gen.read(ANY))
    body = one(r'static\s+constexpr\s+bool\s+can_use_embedded_storage\s*\(\s*\)\s*\{(.*?)\n\s*\}', a,
               'definition of can_use_embedded_storage')
    m = re.search(r'#if defined\(PIKA_DETAIL_ENABLE_ANY_SENDER_SBO\)(.*?)#else\s*return\s+false\s*;\s*#endif', body, re.S)
    if not m:
        raise TieError('can_use_embedded_storage: expected #if SBO ... #else return false; #endif')
    sbo = m.group(1)
    fop = one(r'constexpr\s+bool\s+fits_storage\s*=\s*sizeof\s*\(\s*std::decay_t<Impl>\s*\)\s*(<=|>=|<|>)\s*embedded_storage_size\s*;',
              sbo, 'fits_storage definition')
    aop = one(r'constexpr\s+bool\s+sufficiently_aligned\s*=\s*alignof\s*\(\s*std::decay_t<Impl>\s*\)\s*(<=|>=|<|>)\s*alignment_size\s*;',
              sbo, 'sufficiently_aligned definition')
    ret = one(r'return\s+([^;]*);', sbo, 'return statement in can_use_embedded_storage')
    res = bool_expr(ret, {'fits_storage': 'fits_storage size emb', 'sufficiently_aligned': 'sufficiently_aligned align algn'})
    dflt = re.findall(r'std::size_t\s+AlignmentSize\s*=\s*([^>,]*)>', a)
    if len(dflt) != 2 or dflt[0].strip() != dflt[1].strip():
        raise TieError('expected the same default AlignmentSize on both storage templates, found %r' % (dflt,))
    algn = size_expr(dflt[0], 'default AlignmentSize')
    one(r'alignas\s*\(\s*alignment_size\s*\)\s*unsigned\s+char\s+embedded_storage\s*\[\s*embedded_storage_size\s*\]\s*;', a,
        'embedded buffer declaration alignas(alignment_size) ... [embedded_storage_size]')

    def storage_of(cls, tmpl):
        i = a.find(cls)
        if i < 0:
            raise TieError('class not found: ' + cls)
        mm = re.search(r'using\s+storage_type\s*=\s*pika::detail::' + tmpl + r'\s*<\s*base_type\s*,\s*([^>]*)>\s*;', a[i:])
        if not mm:
            raise TieError('storage_type of %s is not %s<base_type, N>' % (cls, tmpl))
        return size_expr(mm.group(1), 'EmbeddedStorageSize of ' + cls)

    op_sz = storage_of('class PIKA_EXPORT any_operation_state_holder', 'movable_sbo_storage')
    un_sz = storage_of('class unique_any_sender\n', 'movable_sbo_storage')
    an_sz = storage_of('class any_sender\n', 'copyable_sbo_storage')

    b = strip(gen.read(BF))
    fs = size_expr(one(r'static\s+std::size_t\s+const\s+function_storage_size\s*=\s*([^;]*);', b, 'function_storage_size'),
                   'function_storage_size')
    v = strip(gen.read(VT))
    al = one(r'static\s+void\s*\*\s*allocate\s*\(\s*void\s*\*\s*storage\s*,\s*std::size_t\s+storage_size\s*\)\s*\{\s*'
             r'if\s*\(\s*sizeof\s*\(\s*T\s*\)\s*(<=|>=|<|>)\s*storage_size\s*\)\s*\{\s*return\s+new\s+aligned_storage_helper<T>\s*;\s*\}\s*'
             r'return\s+storage\s*;', v, 'vtable::allocate body')
    de = one(r'if\s*\(\s*sizeof\s*\(\s*T\s*\)\s*(<=|>=|<|>)\s*storage_size\s*\)\s*\{\s*delete\s+static_cast<aligned_storage_helper<T>\s*\*>\s*\(\s*obj\s*\)\s*;',
             v, 'vtable::_deallocate heap condition')
    text = '''(* GENERATED by tools/genmods/c18.py from
   %s
   %s
   %s — do not edit *)
From Coq Require Import NArith Bool.
Local Open Scope N_scope.

Definition ptr_size : N := 8.    (* sizeof(void* ), checked against the harness on every run *)
(* movable_sbo_storage::can_use_embedded_storage<Impl>() under PIKA_DETAIL_ENABLE_ANY_SENDER_SBO;
   size = sizeof(Impl), align = alignof(Impl), emb = EmbeddedStorageSize, algn = AlignmentSize *)
Definition fits_storage (size emb : N) : bool := %s.
Definition sufficiently_aligned (align algn : N) : bool := %s.
Definition can_use_embedded_storage (size align emb algn : N) : bool := %s.
Definition sbo_alignment_size : N := %d * ptr_size.
Definition unique_any_sender_embedded_size : N := %d * ptr_size.
Definition any_sender_embedded_size : N := %d * ptr_size.
Definition operation_state_embedded_size : N := %d * ptr_size.
(* basic_function: vtable::allocate<T> returns a heap block iff ..., _deallocate<T> deletes iff ... *)
Definition function_storage_size : N := %d * ptr_size.
Definition allocate_heap (size storage_size : N) : bool := %s.
Definition deallocate_heap (size storage_size : N) : bool := %s.
''' % (ANY, BF, VT, cmp_coq(fop, 'size', 'emb'), cmp_coq(aop, 'align', 'algn'), res, algn, un_sz, an_sz, op_sz, fs,
       cmp_coq(al, 'size', 'storage_size'), cmp_coq(de, 'size', 'storage_size'))
    stext, sreport = step_lists()
    changed = gen.write_if_changed('GenErased.v', text)
    changed2 = gen.write_if_changed('GenErasedSteps.v', stext)
    return {'steps': sreport, 'changed': changed, 'steps_changed': changed2, 'fits': fop, 'aligned': aop, 'result': ret.strip(), 'alignment_ptrs': algn,
            'embedded_ptrs': [un_sz, an_sz, op_sz], 'function_storage_ptrs': fs, 'allocate': al, 'deallocate': de}
