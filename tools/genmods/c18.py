# tools/genmods/c18.py — translator for the storage decisions of the type-erased wrappers (C18):
#   libs/pika/execution_base/include/pika/execution_base/any_sender.hpp
#   libs/pika/functional/include/pika/functional/detail/basic_function.hpp
#   libs/pika/functional/include/pika/functional/detail/vtable/vtable.hpp      -> coq/Gen/GenErased.v
#
# What is translated (text -> Coq, no guessing; anything of another shape raises TieError):
#   * the two conditions and the result of movable_sbo_storage::can_use_embedded_storage<Impl>()
#       constexpr bool fits_storage = sizeof(std::decay_t<Impl>) <op> embedded_storage_size;
#       constexpr bool sufficiently_aligned = alignof(std::decay_t<Impl>) <op> alignment_size;
#       return <expr over the two names, &&, ||, !>;
#   * the default AlignmentSize template argument (k * sizeof(void*) or sizeof(void*)), the alignas of the
#     embedded buffer, the EmbeddedStorageSize used by unique_any_sender, any_sender and
#     any_operation_state_holder
#   * function_storage_size and the heap conditions of vtable::allocate / vtable::_deallocate
#       if (sizeof(T) <op> storage_size)
import re

import gen
from vlib import TieError

ANY = 'libs/pika/execution_base/include/pika/execution_base/any_sender.hpp'
BF = 'libs/pika/functional/include/pika/functional/detail/basic_function.hpp'
VT = 'libs/pika/functional/include/pika/functional/detail/vtable/vtable.hpp'

CMP = {'<=': 'N.leb %s %s', '<': 'N.ltb %s %s', '>=': 'N.leb %s %s', '>': 'N.ltb %s %s'}


def strip(src):
    src = re.sub(r'/\*.*?\*/', ' ', src, flags=re.S)
    return re.sub(r'//[^\n]*', ' ', src)


def cmp_coq(op, a, b):
    if op not in CMP:
        raise TieError('unexpected comparison operator %r' % op)
    if op in ('>=', '>'):
        a, b = b, a
    return CMP[op] % (a, b)


def one(pattern, src, what, flags=re.S):
    ms = re.findall(pattern, src, flags)
    if len(ms) != 1:
        raise TieError('expected exactly one %s, found %d' % (what, len(ms)))
    return ms[0]


def size_expr(txt, what):
    txt = txt.strip()
    m = re.fullmatch(r'(?:(\d+)\s*\*\s*)?sizeof\s*\(\s*void\s*\*\s*\)', txt)
    if not m:
        raise TieError('%s is not k * sizeof(void*): %r' % (what, txt))
    return int(m.group(1) or '1')


def bool_expr(txt, names):
    toks = re.findall(r'&&|\|\||!|\(|\)|[A-Za-z_]\w*|\S', txt)
    out = []
    for t in toks:
        if t == '&&':
            out.append('&&')
        elif t == '||':
            out.append('||')
        elif t == '!':
            out.append('negb')
        elif t in '()':
            out.append(t)
        elif t in names:
            out.append(names[t])
        else:
            raise TieError('unexpected token %r in the result of can_use_embedded_storage' % t)
    return ' '.join(out)


@gen.generator
def gen_erased():
    a = strip(gen.read(ANY))
    body = one(r'static\s+constexpr\s+bool\s+can_use_embedded_storage\s*\(\s*\)\s*\{(.*?)\n\s*\}', a,
               'definition of can_use_embedded_storage')
    m = re.search(r'#if defined\(PIKA_DETAIL_ENABLE_ANY_SENDER_SBO\)(.*?)#else\s*return\s+false\s*;\s*#endif', body, re.S)
    if not m:
        raise TieError('can_use_embedded_storage: expected #if SBO ... #else return false; #endif')
    sbo = m.group(1)
    fop = one(r'constexpr\s+bool\s+fits_storage\s*=\s*sizeof\s*\(\s*std::decay_t<Impl>\s*\)\s*(<=|>=|<|>)\s*embedded_storage_size\s*;',
              sbo, 'fits_storage definition')
    aop = one(r'constexpr\s+bool\s+sufficiently_aligned\s*=\s*alignof\s*\(\s*std::decay_t<Impl>\s*\)\s*(<=|>=|<|>)\s*alignment_size\s*;',
              sbo, 'sufficiently_aligned definition')
    ret = one(r'return\s+([^;]*);', sbo, 'return statement in can_use_embedded_storage')
    res = bool_expr(ret, {'fits_storage': 'fits_storage size emb', 'sufficiently_aligned': 'sufficiently_aligned align algn'})
    dflt = re.findall(r'std::size_t\s+AlignmentSize\s*=\s*([^>,]*)>', a)
    if len(dflt) != 2 or dflt[0].strip() != dflt[1].strip():
        raise TieError('expected the same default AlignmentSize on both storage templates, found %r' % (dflt,))
    algn = size_expr(dflt[0], 'default AlignmentSize')
    one(r'alignas\s*\(\s*alignment_size\s*\)\s*unsigned\s+char\s+embedded_storage\s*\[\s*embedded_storage_size\s*\]\s*;', a,
        'embedded buffer declaration alignas(alignment_size) ... [embedded_storage_size]')

    def storage_of(cls, tmpl):
        i = a.find(cls)
        if i < 0:
            raise TieError('class not found: ' + cls)
        mm = re.search(r'using\s+storage_type\s*=\s*pika::detail::' + tmpl + r'\s*<\s*base_type\s*,\s*([^>]*)>\s*;', a[i:])
        if not mm:
            raise TieError('storage_type of %s is not %s<base_type, N>' % (cls, tmpl))
        return size_expr(mm.group(1), 'EmbeddedStorageSize of ' + cls)

    op_sz = storage_of('class PIKA_EXPORT any_operation_state_holder', 'movable_sbo_storage')
    un_sz = storage_of('class unique_any_sender\n', 'movable_sbo_storage')
    an_sz = storage_of('class any_sender\n', 'copyable_sbo_storage')

    b = strip(gen.read(BF))
    fs = size_expr(one(r'static\s+std::size_t\s+const\s+function_storage_size\s*=\s*([^;]*);', b, 'function_storage_size'),
                   'function_storage_size')
    v = strip(gen.read(VT))
    al = one(r'static\s+void\s*\*\s*allocate\s*\(\s*void\s*\*\s*storage\s*,\s*std::size_t\s+storage_size\s*\)\s*\{\s*'
             r'if\s*\(\s*sizeof\s*\(\s*T\s*\)\s*(<=|>=|<|>)\s*storage_size\s*\)\s*\{\s*return\s+new\s+aligned_storage_helper<T>\s*;\s*\}\s*'
             r'return\s+storage\s*;', v, 'vtable::allocate body')
    de = one(r'if\s*\(\s*sizeof\s*\(\s*T\s*\)\s*(<=|>=|<|>)\s*storage_size\s*\)\s*\{\s*delete\s+static_cast<aligned_storage_helper<T>\s*\*>\s*\(\s*obj\s*\)\s*;',
             v, 'vtable::_deallocate heap condition')
    text = '''(* GENERATED by tools/genmods/c18.py from
   %s
   %s
   %s — do not edit *)
From Coq Require Import NArith Bool.
Local Open Scope N_scope.

Definition ptr_size : N := 8.    (* sizeof(void* ), checked against the harness on every run *)
(* movable_sbo_storage::can_use_embedded_storage<Impl>() under PIKA_DETAIL_ENABLE_ANY_SENDER_SBO;
   size = sizeof(Impl), align = alignof(Impl), emb = EmbeddedStorageSize, algn = AlignmentSize *)
Definition fits_storage (size emb : N) : bool := %s.
Definition sufficiently_aligned (align algn : N) : bool := %s.
Definition can_use_embedded_storage (size align emb algn : N) : bool := %s.
Definition sbo_alignment_size : N := %d * ptr_size.
Definition unique_any_sender_embedded_size : N := %d * ptr_size.
Definition any_sender_embedded_size : N := %d * ptr_size.
Definition operation_state_embedded_size : N := %d * ptr_size.
(* basic_function: vtable::allocate<T> returns a heap block iff ..., _deallocate<T> deletes iff ... *)
Definition function_storage_size : N := %d * ptr_size.
Definition allocate_heap (size storage_size : N) : bool := %s.
Definition deallocate_heap (size storage_size : N) : bool := %s.
''' % (ANY, BF, VT, cmp_coq(fop, 'size', 'emb'), cmp_coq(aop, 'align', 'algn'), res, algn, un_sz, an_sz, op_sz, fs,
       cmp_coq(al, 'size', 'storage_size'), cmp_coq(de, 'size', 'storage_size'))
    changed = gen.write_if_changed('GenErased.v', text)
    return {'changed': changed, 'fits': fop, 'aligned': aop, 'result': ret.strip(), 'alignment_ptrs': algn,
            'embedded_ptrs': [un_sz, an_sz, op_sz], 'function_storage_ptrs': fs, 'allocate': al, 'deallocate': de}
