# tools/genmods/c20.py — translator pieces for C20 (MPI requests): regenerates coq/Gen/GenMpi.v
# from the source on every run: max_poll_requests, default polling size, the completion-mode bit
# layout (handler_method enumerators) and the *shape* of transform_mpi's receiver::set_value
# (is trigger() guarded by dispatch()'s result; does dispatch() report that it signalled).
import re

import gen
from vlib import TieError

POLL = 'libs/pika/async_mpi/src/mpi_polling.cpp'
HPP = 'libs/pika/async_mpi/include/pika/async_mpi/mpi_polling.hpp'
TM = 'libs/pika/async_mpi/include/pika/async_mpi/transform_mpi.hpp'


def _strip_comments(s):
    s = re.sub(r'/\*.*?\*/', ' ', s, flags=re.S)
    return re.sub(r'//[^\n]*', '', s)


def _num(tok):
    tok = tok.replace("'", '').strip()
    if tok.startswith(('0b', '0B')):
        return int(tok[2:], 2)
    if tok.startswith(('0x', '0X')):
        return int(tok[2:], 16)
    return int(tok)


def _body(src, start):
    """text of the brace block that opens at/after index start"""
    i = src.index('{', start)
    depth = 0
    for j in range(i, len(src)):
        if src[j] == '{':
            depth += 1
        elif src[j] == '}':
            depth -= 1
            if depth == 0:
                return src[i:j + 1]
    raise TieError('unbalanced braces')


@gen.generator
def gen_mpi():
    poll = _strip_comments(gen.read(POLL))
    hpp = _strip_comments(gen.read(HPP))
    tm = _strip_comments(gen.read(TM))
    m = re.search(r'constexpr\s+std::uint32_t\s+max_poll_requests\s*=\s*(\d+)\s*;', poll)
    if not m:
        raise TieError('max_poll_requests not found in mpi_polling.cpp')
    max_poll = int(m.group(1))
    m = re.search(r'get_env_var_as<std::uint32_t>\(\s*"PIKA_MPI_POLLING_SIZE"\s*,\s*(\d+)\s*\)', poll)
    if not m:
        raise TieError('PIKA_MPI_POLLING_SIZE default not found')
    poll_default = int(m.group(1))
    # Testsome windows must be min(vsize, max_poll_requests) wide and advance by req_size
    if not re.search(r'req_size\s*=\s*\(std::min\)\(vsize,\s*max_poll_requests\)', poll) or \
            not re.search(r'req_init\s*\+=\s*req_size', poll):
        raise TieError('Testsome window arithmetic changed shape (req_size/req_init)')
    # enumerators of handler_method
    m = re.search(r'enum\s+class\s+handler_method\s*:\s*std::uint32_t\s*\{(.*?)\};', hpp, re.S)
    if not m:
        raise TieError('enum class handler_method not found')
    vals = {}
    for name, expr in re.findall(r'(\w+)\s*=\s*([^,]+),', m.group(1) + ','):
        expr = expr.strip()
        try:
            vals[name] = _num(expr)
        except ValueError:
            tot = 0
            for part in expr.split('+'):
                part = part.strip()
                if part not in vals:
                    raise TieError('cannot evaluate enumerator %s = %s' % (name, expr))
                tot += vals[part]
            vals[name] = tot
    need = ['request_inline', 'completion_inline', 'high_priority', 'method_mask', 'yield_while',
            'suspend_resume', 'new_task', 'continuation', 'mpix_continuation', 'default_mode']
    for n in need:
        if n not in vals:
            raise TieError('handler_method::%s missing' % n)
    # shape of receiver::set_value / dispatch in transform_mpi.hpp
    k = tm.find('constexpr void set_value(Ts&&... ts) && noexcept')
    if k < 0:
        raise TieError('transform_mpi receiver::set_value not found')
    sv = _body(tm, k)
    guarded = re.search(r'if\s*\(\s*dispatch<Ts\.\.\.>\(r\)\s*\)\s*\{?\s*trigger\(r\)\s*;', sv) is not None
    unguarded = re.search(r'dispatch<Ts\.\.\.>\(r\)\s*;\s*trigger\(r\)\s*;', sv) is not None
    if guarded == unguarded:
        raise TieError('set_value: cannot classify the dispatch/trigger sequence')
    k = tm.find('dispatch(receiver& r)')
    if k < 0:
        raise TieError('transform_mpi receiver::dispatch not found')
    db = _body(tm, k)
    eb = re.search(r'if\s*\(\s*r\.op_state\.status\s*!=\s*MPI_SUCCESS\s*\)', db)
    if not eb:
        raise TieError('dispatch: error-status branch not found')
    errblock = _body(db, eb.end())
    if 'ex::set_error' not in errblock:
        raise TieError('dispatch: error-status branch does not call set_error')
    reports = ('return false' in errblock) and re.search(r'return\s+true\s*;\s*\}\s*$', db.strip()) is not None
    if guarded and not reports:
        raise TieError('set_value tests dispatch() but dispatch does not report false after set_error/true at the end')
    # trigger: the eager poll must come first and return after set_value
    k = tm.find('void trigger(receiver& r)')
    if k < 0:
        raise TieError('trigger not found')
    tb = _body(tm, k)
    eager = re.search(r'if\s*\(\s*mpi::detail::poll_request\(r\.op_state\.request\)\s*\)\s*\{(.*?)return\s*;', tb, re.S)
    trigger_checks = eager is not None and 'ex::set_value' in eager.group(1)
    # register_polling(pool): when is the lock-free single-threaded poller chosen?
    k = poll.find('inline bool can_run_singlethreaded(std::size_t mode)')
    if k < 0:
        raise TieError('can_run_singlethreaded not found')
    if not re.search(r'return\s*\(\s*enable_pool_\s*&&\s*!use_inline_request\(mode\)\s*\)\s*;', _body(poll, k)):
        raise TieError('can_run_singlethreaded changed shape (expected enable_pool_ && !use_inline_request(mode))')
    k = poll.find('void register_polling(pika::threads::detail::thread_pool_base& pool)')
    if k < 0:
        raise TieError('register_polling(pool) not found')
    rb = _body(poll, k)
    asg = re.findall(r'mpi_data_\.single_thread_mode_\s*=\s*([^;]*);', rb)
    if len(asg) != 1:
        raise TieError('register_polling: expected exactly one assignment to single_thread_mode_')
    rhs = re.sub(r'\s+', ' ', asg[0]).strip()
    if rhs == 'can_run_singlethreaded(mode)':
        one_worker = False
    elif rhs in ('can_run_singlethreaded(mode) && pool.get_os_thread_count() == 1',
                 'can_run_singlethreaded(mode) && (pool.get_os_thread_count() == 1)'):
        one_worker = True
    else:
        raise TieError('register_polling: cannot classify single_thread_mode_ = %s' % rhs)
    if not re.search(r'if\s*\(\s*mpi_data_\.single_thread_mode_\s*\)\s*sched->set_mpi_polling_functions\(\s*&poll_singlethreaded', rb):
        raise TieError('register_polling: poll_singlethreaded is not installed under single_thread_mode_')
    txt = '(* GENERATED by tools/genmods/c20.py from %s, %s, %s — do not edit *)\n' % (POLL, HPP, TM)
    txt += 'From Coq Require Import NArith.\n'
    txt += 'Definition max_poll_requests : nat := %d.\n' % max_poll
    txt += 'Definition polling_size_default : nat := %d.\n' % poll_default
    for n in need:
        txt += 'Definition hm_%s : N := %d%%N.\n' % (n, vals[n])
    txt += 'Definition trigger_guarded : bool := %s.\n' % ('true' if guarded else 'false')
    txt += 'Definition trigger_eager_poll_first : bool := %s.\n' % ('true' if trigger_checks else 'false')
    txt += 'Definition single_mode_one_worker : bool := %s.\n' % ('true' if one_worker else 'false')
    changed = gen.write_if_changed('GenMpi.v', txt)
    return {'max_poll_requests': max_poll, 'polling_size_default': poll_default, 'enumerators': {n: vals[n] for n in need},
            'trigger_guarded': guarded, 'trigger_eager_poll_first': trigger_checks, 'single_mode_one_worker': one_worker, 'rewritten': changed}
