# tools/genmods/c17.py — translator for the queue back-ends (property C17):
#   libs/pika/schedulers/include/pika/schedulers/lockfree_queue_backends.hpp -> coq/Gen/GenBackends.v
#
# What is translated: for every back-end struct the bodies of `push` (both overloads) and `pop`
# are parsed (small recursive-descent parser over a C++ token stream, see parse_body) into a
# decision  flag -> container member called.  From that the table
#   push_end : backend -> (other_end : bool) -> side      pop_end : backend -> (steal : bool) -> side
# is emitted for the three deque-based back-ends; for lockfree_fifo_backend the translator checks
# that only ConcurrentQueue::enqueue / try_dequeue are called (no ends exist).
# Anything that does not have the expected shape raises TieError (never a guess).
import re

import gen
from vlib import TieError

SRC = 'libs/pika/schedulers/include/pika/schedulers/lockfree_queue_backends.hpp'

# struct name -> (Coq constructor or None, expected container template, kind)
BACKENDS = [
    ('lockfree_fifo_backend', None, 'ConcurrentQueue', 'cq'),
    ('lockfree_lifo_backend', 'Lifo', 'deque', 'deque'),
    ('lockfree_abp_fifo_backend', 'AbpFifo', 'deque', 'deque'),
    ('lockfree_abp_lifo_backend', 'AbpLifo', 'deque', 'deque'),
]
PUSH_MEMBERS = {'push_left': 'SL', 'push_right': 'SR'}
POP_MEMBERS = {'pop_left': 'SL', 'pop_right': 'SR'}


def strip_comments(src):
    # remove /* ... */ and // ... (the header has no string literals containing these)
    src = re.sub(r'/\*.*?\*/', ' ', src, flags=re.S)
    src = re.sub(r'//[^\n]*', ' ', src)
    return src


def match_brace(src, i):
    # src[i] == '{' -> index of the matching '}'
    if src[i] != '{':
        raise TieError('internal: match_brace not at a brace')
    depth = 0
    for j in range(i, len(src)):
        if src[j] == '{':
            depth += 1
        elif src[j] == '}':
            depth -= 1
            if depth == 0:
                return j
    raise TieError('unbalanced braces in ' + SRC)


def struct_body(src, name):
    ms = list(re.finditer(r'\bstruct\s+' + name + r'\b\s*\{', src))
    if len(ms) != 1:
        raise TieError('expected exactly one definition of struct %s, found %d' % (name, len(ms)))
    o = ms[0].end() - 1
    return src[o + 1:match_brace(src, o)]


TOKEN = re.compile(r'\s*(::|[A-Za-z_]\w*|[(){};,.!?:]|&&|\S)')


def tokens(text):
    out = []
    i = 0
    text = text.strip()
    while i < len(text):
        m = TOKEN.match(text, i)
        if not m:
            break
        out.append(m.group(1))
        i = m.end()
    return out


class Parser:
    """body      := stmt
       stmt      := 'if' '(' cond ')' block ['else'] block      (decision on the flag)
                  | 'return' expr ';'
       block     := stmt | '{' stmt '}'
       expr      := call | cond '?' call ':' call
       cond      := ['!'] FLAG
       call      := 'queue_' '.' MEMBER '(' arg ')'
       arg       := VAL | 'std' '::' 'move' '(' VAL ')'
       Result: dict {True: member, False: member} (member called when the flag is true/false)."""

    def __init__(self, toks, val, flag, where):
        self.t = toks
        self.i = 0
        self.val = val
        self.flag = flag
        self.where = where

    def fail(self, what):
        raise TieError('%s: unexpected shape (%s) at token %d of: %s' % (self.where, what, self.i, ' '.join(self.t)))

    def peek(self):
        return self.t[self.i] if self.i < len(self.t) else None

    def eat(self, tok):
        if self.peek() != tok:
            self.fail('expected %r, found %r' % (tok, self.peek()))
        self.i += 1

    def cond(self):
        neg = False
        if self.peek() == '!':
            self.i += 1
            neg = True
        if self.flag is None or self.peek() != self.flag:
            self.fail('condition is not the bool parameter %r' % self.flag)
        self.i += 1
        return neg

    def call(self):
        self.eat('queue_')
        self.eat('.')
        member = self.peek()
        if member is None or not re.match(r'[A-Za-z_]\w*$', member):
            self.fail('member name')
        self.i += 1
        self.eat('(')
        if self.peek() == 'std':
            self.eat('std')
            self.eat('::')
            self.eat('move')
            self.eat('(')
            self.eat(self.val)
            self.eat(')')
        else:
            self.eat(self.val)
        self.eat(')')
        return member

    def expr(self):
        if self.peek() in ('!', self.flag) and self.flag is not None:
            neg = self.cond()
            self.eat('?')
            a = self.call()
            self.eat(':')
            b = self.call()
            return {True: b, False: a} if neg else {True: a, False: b}
        m = self.call()
        return {True: m, False: m}

    def stmt(self):
        if self.peek() == 'if':
            self.eat('if')
            self.eat('(')
            neg = self.cond()
            self.eat(')')
            a = self.block()
            if self.peek() == 'else':
                self.eat('else')
            b = self.block()
            # then-branch taken when (flag != neg)
            return {(not neg): a[not neg], neg: b[neg]}
        self.eat('return')
        d = self.expr()
        self.eat(';')
        return d

    def block(self):
        if self.peek() == '{':
            self.eat('{')
            d = self.stmt()
            self.eat('}')
            return d
        return self.stmt()

    def body(self):
        d = self.stmt()
        if self.peek() is not None:
            self.fail('trailing tokens after the return')
        return d


SIG = re.compile(r'\bbool\s+(push|pop)\s*\(\s*(const_reference|rvalue_reference|reference)\s+(\w+)\s*,'
                 r'\s*bool\s*(\w+)?\s*=\s*(true|false)\s*\)\s*\{')


def members(body, sname):
    """all push/pop member functions of one struct: list of (fn, argtype, decision, default)"""
    out = []
    for m in SIG.finditer(body):
        fn, argty, val, flag, dflt = m.groups()
        o = m.end() - 1
        text = body[o + 1:match_brace(body, o)]
        where = '%s::%s(%s)' % (sname, fn, argty)
        out.append((fn, argty, Parser(tokens(text), val, flag, where).body(), dflt))
    # every `push(`/`pop(` declared in the struct must have been recognised by SIG
    declared = len(re.findall(r'\b(?:push|pop)\s*\(', re.sub(r'queue_\s*\.\s*\w+\s*\(', '', body)))
    if declared != len(out):
        raise TieError('%s: %d push/pop declarations but %d with the expected signature' % (sname, declared, len(out)))
    return out


def derive(src):
    src = strip_comments(src)
    table = {}
    for sname, ctor, container, kind in BACKENDS:
        body = struct_body(src, sname)
        m = re.search(r'using\s+container_type\s*=\s*([\w:\s]*?)(\w+)\s*<', body)
        if not m or m.group(2) != container:
            raise TieError('%s: container_type is not %s<...>' % (sname, container))
        if not re.search(r'\bcontainer_type\s+queue_\s*;', body):
            raise TieError('%s: member `container_type queue_;` not found' % sname)
        ms = members(body, sname)
        pushes = [x for x in ms if x[0] == 'push']
        pops = [x for x in ms if x[0] == 'pop']
        if sorted(x[1] for x in pushes) != ['const_reference', 'rvalue_reference']:
            raise TieError('%s: expected push(const_reference,..) and push(rvalue_reference,..), found %s'
                           % (sname, [x[1] for x in pushes]))
        if [x[1] for x in pops] != ['reference']:
            raise TieError('%s: expected exactly one pop(reference,..), found %s' % (sname, [x[1] for x in pops]))
        if pushes[0][2] != pushes[1][2]:
            raise TieError('%s: the two push overloads disagree: %s vs %s' % (sname, pushes[0][2], pushes[1][2]))
        if pushes[0][3] != pushes[1][3]:
            raise TieError('%s: the two push overloads have different defaults for other_end' % sname)
        push, pop = pushes[0][2], pops[0][2]
        ent = {'push_default_other_end': pushes[0][3], 'pop_default_steal': pops[0][3]}
        if kind == 'cq':
            if set(push.values()) != {'enqueue'} or set(pop.values()) != {'try_dequeue'}:
                raise TieError('%s: expected enqueue/try_dequeue only, found push=%s pop=%s' % (sname, push, pop))
            ent.update({'push': 'enqueue', 'pop': 'try_dequeue'})
        else:
            for f in (False, True):
                if push[f] not in PUSH_MEMBERS:
                    raise TieError('%s: push calls queue_.%s (expected push_left/push_right)' % (sname, push[f]))
                if pop[f] not in POP_MEMBERS:
                    raise TieError('%s: pop calls queue_.%s (expected pop_left/pop_right)' % (sname, pop[f]))
            ent.update({
                'push(other_end=false)': push[False], 'push(other_end=true)': push[True],
                'pop(steal=false)': pop[False], 'pop(steal=true)': pop[True],
                'push_end': {f: PUSH_MEMBERS[push[f]] for f in (False, True)},
                'pop_end': {f: POP_MEMBERS[pop[f]] for f in (False, True)},
            })
        table[sname] = ent
    defaults = {(e['push_default_other_end'], e['pop_default_steal']) for e in table.values()}
    if len(defaults) != 1:
        raise TieError('back-ends disagree on the default arguments of push/pop: %s' % sorted(defaults))
    return table


def render(table):
    def rows(field):
        out = []
        for sname, ctor, _, kind in BACKENDS:
            if kind != 'deque':
                continue
            for f in (False, True):
                out.append('  | %s, %s => %s' % (ctor, 'true' if f else 'false', table[sname][field][f]))
        return '\n'.join(out)
    any_ent = table[BACKENDS[0][0]]
    lines = [
        '(* GENERATED by tools/genmods/c17.py from %s — do not edit *)' % SRC,
        'From Pika Require Import Model.IndexQueue Model.DequeSpec.',
        '',
        '(* the deque-based back-ends: lockfree_lifo_backend, lockfree_abp_fifo_backend,',
        '   lockfree_abp_lifo_backend.  SL = queue_.push_left / pop_left, SR = ..._right *)',
        'Inductive backend := Lifo | AbpFifo | AbpLifo.',
        '',
        '(* push(val, other_end) *)',
        'Definition push_end (b : backend) (other_end : bool) : side :=',
        '  match b, other_end with',
        rows('push_end'),
        '  end.',
        '',
        '(* pop(val, steal): steal = false is the owner, steal = true a thief *)',
        'Definition pop_end (b : backend) (steal : bool) : side :=',
        '  match b, steal with',
        rows('pop_end'),
        '  end.',
        '',
        '(* lockfree_fifo_backend uses ConcurrentQueue::enqueue / try_dequeue only (no ends) *)',
        'Definition fifo_backend_is_concurrentqueue : bool := true.',
        '',
        '(* default arguments in the header: push(val, bool other_end = %s), pop(val, bool steal = %s) *)'
        % (any_ent['push_default_other_end'], any_ent['pop_default_steal']),
        'Definition push_default_other_end : bool := %s.' % any_ent['push_default_other_end'],
        'Definition pop_default_steal : bool := %s.' % any_ent['pop_default_steal'],
        '',
    ]
    return '\n'.join(lines)


@gen.generator
def gen_backends():
    table = derive(gen.read(SRC))
    changed = gen.write_if_changed('GenBackends.v', render(table))
    rep = {'source': SRC, 'changed': changed, 'table': {}}
    for sname, ent in table.items():
        rep['table'][sname] = {k: v for k, v in ent.items() if k not in ('push_end', 'pop_end')}
    return rep
