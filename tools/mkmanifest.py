#!/usr/bin/env python3
# tools/mkmanifest.py — writes MANIFEST.json from tools/props/<cNN>.json (one small file per property)
import glob
import json
import os
import subprocess

V = os.path.dirname(os.path.dirname(os.path.abspath(__file__)))
props = [json.loads(l) for l in open(V + '/properties.jsonl')]
checks, na, served = [], [], []
for p in props:
    pid = p['id']
    f = '%s/tools/props/%s.json' % (V, pid.lower())
    meta = json.load(open(f)) if os.path.exists(f) else {'claimed': False, 'reason': 'check not built yet in this revision (planned: DESIGN.md section 5)'}
    if not meta.get('claimed'):
        na.append({'property_id': pid, 'reason': meta['reason']})
        continue
    served.append(pid)
    checks.append({
        'property_id': pid,
        'quick_cmd': 'tools/check %s --tier quick' % pid,
        'thorough_cmd': 'tools/check %s --tier thorough' % pid,
        'evidence_file': '/verif/evidence/%s.json' % pid,
        'replay_cmd_template': 'tools/check %s --replay {path}' % pid,
        'engine': 'coq+correspondence',
        'level_claimed': {'category': 'proof', 'text': meta['level_text'], 'design_ref': meta.get('design_ref', 'DESIGN.md section 5 ' + pid)},
        'level_note': meta['level_note'],
        'technique': meta.get('technique', 'machine-checked proof in Coq + correspondence check against the implementation'),
    })
try:
    commits = subprocess.run(['git', '-C', os.environ.get('VERIF_REPO', '/repo'), 'log', '--format=%h %s', '--grep=^verif hooks'],
                             stdout=subprocess.PIPE, text=True).stdout.strip().split('\n')
    commits = [c.split(' ')[0] for c in commits if c]
except Exception:
    commits = []
m = {
    'version': 1,
    'setup_cmd': 'tools/setup',
    'hooks': {
        'guard': 'PIKA_VERIF',
        'enable': "tools/buildpika configures /repo with -DCMAKE_CXX_FLAGS='-Wno-error -DPIKA_VERIF' into /verif/_build/pika[-mpi]; harness TUs are compiled with -DPIKA_VERIF",
        'baseline_off_cmd': 'ctest --test-dir /repo/_build -j8 --timeout 900',
        'source_commits': commits,
        'add_only': True,
    },
    'engines': [{'name': 'coq+correspondence', 'path': 'tools/check', 'serves_properties': served,
                 'kind_free_text': 'Coq 8.16.1 proofs about hand-written executable models (coq/), models extracted to OCaml and run against the real code (harness/) on the same inputs / schedules / histories; tools/gen regenerates constants and tables from the source'}],
    'checks': checks,
    'not_applicable': na,
    'notes': 'see DESIGN.md; KNOWN_FINDINGS.txt lists recorded and repaired defects',
}
json.dump(m, open(V + '/MANIFEST.json', 'w'), indent=1)
print('claimed:', served)
