#!/usr/bin/env python3
# tools/appendixb.py — rewrite the table of DESIGN.md appendix B and the counts in its header from evidence/*.json
# (run after a full clean run of all quick checks) and KNOWN_FINDINGS.txt / git.
import json, re, subprocess, os
V = os.environ.get('VERIF_ROOT', '/verif')
rows = []
tot = 0
for i in range(1, 21):
    p = 'C%02d' % i
    e = json.load(open('%s/evidence/%s.json' % (V, p)))
    c = e['coverage']
    tot += c.get('discharged', 0)
    rows.append('| %s | %s | %s | %s | %s | %.0f s |' % (p, c.get('discharged'), c.get('evaluations'), c.get('distinct_nontrivial'),
                                                      c.get('traces_validated_against_impl'), e.get('wall_s', 0)))
s = open(V + '/DESIGN.md').read()
head = '| Prop | theorems | cases | distinct non-trivial | implementation runs validated against the model | wall |\n|---|---|---|---|---|---|\n'
m = re.search(re.escape(head) + r'(\| C\d\d .*\n)+', s)
s = s[:m.start()] + head + '\n'.join(rows) + '\n' + s[m.end():]
kf = open(V + '/KNOWN_FINDINGS.txt').read()
nfind = len(re.findall(r'^finding:', kf, re.M)); nfix = len(re.findall(r'^fixed:', kf, re.M))
s = re.sub(r'claimed at level `proof`: \d+ theorems', 'claimed at level `proof`: %d theorems' % tot, s)
s = re.sub(r'genuine defects of pika; \d+ are repaired by minimal `fix:` commits, \d+ signatures',
           'genuine defects of pika; %d are repaired by minimal `fix:` commits, %d signatures' % (nfix, nfind), s)
open(V + '/DESIGN.md', 'w').write(s)
print('theorems', tot, 'fixed', nfix, 'findings', nfind)
