// C04 free-running stress twin of harness/c04_rw.cpp (see harness/common/stress_util.hpp for the why).
//
// Per trial (main thread, sequentially, as the documentation requires): a fresh async_rw_mutex (non-void
// <Val> or void, drawn per trial), 2..4 request GROUPS (a group = one readwrite access, or 1..6 read
// accesses sharing one shared state), every sender connected to a monitoring receiver.  The accesses of
// group 0 are started on the main thread (granted at once) and their wrappers are kept.  Then, released
// from ONE spin barrier with swept offsets:
//   * 1..2 RELEASER threads destroy the wrappers of group 0 (the last one runs ~shared_state -> done() of
//     group 1's state: the exchange that closes the queue),
//   * 1..4 STARTER threads start() the accesses of groups 1.. back to back (add_op_state: head load + CAS),
//     in shuffled order; a receiver either releases its wrapper inside set_value (so the grant chain runs
//     on through the later groups on whatever thread happens to run done()) or keeps it; kept wrappers are
//     released by the owning starter after its starts, the rest by the main thread afterwards,
//   * in half of the trials the mutex itself is destroyed before the race (the last state's extra
//     reference is gone, so the last group's state is destroyed by a racing thread too).
// Monitors (property itself, no model; all hold for every interleaving of correct code):
//   lost_grant        an access that was started is never granted although everything was released
//   granted_twice     set_value called twice for one access
//   overlap_w         a read-write access is inside set_value..release while any other access is
//   granted_early     an access of group g' > g got its grant stamp before the last release stamp of group g
//                     (stamps from one global fetch_add counter: release stamp taken BEFORE the wrapper is
//                     destroyed, grant stamp at set_value entry, so correct code always has rel < grant)
//   version           a reader/writer did not see exactly the writes of all earlier read-write groups
//   receiver_error    set_error / set_stopped
//   write_after_free  a quarantined (zeroed, not yet returned) shared-state block was written to
//   leak / value_not_freed / value_freed_early   block accounting after everything was dropped
//
//   c04_stress <seed> <trials> <budget_ms>
#include "common/stress_util.hpp"

#include <pika/execution.hpp>
#include <pika/execution/async_rw_mutex.hpp>

#include <array>
#include <memory>
#include <optional>
#include <sstream>
#include <string>

namespace ex = pika::execution::experimental;

// ---------------------------------------------------------------- quarantine allocator (lock-free variant)
struct Arena
{
    struct B
    {
        void* p;
        std::size_t n;
    };
    std::atomic<long> live{0};
    std::atomic<int> nfreed{0};
    B freed[128];
    long check_and_clear()
    {
        long bad = 0;
        int n = nfreed.load();
        if (n > 128) n = 128;
        for (int k = 0; k < n; ++k)
        {
            auto* p = static_cast<unsigned char*>(freed[k].p);
            for (std::size_t i = 0; i < freed[k].n; ++i)
                if (p[i])
                {
                    ++bad;
                    break;
                }
            std::free(freed[k].p);
        }
        nfreed.store(0);
        return bad;
    }
};
static Arena g_arena;

template <typename T>
struct QAlloc
{
    using value_type = T;
    QAlloc() = default;
    template <typename U>
    QAlloc(QAlloc<U> const&) noexcept
    {
    }
    T* allocate(std::size_t n)
    {
        g_arena.live.fetch_add(1);
        return static_cast<T*>(std::calloc(n, sizeof(T)));
    }
    void deallocate(T* p, std::size_t n) noexcept
    {
        g_arena.live.fetch_sub(1);
        std::memset(static_cast<void*>(p), 0, n * sizeof(T));
        int k = g_arena.nfreed.fetch_add(1);
        if (k < 128) g_arena.freed[k] = Arena::B{p, n * sizeof(T)};
        else std::free(p);
    }
    template <typename U>
    bool operator==(QAlloc<U> const&) const noexcept
    {
        return true;
    }
    template <typename U>
    bool operator!=(QAlloc<U> const&) const noexcept
    {
        return false;
    }
};

static std::atomic<std::uint64_t> g_seq{1};
static std::atomic<std::uint64_t> g_vfree{0};    // stamp at which the owning Val was destroyed (0 = not yet)

struct Val
{
    int ver = 0;
    bool owner = false;
    Val() = default;
    explicit Val(bool o)
      : owner(o)
    {
    }
    Val(Val&& o) noexcept
      : ver(o.ver)
      , owner(o.owner)
    {
        o.owner = false;
    }
    Val& operator=(Val&&) = delete;
    ~Val()
    {
        if (owner) g_vfree.store(g_seq.fetch_add(1));
    }
};

static constexpr int MAXA = 20;

template <typename M, bool IsVoid>
struct Trial
{
    using SR = decltype(std::declval<M&>().read());
    using SW = decltype(std::declval<M&>().readwrite());
    using WR = typename M::read_access_type;
    using WW = typename M::readwrite_access_type;

    template <typename W>
    struct Rec
    {
        PIKA_STDEXEC_RECEIVER_CONCEPT
        Trial* c;
        int a;
        void set_value(W w) && noexcept { c->on_grant(a, std::move(w)); }
        void set_error(std::exception_ptr) && noexcept { c->err.fetch_add(1); }
        void set_stopped() && noexcept { c->err.fetch_add(1); }
        constexpr ex::empty_env get_env() const& noexcept { return {}; }
    };
    using OpR = decltype(ex::connect(std::declval<SR&&>(), std::declval<Rec<WR>>()));
    using OpW = decltype(ex::connect(std::declval<SW&&>(), std::declval<Rec<WW>>()));

    struct Acc
    {
        char kind = 'R';
        int group = 0;
        bool autorel = false;
        std::unique_ptr<OpR> opr;
        std::unique_ptr<OpW> opw;
        std::optional<WR> wr;
        std::optional<WW> ww;
        std::atomic<int> grants{0};
        std::atomic<int> held{0};    // 1 wrapper stored, 2 released
        std::uint64_t gstamp = 0, rstamp = 0;
        int seen = -1;
    };

    std::optional<M> mtx;
    Val ext;
    std::array<Acc, MAXA> accs;
    int nacc = 0, ngroups = 0;
    std::atomic<int> err{0}, twice{0}, overlap{0};
    std::atomic<int> readers{0}, writers{0};
    // roles
    int nrole = 0;
    int list[6][MAXA];
    int nlist[6] = {0, 0, 0, 0, 0, 0};
    bool is_releaser[6] = {false, false, false, false, false, false};

    Val* value(WR& w)
    {
        if constexpr (IsVoid) return &ext; else return const_cast<Val*>(&w.get());
    }
    Val* value(WW& w)
    {
        if constexpr (IsVoid) return &ext; else return &w.get();
    }

    void leave(Acc& x)
    {
        if (x.kind == 'W') writers.fetch_sub(1); else readers.fetch_sub(1);
        x.rstamp = g_seq.fetch_add(1);
    }

    template <typename W>
    void on_grant(int a, W w)
    {
        Acc& x = accs[a];
        std::uint64_t gs = g_seq.fetch_add(1);
        if (x.grants.fetch_add(1) != 0)
        {
            twice.fetch_add(1);
            return;
        }
        x.gstamp = gs;
        Val* v = value(w);
        if (x.kind == 'W')
        {
            if (writers.fetch_add(1) != 0 || readers.load() != 0) overlap.fetch_add(1);
            int s = __atomic_load_n(&v->ver, __ATOMIC_RELAXED);
            x.seen = s;
            __atomic_store_n(&v->ver, s + 1, __ATOMIC_RELAXED);
        }
        else
        {
            readers.fetch_add(1);
            if (writers.load() != 0) overlap.fetch_add(1);
            x.seen = __atomic_load_n(&v->ver, __ATOMIC_RELAXED);
        }
        if (x.autorel)
        {
            leave(x);
            return;    // w destroyed here, inside set_value
        }
        if constexpr (std::is_same_v<W, WW>) x.ww.emplace(std::move(w)); else x.wr.emplace(std::move(w));
        x.held.store(1, std::memory_order_release);
    }

    bool release_if_held(int a)
    {
        Acc& x = accs[a];
        if (x.held.load(std::memory_order_acquire) != 1) return false;
        x.held.store(2, std::memory_order_relaxed);
        leave(x);
        x.wr.reset();
        x.ww.reset();
        return true;
    }

    static void role_fn(void* p, int role)
    {
        Trial* t = static_cast<Trial*>(p);
        int const n = t->nlist[role];
        int const* l = t->list[role];
        if (t->is_releaser[role])
        {
            for (int i = 0; i < n; ++i) t->release_if_held(l[i]);
            return;
        }
        for (int i = 0; i < n; ++i)
        {
            Acc& x = t->accs[l[i]];
            if (x.kind == 'R') ex::start(*x.opr); else ex::start(*x.opw);
        }
        for (int i = 0; i < n; ++i) t->release_if_held(l[i]);
    }

    std::string describe(stw::Task const* tasks) const
    {
        std::ostringstream o;
        o << "plan=";
        for (int a = 0; a < nacc; ++a)
        {
            if (a && accs[a].group != accs[a - 1].group) o << "|";
            o << accs[a].kind << (accs[a].autorel ? "" : "h");
        }
        o << " roles=";
        for (int r = 0; r < nrole; ++r)
        {
            o << (r ? ";" : "") << (is_releaser[r] ? "rel" : "start") << "@" << tasks[r].delay << ":";
            for (int i = 0; i < nlist[r]; ++i) o << (i ? "," : "") << list[r][i];
        }
        o << " stamps=";
        for (int a = 0; a < nacc; ++a)
            o << (a ? "," : "") << accs[a].grants.load() << "/" << accs[a].gstamp << "-" << accs[a].rstamp << "/v" << accs[a].seen;
        return o.str();
    }

    void run(stw::Pool& P, std::uint64_t trial, vctl::Rng& rng)
    {
        // ---- plan
        ngroups = 2 + (int) rng.below(3);
        std::string kinds;
        int style = (int) rng.below(4);
        char prev = 0;
        for (int g = 0; g < ngroups; ++g)
        {
            char k = style == 0 ? (g % 2 ? 'R' : 'W') : style == 1 ? (g % 2 ? 'W' : 'R') : style == 2 ? 'W' : (rng.chance(1, 2) ? 'R' : 'W');
            if (k == 'R' && prev == 'R') k = 'W';
            prev = k;
            kinds.push_back(k);
            int sz = k == 'W' ? 1 : (g == 0 ? 1 + (int) rng.below(3) : 1 + (int) rng.below(6));
            for (int i = 0; i < sz && nacc < MAXA; ++i)
            {
                accs[nacc].kind = k;
                accs[nacc].group = g;
                accs[nacc].autorel = g > 0 && rng.chance(2, 3);
                ++nacc;
            }
        }
        bool const destroy_first = rng.chance(1, 2);
        {
            std::string c = std::string(IsVoid ? "V:" : "T:") + kinds;
            stw::set_class(c.c_str());
        }
        g_seq.store(1);
        g_vfree.store(0);
        // ---- requests (sequential), connect
        if constexpr (IsVoid) mtx.emplace(); else mtx.emplace(Val(true));
        for (int a = 0; a < nacc; ++a)
        {
            Acc& x = accs[a];
            if (x.kind == 'R') x.opr.reset(new OpR(ex::connect(mtx->read(), Rec<WR>{this, a})));
            else x.opw.reset(new OpW(ex::connect(mtx->readwrite(), Rec<WW>{this, a})));
        }
        if (destroy_first) mtx.reset();
        // ---- group 0 is granted before the race
        int n0 = 0;
        for (int a = 0; a < nacc && accs[a].group == 0; ++a, ++n0)
        {
            if (accs[a].kind == 'R') ex::start(*accs[a].opr); else ex::start(*accs[a].opw);
        }
        // ---- roles
        int nrel = n0 >= 2 && rng.chance(1, 2) ? 2 : 1;
        int rest = nacc - n0;
        int nstart = 1 + (int) rng.below(4);
        if (nstart > rest) nstart = rest;
        if (nrel + nstart > stw::Pool::W + 1) nstart = stw::Pool::W + 1 - nrel;
        nrole = nrel + nstart;
        for (int r = 0; r < nrel; ++r) is_releaser[r] = true;
        for (int a = 0; a < n0; ++a) list[a % nrel][nlist[a % nrel]++] = a;
        {
            int idx[MAXA];
            for (int i = 0; i < rest; ++i) idx[i] = n0 + i;
            // shuffle (sometimes keep request order: the common usage)
            if (rng.chance(3, 4))
                for (int i = rest - 1; i > 0; --i) std::swap(idx[i], idx[rng.below((std::uint64_t) i + 1)]);
            for (int i = 0; i < rest; ++i)
            {
                int r = nrel + (i % nstart);
                list[r][nlist[r]++] = idx[i];
            }
        }
        stw::Task tasks[6];
        for (int r = 0; r < nrole; ++r) tasks[r] = stw::Task{&role_fn, this, r, is_releaser[r] ? stw::sweep(rng, 11) : stw::sweep(rng, 9)};
        for (int a = 0; a < n0; ++a)
            if (accs[a].grants.load() != 1)
                stw::bad("first_not_granted", "access %d of the first group was not granted by start() %s", a, describe(tasks).c_str());
        // ---- the race
        P.run(trial + 1, tasks, nrole, (int) rng.below((std::uint64_t) nrole));
        // ---- drain: release every kept wrapper until nothing moves
        for (bool moved = true; moved;)
        {
            moved = false;
            for (int a = 0; a < nacc; ++a) moved = release_if_held(a) || moved;
        }
        // ---- verdict
        if (err.load()) stw::bad("receiver_error", "a receiver got set_error/set_stopped %s", describe(tasks).c_str());
        if (twice.load()) stw::bad("granted_twice", "an access was granted twice %s", describe(tasks).c_str());
        for (int a = 0; a < nacc; ++a)
            if (accs[a].grants.load() == 0)
                stw::bad("lost_grant", "access %d (%c, group %d) was started, every earlier wrapper is released, but it was never granted %s", a,
                    accs[a].kind, accs[a].group, describe(tasks).c_str());
        if (overlap.load()) stw::bad("overlap_w", "a read-write access was granted while another access was active %s", describe(tasks).c_str());
        {
            std::uint64_t maxrel = 0;
            int a = 0;
            int writes = 0;
            for (int g = 0; g < ngroups; ++g)
            {
                std::uint64_t mr = 0;
                int b = a;
                for (; b < nacc && accs[b].group == g; ++b)
                {
                    if (accs[b].gstamp < maxrel)
                        stw::bad("granted_early", "access %d of group %d was granted (stamp %llu) before group %d was fully released (stamp %llu) %s", b, g,
                            (unsigned long long) accs[b].gstamp, g - 1, (unsigned long long) maxrel, describe(tasks).c_str());
                    if (accs[b].seen != writes)
                        stw::bad("version", "access %d of group %d saw version %d, the earlier read-write accesses left %d %s", b, g, accs[b].seen, writes,
                            describe(tasks).c_str());
                    if (accs[b].rstamp > mr) mr = accs[b].rstamp;
                }
                if (accs[a].kind == 'W') ++writes;
                if (mr > maxrel) maxrel = mr;
                a = b;
            }
            std::uint64_t vf = g_vfree.load();
            // the value lives as long as the mutex or any shared state: with the mutex destroyed up front it goes
            // with the last wrapper (after that wrapper's release stamp), otherwise not before the tear-down below
            if (!IsVoid && vf != 0 && (!destroy_first || vf < maxrel))
                stw::bad("value_freed_early", "the wrapped value was destroyed (stamp %llu) while the mutex or a wrapper still existed %s",
                    (unsigned long long) vf, describe(tasks).c_str());
        }
        // ---- tear down, block accounting
        mtx.reset();
        for (int a = 0; a < nacc; ++a)
        {
            accs[a].opr.reset();
            accs[a].opw.reset();
        }
        long live = g_arena.live.load();
        long waf = g_arena.check_and_clear();
        if (waf) stw::bad("write_after_free", "%ld destroyed shared-state blocks were written to after their release %s", waf, describe(tasks).c_str());
        if (live != 0) stw::bad("leak", "%ld shared-state/value blocks still allocated after every reference was dropped %s", live, describe(tasks).c_str());
        if (!IsVoid && g_vfree.load() == 0) stw::bad("value_not_freed", "the wrapped value was never destroyed %s", describe(tasks).c_str());
    }
};

int main(int argc, char** argv)
{
    std::uint64_t seed = argc > 1 ? std::strtoull(argv[1], nullptr, 10) : 1;
    std::uint64_t ntrials = argc > 2 ? std::strtoull(argv[2], nullptr, 10) : 100000;
    long budget = argc > 3 ? std::atol(argv[3]) : 10000;
    return stw::run_forked("RWS", seed, ntrials, budget, [](stw::Pool& P, std::uint64_t tr, vctl::Rng& rng) {
        if (rng.chance(1, 4))
        {
            auto t = std::make_unique<Trial<ex::async_rw_mutex<void, void, QAlloc<int>>, true>>();
            t->run(P, tr, rng);
        }
        else
        {
            auto t = std::make_unique<Trial<ex::async_rw_mutex<Val, Val, QAlloc<int>>, false>>();
            t->run(P, tr, rng);
        }
    }, 6, 20000);
}
