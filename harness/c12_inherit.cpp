// harness/c12_inherit.cpp — C12 "each task runs on its own stack of the size configured for its stack-size class",
// for tasks created with pika::execution::thread_stacksize::current (inherit the creator's class).
//
// usage: c12_inherit <seed> <reps> <pika options...>
//
// One process = one runtime (the plug-in runs it as its own child process: a stack overrun — SIGSEGV on the guard
// page or a crash after neighbouring memory was overwritten — ends the process, and the last WAVE line names the
// parent class and the creation path).  A wave: a parent task of an EXPLICIT class K (small / medium / large / huge)
// creates 3 children with `current` through one creation path; every child creates a grandchild with `current`
// through another path:
//   staged            register_work, normal priority         -> staged description, converted later by a worker
//   staged_sched      start_detached(schedule(with_stacksize(thread_pool_scheduler{}, current)) | then(f))   (staged)
//   run_now_high      register_work, high priority           -> thread object created at once, in the creator's context
//   run_now_boost     register_work, boost priority          -> created at once
//   register_thread   register_thread(..., run_now = true)   -> created at once
//   sched_high        start_detached(schedule(with_priority(with_stacksize(sched, current), high)) | then(f))  (at once)
// (pika::thread has no stack-size parameter: it always asks for thread_stacksize::default_.)
// plus one wave per run with `current` given by a plain OS thread (no creating task: get_self_stacksize_enum()'s
// fallback class).
// Every child / grandchild records
//   * get_self_stacksize_enum() (what the task itself reports as its class) and get_self_stacksize() (the size of
//     the stack of its thread object) — compared by the plug-in with the configured size of the PARENT's class
//     (monitor, independent of the model) and with the extracted model's created_class / created_enum (DIFF);
//   * if those agree with the expectation: recursion with 1 KiB frames until 75 % of the EXPECTED size lie between
//     the first and the current frame, a per-task / per-depth pattern in every cache line, a yield at the bottom,
//     all patterns verified on the way back (canary_ok).
// lines: INFO sizes=..   WAVE <w> parent=<K> path=<p> gpath=<p'>   OUT INH <w>.<k> key=value ...   DONE rc=0
#include <pika/config.hpp>
#include <pika/execution.hpp>
#include <pika/init.hpp>
#include <pika/runtime.hpp>
#include <pika/runtime/runtime.hpp>
#include <pika/thread.hpp>
#include <pika/threading_base/register_thread.hpp>
#include <pika/threading_base/thread_data.hpp>
#include <pika/threading_base/thread_helpers.hpp>

#include <atomic>
#include <chrono>
#include <cstdint>
#include <cstdio>
#include <cstdlib>
#include <cstring>
#include <functional>
#include <string>
#include <thread>
#include <unistd.h>
#include <vector>

#if !defined(PIKA_VERIF)
# error "harnesses must be compiled with -DPIKA_VERIF"
#endif

namespace pe = pika::execution;
namespace ex = pika::execution::experimental;
using namespace pika::threads::detail;

static std::uint64_t splitmix(std::uint64_t& s)
{
    std::uint64_t z = (s += 0x9e3779b97f4a7c15ull);
    z = (z ^ (z >> 30)) * 0xbf58476d1ce4e5b9ull;
    z = (z ^ (z >> 27)) * 0x94d049bb133111ebull;
    return z ^ (z >> 31);
}

static pe::thread_stacksize cls_of(int k)
{
    switch (k)
    {
    case 0: return pe::thread_stacksize::small_;
    case 1: return pe::thread_stacksize::medium;
    case 2: return pe::thread_stacksize::large;
    default: return pe::thread_stacksize::huge;
    }
}
static int idx_of(pe::thread_stacksize s)
{
    switch (s)
    {
    case pe::thread_stacksize::small_: return 0;
    case pe::thread_stacksize::medium: return 1;
    case pe::thread_stacksize::large: return 2;
    case pe::thread_stacksize::huge: return 3;
    case pe::thread_stacksize::current: return 6;
    default: return int(s) + 100;
    }
}
static char const* const CLS[4] = {"small", "medium", "large", "huge"};
constexpr int NPATH = 6;
static char const* const PATHS[NPATH + 1] = {"staged", "staged_sched", "run_now_high", "run_now_boost", "register_thread", "sched_high",
    "from_os_thread"};
static bool path_run_now(int p) { return p == 2 || p == 3 || p == 4 || p == 5; }

static std::ptrdiff_t g_cfg[4];

// ------------------------------------------------------------------ records
struct Rec
{
    int wave = 0, k = 0, gen = 0, path = 0, parent_cls = 0;
    int cls_enum = -1;
    std::ptrdiff_t stack_size = 0, expected = 0;
    long burned = 0, bad = 0;
    int burn = 0, depth = 0, finished = 0;
};
constexpr int MAXR = 4096;
static Rec g_rec[MAXR];
static std::atomic<int> g_nrec{0};
static std::atomic<int> g_done{0};
static std::atomic<int> g_sink{0};

// ------------------------------------------------------------------ stack use
struct BurnCtx
{
    char* top;
    std::size_t target;
    std::uint32_t key;
    int maxdepth = 0;
    long bad = 0;
};
constexpr std::size_t FRAME = 1024;
__attribute__((noinline)) static int burn(BurnCtx& cx, int depth)
{
    volatile unsigned char buf[FRAME];
    unsigned char const pat = static_cast<unsigned char>(cx.key * 131u + std::uint32_t(depth) * 31u + 7u);
    for (std::size_t i = 0; i < FRAME; i += 64) buf[i] = static_cast<unsigned char>(pat ^ (i >> 6));
    buf[FRAME - 1] = pat;
    std::size_t used = std::size_t(cx.top - reinterpret_cast<char*>(const_cast<unsigned char*>(&buf[0])));
    int r = 0;
    if (used < cx.target) r = burn(cx, depth + 1);
    else
    {
        cx.maxdepth = depth;
        pika::this_thread::yield();    // other tasks run on their stacks, the task may migrate
    }
    for (std::size_t i = 0; i < FRAME; i += 64)
        if (buf[i] != static_cast<unsigned char>(pat ^ (i >> 6))) ++cx.bad;
    if (buf[FRAME - 1] != pat) ++cx.bad;
    return r + buf[64];
}

static void create(int path, int hint_unused, std::function<void()> f);

// what a child / grandchild does
static void descendant(int wave, int gen, int path, int parent_cls, int gpath, std::uint32_t key)
{
    int ri = g_nrec.fetch_add(1);
    Rec& r = g_rec[ri < MAXR ? ri : MAXR - 1];
    r.wave = wave;
    r.k = ri;
    r.gen = gen;
    r.path = path;
    r.parent_cls = parent_cls;
    r.cls_enum = idx_of(get_self_stacksize_enum());
    r.stack_size = get_self_stacksize();
    r.expected = parent_cls >= 0 ? g_cfg[parent_cls] : 0;
    // the next generation first (it runs while this task burns)
    if (gen == 1 && gpath >= 0)
        create(gpath, 0, [=] { descendant(wave, 2, gpath, parent_cls, -1, key * 2654435761u + 17u); });
    if (parent_cls >= 0 && r.stack_size == r.expected && r.cls_enum == parent_cls)
    {
        char here;
        BurnCtx cx{&here, std::size_t(r.expected) / 100 * 75, key};
        r.burn = 1;
        int s = burn(cx, 0);
        g_sink.fetch_add(s & 1);
        r.burned = long(cx.maxdepth + 1) * long(FRAME);
        r.depth = cx.maxdepth;
        r.bad = cx.bad;
    }
    r.finished = 1;
    g_done.fetch_add(1, std::memory_order_release);
}

// create a task with thread_stacksize::current through `path`
static void create(int path, int, std::function<void()> f)
{
    auto const cur = pe::thread_stacksize::current;
    switch (path)
    {
    case 0:
    case 6:
    {
        thread_init_data data(make_thread_function_nullary(std::move(f)), "verif-inherit", pe::thread_priority::normal,
            pe::thread_schedule_hint(), cur);
        register_work(data);
        break;
    }
    case 1:
    {
        auto sched = ex::with_stacksize(ex::thread_pool_scheduler{}, cur);
        ex::start_detached(ex::schedule(sched) | ex::then(std::move(f)));
        break;
    }
    case 2:
    {
        thread_init_data data(make_thread_function_nullary(std::move(f)), "verif-inherit", pe::thread_priority::high,
            pe::thread_schedule_hint(), cur);
        register_work(data);
        break;
    }
    case 3:
    {
        thread_init_data data(make_thread_function_nullary(std::move(f)), "verif-inherit", pe::thread_priority::boost,
            pe::thread_schedule_hint(), cur);
        register_work(data);
        break;
    }
    case 4:
    {
        thread_init_data data(make_thread_function_nullary(std::move(f)), "verif-inherit", pe::thread_priority::normal,
            pe::thread_schedule_hint(), cur, thread_schedule_state::pending, true);
        thread_id_ref_type id = register_thread(data);
        (void) id;
        break;
    }
    default:
    {
        auto sched = ex::with_priority(ex::with_stacksize(ex::thread_pool_scheduler{}, cur), pe::thread_priority::high);
        ex::start_detached(ex::schedule(sched) | ex::then(std::move(f)));
        break;
    }
    }
}

static bool wait_for(int expected, double limit_s)
{
    auto t0 = std::chrono::steady_clock::now();
    while (g_done.load(std::memory_order_acquire) < expected)
    {
        std::this_thread::sleep_for(std::chrono::microseconds(200));
        if (std::chrono::duration<double>(std::chrono::steady_clock::now() - t0).count() > limit_s) return false;
    }
    return true;
}

int main(int argc, char** argv)
{
    if (argc < 3) return 2;
    std::uint64_t seed = std::strtoull(argv[1], nullptr, 10);
    int reps = std::atoi(argv[2]);
    setvbuf(stdout, nullptr, _IOLBF, 0);
    std::vector<char*> av;
    av.push_back(argv[0]);
    for (int i = 3; i < argc; ++i) av.push_back(argv[i]);
    av.push_back(nullptr);
    pika::start(int(av.size()) - 1, av.data());
    for (int k = 0; k < 4; ++k) g_cfg[k] = pika::detail::get_runtime().get_config().get_stack_size(cls_of(k));
    std::printf("INFO sizes=%tx,%tx,%tx,%tx seed=%llu reps=%d\n", g_cfg[0], g_cfg[1], g_cfg[2], g_cfg[3], (unsigned long long) seed, reps);

    std::uint64_t rs = seed * 0x2545F4914F6CDD1Dull + 4711;
    int wave = 0, rc = 0;
    int printed = 0;
    auto flush_records = [&] {
        int n = g_nrec.load();
        if (n > MAXR) n = MAXR;
        for (; printed < n; ++printed)
        {
            Rec const& r = g_rec[printed];
            std::printf("OUT INH %d.%d gen=%d path=%s run_now=%d parent_cls=%d cls_enum=%d stack_size=%tx expected=%tx burn=%d burned=%ld "
                        "canary_ok=%d finished=%d\n",
                r.wave, r.k, r.gen, PATHS[r.path], path_run_now(r.path) ? 1 : 0, r.parent_cls, r.cls_enum, r.stack_size, r.expected, r.burn,
                r.burned, r.bad == 0 ? 1 : 0, r.finished);
        }
        std::fflush(stdout);
    };
    for (int rep = 0; rep < reps && rc == 0; ++rep)
    {
        // parent classes in a seeded order; for every class every path
        int order[4] = {0, 1, 2, 3};
        for (int i = 3; i > 0; --i) std::swap(order[i], order[splitmix(rs) % std::uint64_t(i + 1)]);
        for (int oi = 0; oi < 4 && rc == 0; ++oi)
        {
            int K = order[oi];
            for (int p = 0; p < NPATH && rc == 0; ++p)
            {
                int gp = int(splitmix(rs) % NPATH);
                int nch = 3;
                ++wave;
                std::uint32_t key = std::uint32_t(splitmix(rs));
                bool parent_high = (splitmix(rs) & 1) != 0;
                std::printf("WAVE %d parent=%s path=%s gpath=%s parent_created=%s\n", wave, CLS[K], PATHS[p], PATHS[gp],
                    parent_high ? "at_once" : "staged");
                std::fflush(stdout);
                int before = g_done.load();
                std::atomic<int> parent_ok{-1};
                thread_init_data data(make_thread_function_nullary([&, K, p, gp, nch, wave, key] {
                    bool ok = idx_of(get_self_stacksize_enum()) == K && get_self_stacksize() == g_cfg[K];
                    parent_ok.store(ok ? 1 : 0);
                    for (int c = 0; c < nch; ++c)
                    {
                        std::uint32_t ck = key + std::uint32_t(c) * 977u;
                        create(p, 0, [=] { descendant(wave, 1, p, K, gp, ck); });
                        if (c == 1) pika::this_thread::yield();
                    }
                }),
                    "verif-inherit-parent", parent_high ? pe::thread_priority::high : pe::thread_priority::normal,
                    pe::thread_schedule_hint(), cls_of(K));
                register_work(data);
                if (!wait_for(before + 2 * nch, 40.0))
                {
                    flush_records();
                    std::printf("HANG wave=%d parent=%s path=%s done=%d expected=%d\n", wave, CLS[K], PATHS[p], g_done.load() - before, 2 * nch);
                    std::fflush(stdout);
                    _exit(3);
                }
                if (parent_ok.load() != 1)
                    std::printf("OUT PARENT %d cls=%d ok=%d\n", wave, K, parent_ok.load());
                flush_records();
            }
        }
        // `current` given by a plain OS thread: no creating task
        {
            ++wave;
            std::printf("WAVE %d parent=none path=from_os_thread gpath=- parent_created=-\n", wave);
            std::fflush(stdout);
            int before = g_done.load();
            std::uint32_t key = std::uint32_t(splitmix(rs));
            int w = wave;
            create(6, 0, [=] { descendant(w, 1, 6, -1, -1, key); });
            if (!wait_for(before + 1, 40.0))
            {
                std::printf("HANG wave=%d parent=none path=from_os_thread\n", wave);
                std::fflush(stdout);
                _exit(3);
            }
            flush_records();
        }
    }
    pika::finalize();
    int r = pika::stop();
    std::printf("DONE rc=%d waves=%d tasks=%d\n", r, wave, g_nrec.load());
    std::fflush(stdout);
    return 0;
}
