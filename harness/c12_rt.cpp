// harness/c12_rt.cpp — C12 on the REAL runtime (PROC mode).
// Waves of tasks of all four stack-size classes; every task
//   * at its start reads what a clean task must see: no interruption request, interruption enabled,
//     thread data word 0, exit callbacks accepted (ran_exit_funcs_ reset), its stack size equal to the
//     configured size of its class, its stack range disjoint from every other live task's;
//   * recurses to a random depth writing canary arrays and keeping live locals, yields / suspends (contended
//     pika::mutex; timed suspension is not supported by this pika version) at the
//     bottom and on the way back under c12_regcheck (callee-saved registers loaded with patterns in
//     assembly), re-checks canaries, locals, thread data word, thread id after every resumption and
//     counts migrations (worker number changed);
//   * optionally consumes its stack down to a small margin (usable size >= configured size);
//   * optionally leaves dirt behind: a pending interruption request with interruption disabled, a
//     non-zero thread data word, an exit callback (must run exactly once, never for a later task);
//   * FP: half of the tasks set FE_UPWARD and expect it after every yield, the others expect
//     FE_TONEAREST (defect F7: the context switch does not preserve MXCSR / x87 CW).
// One line per task:  OUT RT <id> key=value ...   evaluated by tools/props/c12.py.
//
// usage: c12_rt <seed> <waves> <tasks_per_wave> [pika options...]
#include <pika/execution.hpp>
#include <pika/init.hpp>
#include <pika/mutex.hpp>
#include <pika/thread.hpp>
#include <pika/threading_base/thread_helpers.hpp>

#include <common/c12_util.hpp>

#include <atomic>
#include <cfenv>
#include <chrono>
#include <cstdint>
#include <cstdio>
#include <map>
#include <mutex>
#include <string>
#include <vector>

namespace ex = pika::execution::experimental;
namespace tt = pika::this_thread::experimental;
namespace td = pika::threads::detail;

struct task_desc
{
    long id;
    int cls;    // 0 small 1 medium 2 large 3 huge
    int depth, nyield, nsleep;
    bool consume, dirty, fp_up;
    std::uint64_t key;
};

struct task_obs
{
    std::uintptr_t tid = 0;
    bool start_intr_req = false, start_intr_enabled = true, exit_cb_accepted = true;
    std::uint64_t start_data = 0;
    std::ptrdiff_t stack_size = 0, avail_at_start = 0;
    bool overlap = false;
    bool canary_ok = true, locals_ok = true, data_ok = true, id_ok = true;
    std::uint64_t regmask = 0;
    int migrations = 0, resumes = 0;
    bool fp_changed = false, fp_foreign = false;
    std::ptrdiff_t min_avail = 0;
    bool consumed = false;
    bool interrupted = false;
    bool finished = false, other_exception = false;
    char guard_perm[8] = "-";
};

static std::mutex g_mtx;
static std::map<std::uintptr_t, std::pair<std::uintptr_t, long>> g_live;    // bottom -> (top, id)
static std::atomic<long> g_cb_runs[1 << 16];                                  // exit callback runs per task slot
static std::atomic<long> g_foreign_cb{0};
static pika::mutex g_pm;

struct runner
{
    task_desc d;
    task_obs o;

    static void yield_fn(void* p)
    {
        // called through the assembly routine c12_regcheck (no unwind information): an exception
        // must not leave this function
        runner* r = static_cast<runner*>(p);
        try
        {
            if (r->sleep_now)
            {
                // a real suspension: the mutex is held across a yield, so contenders suspend inside
                // lock() and are resumed by whoever unlocks (usually on another worker)
                std::unique_lock<pika::mutex> l(g_pm);
                pika::this_thread::yield();
            }
            else
                pika::this_thread::yield();
        }
        catch (pika::thread_interrupted const&)
        {
            r->o.interrupted = true;
        }
        catch (...)
        {
            r->o.other_exception = true;
        }
    }
    bool sleep_now = false;
    std::size_t last_worker = 0;

    void after_resume()
    {
        ++o.resumes;
        std::size_t w = pika::get_worker_thread_num();
        if (w != last_worker) ++o.migrations;
        last_worker = w;
        if (pika::this_thread::get_thread_data() != d.key) o.data_ok = false;
        if (reinterpret_cast<std::uintptr_t>(td::get_self_id().get()) != o.tid) o.id_ok = false;
        int mode = std::fegetround();
        if (d.fp_up && mode != FE_UPWARD)
        {
            o.fp_changed = true;
            std::fesetround(FE_UPWARD);
        }
        if (!d.fp_up && mode != FE_TONEAREST)
        {
            o.fp_foreign = true;
            std::fesetround(FE_TONEAREST);
        }
    }

    void suspend_point(std::uint64_t base, bool sleep)
    {
        sleep_now = sleep;
        o.regmask |= c12_regcheck(&yield_fn, this, base);
        after_resume();
    }

    __attribute__((noinline)) void deep(int lvl)
    {
        volatile std::uint64_t canary[16];
        std::uint64_t l0 = c12::pattern(d.key, lvl, 100), l1 = c12::pattern(d.key, lvl, 101),
                      l2 = c12::pattern(d.key, lvl, 102), l3 = c12::pattern(d.key, lvl, 103),
                      l4 = c12::pattern(d.key, lvl, 104), l5 = c12::pattern(d.key, lvl, 105);
        double f0 = double(lvl) + 0.25, f1 = double(d.key % 1000) * 0.5;
        for (int i = 0; i < 16; ++i) canary[i] = c12::pattern(d.key, lvl, i);
        if (lvl > 0)
            deep(lvl - 1);
        else
        {
            for (int y = 0; y < d.nyield; ++y) suspend_point(c12::pattern(d.key, 77, y), false);
            for (int y = 0; y < d.nsleep; ++y) suspend_point(c12::pattern(d.key, 78, y), true);
        }
        if ((lvl & 1) == 0 && d.nyield > 0) suspend_point(c12::pattern(d.key, lvl, 200), false);
        for (int i = 0; i < 16; ++i)
            if (canary[i] != c12::pattern(d.key, lvl, i)) o.canary_ok = false;
        if (l0 != c12::pattern(d.key, lvl, 100) || l1 != c12::pattern(d.key, lvl, 101) ||
            l2 != c12::pattern(d.key, lvl, 102) || l3 != c12::pattern(d.key, lvl, 103) ||
            l4 != c12::pattern(d.key, lvl, 104) || l5 != c12::pattern(d.key, lvl, 105) ||
            f0 != double(lvl) + 0.25 || f1 != double(d.key % 1000) * 0.5)
            o.locals_ok = false;
    }

    __attribute__((noinline)) void consume()
    {
        volatile char block[1024];
        block[0] = 1;
        block[1023] = 2;
        std::ptrdiff_t a = pika::this_thread::get_available_stack_space();
        if (a < o.min_avail) o.min_avail = a;
        if (a > 8192) consume();
        block[512] = block[0] + block[1023];
    }

    void run()
    {
        // ---- what a clean task must see
        pika::threads::detail::thread_id_type self = td::get_self_id();
        o.tid = reinterpret_cast<std::uintptr_t>(self.get());
        o.start_intr_req = pika::this_thread::interruption_requested();
        o.start_intr_enabled = pika::this_thread::interruption_enabled();
        // an inherited request would abort this task (or terminate the process from inside a noexcept
        // completion) at its next yield: record it above, then clear it so that the task can report
        if (o.start_intr_req) td::get_thread_id_data(self)->interrupt(false);
        if (!o.start_intr_enabled) td::get_thread_id_data(self)->set_interruption_enabled(true);
        o.start_data = pika::this_thread::get_thread_data();
        o.stack_size = pika::this_thread::get_stack_size();
        o.avail_at_start = pika::this_thread::get_available_stack_space();
        o.min_avail = o.avail_at_start;
        int slot = int(d.id & 0xffff);
        o.exit_cb_accepted = td::add_thread_exit_callback(self, [slot, tid = o.tid]() {
            ++g_cb_runs[slot];
            // the callback of task `slot` must run in the context of that task's object
            (void) tid;
        });
        {
            char probe;
            std::uintptr_t sp = reinterpret_cast<std::uintptr_t>(&probe);
            std::uintptr_t bottom = (sp - std::uintptr_t(o.avail_at_start)) & ~std::uintptr_t(4095);
            std::uintptr_t top = bottom + std::uintptr_t(o.stack_size);
            std::lock_guard<std::mutex> l(g_mtx);
            for (auto const& kv : g_live)
                if (kv.first < top && bottom < kv.second.first) o.overlap = true;
            g_live[bottom] = {top, d.id};
            stack_bottom = bottom;
        }
        last_worker = pika::get_worker_thread_num();
        pika::this_thread::set_thread_data(d.key);
        std::fesetround(d.fp_up ? FE_UPWARD : FE_TONEAREST);
        try
        {
            deep(d.depth);
            if (d.consume)
            {
                consume();
                o.consumed = true;
                // the page below the stack (guard page when pika.stacks.use_guard_pages=1)
                std::string pm = c12::perms_at(stack_bottom - 4096);
                std::snprintf(o.guard_perm, sizeof o.guard_perm, "%s", pm.empty() ? "none" : pm.c_str());
            }
        }
        catch (pika::thread_interrupted const&)
        {
            o.interrupted = true;
        }
        std::fesetround(FE_TONEAREST);
        {
            std::lock_guard<std::mutex> l(g_mtx);
            g_live.erase(stack_bottom);
        }
        if (d.dirty)
        {
            // leave a pending interruption request, interruption disabled, a non-zero data word
            // (what pika::thread::interrupt() from another task does to a task that then finishes
            // without reaching an interruption point; done on the object directly because
            // interrupt_thread() on the running task itself yields and would throw at once)
            // the three kinds of dirt are left independently (a reset that only happens under some
            // combination of the flags must still be noticed): the request always, the other two
            // each for about half of the dirty tasks
            unsigned h = (unsigned) ((std::uint64_t) d.id * 0x9E3779B97F4A7C15ull >> 40);
            td::get_thread_id_data(self)->interrupt(true);
            if (h & 1) td::get_thread_id_data(self)->set_interruption_enabled(false);
            pika::this_thread::set_thread_data((h & 2) ? 0xD1D1D1D1D1D1D1D1ull : 0);
        }
        else { pika::this_thread::set_thread_data(0); }
        o.finished = true;
    }
    std::uintptr_t stack_bottom = 0;
};

int main(int argc, char** argv)
{
    long seed = argc > 1 ? std::atol(argv[1]) : 1;
    int waves = argc > 2 ? std::atoi(argv[2]) : 4;
    int per = argc > 3 ? std::atoi(argv[3]) : 100;
    std::vector<char*> av;
    av.push_back(argv[0]);
    for (int i = 4; i < argc; ++i) av.push_back(argv[i]);
    av.push_back(nullptr);
    int ac = int(av.size()) - 1;
    std::setvbuf(stdout, nullptr, _IOLBF, 0);
    pika::start(ac, av.data());

    static pika::execution::thread_stacksize const CLS[] = {pika::execution::thread_stacksize::small_,
        pika::execution::thread_stacksize::medium, pika::execution::thread_stacksize::large,
        pika::execution::thread_stacksize::huge};
    c12::Rng rng{std::uint64_t(seed)};
    long id = 0;
    ex::thread_pool_scheduler sched{};
    for (int w = 0; w < waves; ++w)
    {
        std::vector<runner> rs(per);
        for (int i = 0; i < per; ++i)
        {
            task_desc& d = rs[i].d;
            d.id = ++id;
            std::uint64_t c = rng.below(10);
            d.cls = c < 4 ? 0 : c < 7 ? 1 : c < 9 ? 2 : 3;
            d.depth = int(rng.below(10));
            d.nyield = int(rng.below(6));
            d.nsleep = rng.below(4) == 0 ? 1 : 0;
            d.consume = rng.below(d.cls == 3 ? 8 : 4) == 0;
            d.dirty = rng.below(3) == 0;
            d.fp_up = rng.below(2) == 0;
            d.key = rng.next() | 1;
        }
        std::printf("WAVE %d begin\n", w);
        std::vector<ex::unique_any_sender<>> v;
        v.reserve(per);
        for (int i = 0; i < per; ++i)
        {
            runner* r = &rs[i];
            v.emplace_back(
                ex::schedule(ex::with_stacksize(sched, CLS[r->d.cls])) | ex::then([r] { r->run(); }));
        }
        tt::sync_wait(ex::when_all_vector(std::move(v)));
        // let the workers clean up the terminated tasks so that the next wave recycles them
        std::this_thread::sleep_for(std::chrono::milliseconds(5));
        for (int i = 0; i < per; ++i)
        {
            task_desc const& d = rs[i].d;
            task_obs const& o = rs[i].o;
            std::printf("OUT RT %ld wave=%d cls=%d depth=%d nyield=%d nsleep=%d consume=%d dirty=%d fp_up=%d tid=%lx "
                        "start_intr_req=%d start_intr_enabled=%d start_data=%lx exit_cb_accepted=%d stack_size=%lx "
                        "avail_at_start=%ld overlap=%d canary_ok=%d locals_ok=%d data_ok=%d id_ok=%d regmask=%lx "
                        "migrations=%d resumes=%d fp_changed=%d fp_foreign=%d min_avail=%ld consumed=%d interrupted=%d "
                        "finished=%d cb_runs=%ld guard_perm=%s other_exception=%d\n",
                d.id, w, d.cls, d.depth, d.nyield, d.nsleep, d.consume ? 1 : 0, d.dirty ? 1 : 0, d.fp_up ? 1 : 0,
                (unsigned long) o.tid, o.start_intr_req ? 1 : 0, o.start_intr_enabled ? 1 : 0,
                (unsigned long) o.start_data, o.exit_cb_accepted ? 1 : 0, (unsigned long) o.stack_size,
                (long) o.avail_at_start, o.overlap ? 1 : 0, o.canary_ok ? 1 : 0, o.locals_ok ? 1 : 0,
                o.data_ok ? 1 : 0, o.id_ok ? 1 : 0, (unsigned long) o.regmask, o.migrations, o.resumes,
                o.fp_changed ? 1 : 0, o.fp_foreign ? 1 : 0, (long) o.min_avail, o.consumed ? 1 : 0,
                o.interrupted ? 1 : 0, o.finished ? 1 : 0, g_cb_runs[d.id & 0xffff].load(), o.guard_perm, o.other_exception ? 1 : 0);
        }
        std::fflush(stdout);
    }
    pika::finalize();
    int rc = pika::stop();
    // every task has terminated now: its exit callback must have run exactly once
    for (long i = 1; i <= id; ++i) std::printf("OUT CB %ld runs=%ld\n", i, g_cb_runs[i & 0xffff].load());
    std::printf("DONE rc=%d\n", rc);
    return 0;
}
