// harness/c01_burst.cpp — C01 "every submitted task runs exactly once", for BURSTS of staged work that are
// larger than the batch in which staged task descriptions are converted into runnable threads.
//
// Staged descriptions become threads in batches with a budget: thread_queue::add_new(add_count, ...) with
// add_count from add_new_always (min_add_new_count / max_add_new_count = 10, max_thread_count = 1000 per
// queue, all configurable through pika.thread_queue.*), thread_queue_mc::add_new(64, ...) from
// queue_holder_numa::add_new / add_new_HP and add_new(32, ...) from thread_queue_mc::get_next_thread
// (check_new).  How the budget interacts with the pop (`while (add_count-- && q.pop(task))`), and whether the
// staged counter follows every pop, matters only when ONE staged queue holds more descriptions than the
// budget at the moment of a conversion — which needs workers that do not convert while the work arrives.
//
// usage: c01_burst <seed> <policy|default> <workers> <rounds> [--pika:... extra runtime options]
//
// One process = one runtime, `rounds` rounds.  A round:
//   1. W blocker tasks (hinted to worker 0..W-1, normal priority) start and spin WITHOUT yielding: every
//      worker is inside a task, nobody converts staged work;
//   2. the burst: the blockers themselves (tasks) and the main OS thread submit concurrently
//        hinted_normal   register_work, normal priority, all hinted to ONE worker t   (65..400: > 64, > 256)
//        hinted_high     register_work, high / boost / high_recursive, hinted to ONE worker (33..129: > 32, > 64)
//        hinted_low      register_work, low priority, hinted to one worker
//        hinted_bound    register_work, bound priority (shared-priority only: the bp queue)
//        execute         execute(thread_pool_scheduler{}, f)                           (100..150 per worker)
//        nohint          register_work without hint
//        sched_hint      start_detached(schedule(with_hint(sched, t)) | then(f)), hinted to ONE worker
//      sizes are seeded from lists around the batch sizes (10k+1, 32k+{0,1,2}, 64k+{0,1,2}); one round in
//      three sends > max_thread_count descriptions to one queue;
//   3. the staged counts (whole pool, worker t) are read (coverage: the scenario is only meaningful when one
//      queue held more than a batch), then the blockers are released.
// Monitors (independent of the Coq model), printed as `MON <round> burst kind=<what> ...`:
//   never_ran            a ledger entry is still 0 although the workers are idle: no body has been entered for
//                        10 s AND at least 15 s passed since the release (progress-based: a loaded machine
//                        that de-schedules the workers keeps making progress, however slowly);
//   entered_twice        a ledger entry counted more than once (checked again after a pause);
//   staged_count_stuck   every body ran but the pool still counts staged descriptions (new_tasks_count_ not
//                        following the pops: the runtime could never shut down) 10 s later;
//   blockers_not_started the W spinning tasks did not all start within 60 s on an empty runtime;
//   submission_threw     a submission call threw.
// Still making progress after 120 s => INCONCLUSIVE (exit 4), never a hit.  Hints are always in [0, W)
// (shared-priority indexes its queues with the raw hint: known finding of C10).
#include <pika/config.hpp>
#include <pika/execution.hpp>
#include <pika/init.hpp>
#include <pika/runtime/runtime.hpp>
#include <pika/thread.hpp>
#include <pika/threading_base/register_thread.hpp>
#include <pika/threading_base/thread_data.hpp>
#include <pika/threading_base/thread_helpers.hpp>
#include <pika/threading_base/thread_pool_base.hpp>

#include <atomic>
#include <chrono>
#include <cstdint>
#include <cstdio>
#include <cstdlib>
#include <cstring>
#include <exception>
#include <string>
#include <thread>
#include <unistd.h>
#include <vector>

#if !defined(PIKA_VERIF)
# error "harnesses must be compiled with -DPIKA_VERIF"
#endif

namespace ex = pika::execution;
namespace pex = pika::execution::experimental;
using namespace pika::threads::detail;

static std::uint64_t splitmix(std::uint64_t& s)
{
    std::uint64_t z = (s += 0x9e3779b97f4a7c15ull);
    z = (z ^ (z >> 30)) * 0xbf58476d1ce4e5b9ull;
    z = (z ^ (z >> 27)) * 0x94d049bb133111ebull;
    return z ^ (z >> 31);
}
struct Rng
{
    std::uint64_t s;
    explicit Rng(std::uint64_t seed)
      : s(seed * 0x2545F4914F6CDD1Dull + 77)
    {
    }
    std::uint64_t next() { return splitmix(s); }
    int below(int n) { return n <= 0 ? 0 : int(next() % std::uint64_t(n)); }
    template <std::size_t N>
    int pick(int const (&a)[N])
    {
        return a[below(int(N))];
    }
};

static double now_s()
{
    static auto const t0 = std::chrono::steady_clock::now();
    return std::chrono::duration<double>(std::chrono::steady_clock::now() - t0).count();
}

// ------------------------------------------------------------------ coverage hook (counters only)
// 122 = thread_queue::add_new converted one description (a = addfrom, b = receiver)
static std::atomic<long> g_conv{0}, g_conv_steal{0};
static void hookfn(int site, void const*, std::uint64_t a, std::uint64_t b)
{
    if (site == 122)
    {
        g_conv.fetch_add(1, std::memory_order_relaxed);
        if (a != b) g_conv_steal.fetch_add(1, std::memory_order_relaxed);
    }
}

// ------------------------------------------------------------------ ledger
constexpr int MAXT = 1 << 16;
enum Path
{
    P_HN,
    P_HH,
    P_HL,
    P_HB,
    P_EX,
    P_NH,
    P_SH,
    NPATH
};
static char const* const PATHS[NPATH] = {"hinted_normal", "hinted_high", "hinted_low", "hinted_bound", "execute", "nohint", "sched_hint"};
static std::atomic<int> g_ran[MAXT];
static std::atomic<std::int8_t> g_path[MAXT];
static std::atomic<std::int8_t> g_from_task[MAXT];
static std::atomic<int> g_next{0}, g_done{0}, g_twice{0}, g_threw{0};
static int g_round = 0;

static void task_body(int id)
{
    if (g_ran[id].fetch_add(1, std::memory_order_relaxed) != 0) g_twice.fetch_add(1);
    g_done.fetch_add(1, std::memory_order_release);
}

static void submit(int path, int hint, int k, bool from_task)
{
    int id = g_next.fetch_add(1);
    if (id >= MAXT) return;
    g_path[id].store(std::int8_t(path));
    g_from_task[id].store(from_task ? 1 : 0);
    try
    {
        auto reg = [&](ex::thread_priority prio, ex::thread_schedule_hint h) {
            thread_init_data data(make_thread_function_nullary([id] { task_body(id); }), "verif-burst", prio, h, ex::thread_stacksize::small_);
            register_work(data);
        };
        switch (path)
        {
        case P_HN: reg(ex::thread_priority::normal, ex::thread_schedule_hint(std::int16_t(hint))); break;
        case P_HH:
        {
            ex::thread_priority p = (k % 7 == 3) ? ex::thread_priority::boost :
                                                   ((k % 7 == 5) ? ex::thread_priority::high_recursive : ex::thread_priority::high);
            reg(p, ex::thread_schedule_hint(std::int16_t(hint)));
            break;
        }
        case P_HL: reg(ex::thread_priority::low, ex::thread_schedule_hint(std::int16_t(hint))); break;
        case P_HB: reg(ex::thread_priority::bound, ex::thread_schedule_hint(std::int16_t(hint))); break;
        case P_EX: pex::execute(pex::thread_pool_scheduler{}, [id] { task_body(id); }); break;
        case P_NH: reg(ex::thread_priority::normal, ex::thread_schedule_hint()); break;
        default:
        {
            auto sched = pex::with_hint(pex::thread_pool_scheduler{}, ex::thread_schedule_hint(std::int16_t(hint)));
            pex::start_detached(pex::schedule(sched) | pex::then([id] { task_body(id); }));
            break;
        }
        }
    }
    catch (std::exception const& e)
    {
        if (g_threw.fetch_add(1) == 0)
            std::printf("MON %d burst kind=submission_threw path=%s id=%d: %s\n", g_round, PATHS[path], id, e.what());
        g_ran[id].fetch_add(1000);    // accounted for: reported above
        g_done.fetch_add(1);
    }
}

// what one submitter has to do in a round
struct Share
{
    int n[NPATH];
    int hint[NPATH];
};

static void do_share(Share const& s, bool from_task, std::uint64_t seed)
{
    // interleave the paths (seeded) so that the queues fill concurrently
    Rng g(seed);
    int left[NPATH];
    int total = 0;
    for (int p = 0; p < NPATH; ++p)
    {
        left[p] = s.n[p];
        total += s.n[p];
    }
    int k = 0;
    while (total > 0)
    {
        int r = g.below(total);
        int p = 0;
        while (r >= left[p])
        {
            r -= left[p];
            ++p;
        }
        // runs of up to 40 of the same path
        int run = 1 + g.below(40);
        if (run > left[p]) run = left[p];
        for (int i = 0; i < run; ++i) submit(p, s.hint[p], k++, from_task);
        left[p] -= run;
        total -= run;
    }
}

// ------------------------------------------------------------------ blockers
constexpr int MAXW = 64;
struct alignas(64) BState
{
    std::atomic<int> started{0}, submitted{0}, finished{0};
    Share share{};
    std::uint64_t seed = 0;
};
static BState g_b[MAXW];
static std::atomic<int> g_go{0}, g_release{0};

static inline void cpu_pause()
{
#if defined(__x86_64__) || defined(__i386__)
    __builtin_ia32_pause();
#endif
}

static void blocker(int i)
{
    BState& b = g_b[i];
    b.started.store(1, std::memory_order_release);
    while (!g_go.load(std::memory_order_acquire)) cpu_pause();    // never yields: the worker stays inside this task
    do_share(b.share, true, b.seed);
    b.submitted.store(1, std::memory_order_release);
    while (!g_release.load(std::memory_order_acquire)) cpu_pause();
    b.finished.store(1, std::memory_order_release);
}

static void die_after(int rc)
{
    std::fflush(stdout);
    _exit(rc);
}

static std::string missing_by_path(int lo, int hi, int& missing, int& first)
{
    int bypath[NPATH][2] = {};
    missing = 0;
    first = -1;
    for (int id = lo; id < hi; ++id)
        if (g_ran[id].load() == 0)
        {
            if (first < 0) first = id;
            ++missing;
            ++bypath[g_path[id].load()][g_from_task[id].load()];
        }
    std::string s;
    for (int p = 0; p < NPATH; ++p)
        for (int f = 0; f < 2; ++f)
            if (bypath[p][f]) s += std::string(s.empty() ? "" : ",") + PATHS[p] + (f ? "(from_task)=" : "(from_os_thread)=") + std::to_string(bypath[p][f]);
    return s;
}

int main(int argc, char** argv)
{
    std::uint64_t seed = argc > 1 ? std::strtoull(argv[1], nullptr, 10) : 1;
    std::string policy = argc > 2 ? argv[2] : "default";
    int workers = argc > 3 ? std::atoi(argv[3]) : 2;
    int rounds = argc > 4 ? std::atoi(argv[4]) : 2;
    setvbuf(stdout, nullptr, _IOLBF, 0);
    if (workers < 1) workers = 1;
    if (workers > MAXW) workers = MAXW;
    int const W = workers;
    Rng g(seed * 1000003ull + std::hash<std::string>{}(policy) % 997 + std::uint64_t(workers) * 31);

    std::string a1 = "--pika:threads=" + std::to_string(workers);
    std::string a2 = "--pika:scheduler=" + policy;
    std::vector<char*> av{argv[0], a1.data()};
    if (policy != "default") av.push_back(a2.data());
    std::string extra;
    for (int i = 5; i < argc; ++i)
    {
        av.push_back(argv[i]);
        extra += std::string(extra.empty() ? "" : ",") + argv[i];
    }
    int const ac = int(av.size());
    av.push_back(nullptr);
    pika::verif::hook.store(&hookfn, std::memory_order_release);
    pika::start(ac, av.data());
    std::printf("INFO 0 start mode=burst policy=%s workers=%d seed=%llu rounds=%d extra=%s\n", policy.c_str(), workers,
        (unsigned long long) seed, rounds, extra.empty() ? "-" : extra.c_str());

    auto* pool = &pika::resource::get_thread_pool("default");
    int rc = 0, monhits = 0;
    bool const mc = policy == "shared-priority";

    static int const N_NORMAL[] = {65, 66, 97, 128, 129, 130, 200, 257, 258, 300, 400, 11, 21, 101};
    static int const N_HIGH[] = {33, 34, 64, 65, 66, 97, 100, 129, 11, 31};
    static int const N_LOW[] = {0, 11, 65, 70, 130};
    static int const N_BOUND[] = {0, 33, 65, 66, 80};

    for (int round = 1; round <= rounds && rc == 0; ++round)
    {
        g_round = round;
        int const lo = g_next.load();
        g_go.store(0);
        g_release.store(0);
        // ---- what is submitted in this round, split between the blockers (tasks) and the main OS thread
        int tot[NPATH], hint[NPATH];
        tot[P_HN] = g.pick(N_NORMAL);
        if (round % 3 == 0) tot[P_HN] = 1001 + g.below(300);    // more than max_thread_count for one queue
        tot[P_HH] = g.pick(N_HIGH);
        tot[P_HL] = g.pick(N_LOW);
        tot[P_HB] = mc ? g.pick(N_BOUND) : 0;
        tot[P_EX] = (100 + g.below(51)) * W;
        tot[P_NH] = (20 + g.below(60)) * W;
        tot[P_SH] = g.below(3) == 0 ? 0 : 65 + g.below(80);
        for (int p = 0; p < NPATH; ++p) hint[p] = g.below(W);
        int const split = g.below(4);    // 0: all from the OS thread, 1: all from tasks, 2/3: both
        Share os{};
        for (int p = 0; p < NPATH; ++p)
        {
            os.hint[p] = hint[p];
            os.n[p] = 0;
        }
        for (int i = 0; i < W; ++i)
        {
            g_b[i].started.store(0);
            g_b[i].submitted.store(0);
            g_b[i].finished.store(0);
            g_b[i].seed = g.next();
            for (int p = 0; p < NPATH; ++p)
            {
                g_b[i].share.n[p] = 0;
                g_b[i].share.hint[p] = hint[p];
            }
        }
        int total = 0;
        for (int p = 0; p < NPATH; ++p)
        {
            total += tot[p];
            int from_tasks = split == 0 ? 0 : (split == 1 ? tot[p] : tot[p] / 2);
            os.n[p] = tot[p] - from_tasks;
            for (int i = 0; i < W; ++i) g_b[i].share.n[p] = from_tasks / W + (i < from_tasks % W ? 1 : 0);
        }
        if (lo + total + W >= MAXT) break;

        // ---- 1. occupy every worker
        for (int i = 0; i < W; ++i)
        {
            thread_init_data data(make_thread_function_nullary([i] { blocker(i); }), "verif-blocker", ex::thread_priority::normal,
                ex::thread_schedule_hint(std::int16_t(i)), ex::thread_stacksize::small_);
            register_work(data);
        }
        {
            double t0 = now_s();
            for (;;)
            {
                int st = 0;
                for (int i = 0; i < W; ++i) st += g_b[i].started.load(std::memory_order_acquire);
                if (st == W) break;
                std::this_thread::sleep_for(std::chrono::microseconds(100));
                if (now_s() - t0 > 60.0)
                {
                    std::printf("MON %d burst kind=blockers_not_started %d of %d non-yielding tasks (normal priority, one hinted to each worker) "
                                "started within 60 s on an otherwise empty runtime; staged=%lld pending=%lld\n",
                        round, st, W, (long long) pool->get_thread_count_staged(std::size_t(-1), false),
                        (long long) pool->get_thread_count_pending(std::size_t(-1), false));
                    std::printf("SUMMARY mode=burst policy=%s workers=%d rounds=%d tasks=%d monhits=1 rc=3\n", policy.c_str(), workers, round,
                        g_next.load());
                    g_go.store(1);
                    g_release.store(1);
                    die_after(3);
                }
            }
        }
        long const conv0 = g_conv.load(), steal0 = g_conv_steal.load();

        // ---- 2. the burst: tasks and the OS thread submit concurrently
        std::uint64_t const os_seed = g.next();
        g_go.store(1, std::memory_order_release);
        do_share(os, false, os_seed);
        {
            double t0 = now_s();
            for (;;)
            {
                int sb = 0;
                for (int i = 0; i < W; ++i) sb += g_b[i].submitted.load(std::memory_order_acquire);
                if (sb == W) break;
                std::this_thread::sleep_for(std::chrono::microseconds(100));
                if (now_s() - t0 > 120.0)
                {
                    std::printf("INCONCLUSIVE %d kind=burst the submitting tasks did not finish submitting within 120 s (%d of %d)\n", round, sb, W);
                    std::printf("SUMMARY mode=burst policy=%s workers=%d rounds=%d tasks=%d monhits=0 rc=4\n", policy.c_str(), workers, round,
                        g_next.load());
                    g_release.store(1);
                    die_after(4);
                }
            }
        }
        int const hi = g_next.load();
        // ---- 3. coverage: how much is staged, how much of it in the queues of worker hint[P_HN]
        long long const staged_all = (long long) pool->get_thread_count_staged(std::size_t(-1), false);
        long long const staged_t = (long long) pool->get_thread_count_staged(std::size_t(hint[P_HN]), false);
        long long const staged_h = (long long) pool->get_thread_count(thread_schedule_state::staged, ex::thread_priority::high,
            std::size_t(hint[P_HH]), false);
        int const ran_before_release = g_done.load() - 0;
        long const conv_before_release = g_conv.load() - conv0;
        std::printf("ROUND %d tasks=%d split=%d hinted_normal=%d@%d hinted_high=%d@%d hinted_low=%d@%d hinted_bound=%d@%d execute=%d nohint=%d "
                    "sched_hint=%d@%d staged_all=%lld staged_worker_t=%lld staged_high_worker_h=%lld converted_before_release=%ld\n",
            round, hi - lo, split, tot[P_HN], hint[P_HN], tot[P_HH], hint[P_HH], tot[P_HL], hint[P_HL], tot[P_HB], hint[P_HB], tot[P_EX], tot[P_NH],
            tot[P_SH], hint[P_SH], staged_all, staged_t, staged_h, conv_before_release);
        (void) ran_before_release;

        // ---- 4. release the workers; every body must run
        double const t_rel = now_s();
        g_release.store(1, std::memory_order_release);
        int last_done = g_done.load();
        double t_prog = now_s();
        for (;;)
        {
            int d = g_done.load(std::memory_order_acquire);
            if (d >= hi) break;
            if (d != last_done)
            {
                last_done = d;
                t_prog = now_s();
            }
            std::this_thread::sleep_for(std::chrono::microseconds(200));
            double const t = now_s();
            if (t - t_prog >= 10.0 && t - t_rel >= 15.0)
            {
                int missing = 0, first = -1;
                std::string paths = missing_by_path(lo, hi, missing, first);
                std::printf("MON %d burst kind=never_ran %d of %d tasks submitted in a burst while all %d workers were inside non-yielding tasks have "
                            "not run: no body was entered for %.1f s, %.1f s after the workers were released; missing by submission path: %s; "
                            "first missing id=%d; burst: hinted_normal=%d to worker %d, hinted_high=%d to worker %d, hinted_low=%d, hinted_bound=%d, "
                            "execute=%d, nohint=%d, sched_hint=%d; staged before release: pool=%lld worker %d=%lld; pool counts now staged=%lld "
                            "pending=%lld active=%lld\n",
                    round, missing, hi - lo, W, t - t_prog, t - t_rel, paths.c_str(), first, tot[P_HN], hint[P_HN], tot[P_HH], hint[P_HH], tot[P_HL],
                    tot[P_HB], tot[P_EX], tot[P_NH], tot[P_SH], staged_all, hint[P_HN], staged_t,
                    (long long) pool->get_thread_count_staged(std::size_t(-1), false),
                    (long long) pool->get_thread_count_pending(std::size_t(-1), false),
                    (long long) pool->get_thread_count_active(std::size_t(-1), false));
                ++monhits;
                rc = 3;
                break;
            }
            if (t - t_rel > 120.0)
            {
                std::printf("INCONCLUSIVE %d kind=burst still making progress %.0f s after the release: done=%d expected=%d\n", round, t - t_rel, d, hi);
                rc = 4;
                break;
            }
        }
        double const drain_ms = (now_s() - t_rel) * 1e3;
        // ---- 5. the counters follow: nothing staged, nothing pending once every body has run
        long long st_left = 0, pe_left = 0;
        if (rc == 0)
        {
            double t0 = now_s();
            for (;;)
            {
                bool fin = true;
                for (int i = 0; i < W; ++i)
                    if (!g_b[i].finished.load(std::memory_order_acquire)) fin = false;
                st_left = (long long) pool->get_thread_count_staged(std::size_t(-1), false);
                pe_left = (long long) pool->get_thread_count_pending(std::size_t(-1), false);
                if (fin && st_left == 0 && pe_left == 0) break;
                std::this_thread::sleep_for(std::chrono::microseconds(300));
                if (now_s() - t0 > 10.0)
                {
                    std::printf("MON %d burst kind=staged_count_stuck every one of the %d bodies of the burst has run, but 10 s later the pool still "
                                "counts staged=%lld pending=%lld (blockers finished=%d): the staged counter did not follow the conversions; the "
                                "runtime cannot become idle / shut down\n",
                        round, hi - lo, st_left, pe_left, int(fin));
                    ++monhits;
                    rc = 3;
                    break;
                }
            }
        }
        std::printf("CASE %d kind=burst policy=%s workers=%d tasks=%d done=%d one_queue_normal=%d one_queue_high=%d staged_all=%lld "
                    "staged_worker_t=%lld staged_high_worker_h=%lld converted=%ld converted_by_other_queue=%ld converted_before_release=%ld split=%d "
                    "drain_ms=%.1f\n",
            round, policy.c_str(), workers, hi - lo, g_done.load() - (lo - 0), tot[P_HN], tot[P_HH], staged_all, staged_t, staged_h,
            g_conv.load() - conv0, g_conv_steal.load() - steal0, conv_before_release, split, drain_ms);
    }
    // a body entered twice may come late
    if (rc == 0) std::this_thread::sleep_for(std::chrono::milliseconds(5));
    if (g_twice.load())
    {
        int ex_id = -1;
        for (int id = 0; id < g_next.load(); ++id)
            if (g_ran[id].load() > 1 && g_ran[id].load() < 1000)
            {
                ex_id = id;
                break;
            }
        std::printf("MON %d burst kind=entered_twice %d ledger entries were counted more than once (first: id=%d path=%s)\n", g_round, g_twice.load(),
            ex_id, ex_id >= 0 ? PATHS[g_path[ex_id].load()] : "?");
        ++monhits;
        rc = rc ? rc : 3;
    }
    if (g_threw.load())
    {
        ++monhits;    // line printed at the first occurrence
        rc = rc ? rc : 3;
    }
    std::printf("SUMMARY mode=burst policy=%s workers=%d rounds=%d tasks=%d monhits=%d rc=%d\n", policy.c_str(), workers, g_round, g_next.load(),
        monhits, rc);
    std::fflush(stdout);
    if (rc != 0) _exit(rc);    // the runtime may be unable to drain
    // a hang of finalize/stop is a hit of the plug-in's time-out (status 124)
    pika::finalize();
    pika::stop();
    return 0;
}
