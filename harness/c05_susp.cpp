// harness/c05_susp.cpp — C05 "while the runtime is suspended no task body executes, and all queued work
// runs after resume()"; init_runtime.hpp, pika::suspend: "Work can be scheduled on the runtime even when
// it is suspended, but no progress will be made."
//
// Submissions WHILE SUSPENDED and CONCURRENTLY WITH suspend(), through every submission path, from
// plain OS threads:
//   0 execute            pika::execution::experimental::execute(thread_pool_scheduler{}, f)
//   1 schedule_then      start_detached(schedule(thread_pool_scheduler{}) | then(f))
//   2 pika_thread        pika::thread(pool, f).detach()          (created at once: thread object, pending queue)
//   3 register_work      register_work(thread_init_data)         (staged description, normal priority)
//   4 register_thread    register_thread(thread_init_data)       (created at once, returns the id)
//   5 execute_high       execute(with_priority(sched, high), f)  (high-priority queue)
//   6 schedule_hint      start_detached(schedule(with_hint(sched, worker k)) | then(f)), k round robin over all
//                        workers (every sleeping worker's own queue receives work)
// usage: c05_susp <id> <seed> <threads> <scheduler|default> <rounds>
// One process = one runtime; rounds alternate between
//   quiet    suspend(); the main thread and a second OS thread submit through all paths; 2-4 ms pause; resume(); wait()
//   racing   a submitter OS thread submits through all paths with 0-100 us gaps while the main thread calls suspend()
//            (workers are going to sleep: seeded delays at hooks 1901/1902/1908 widen the pre_sleep window); the
//            submitter keeps going until it has made >= 12 submissions after suspend() returned; pause; resume(); wait()
// Monitors (on the implementation, independent of the model), printed as `MON <id> suspended:<what> ...`:
//   suspended:submission_rejected     an exception escaped a submission call (path, phase, what())
//   suspended:ran_while_suspended     a body ran between the return of suspend() and the call of resume()
//   suspended:worker_not_sleeping     a worker of the default pool is not `sleeping` right after suspend() returned
//   suspended:not_run_after_resume    resume(); wait() returned and an accepted submission has not run
//   suspended:ran_twice               a ledger entry ran twice
//   suspended:hang                    an API call (suspend / resume / wait / finalize / stop) did not return within 30 s
// a dying process (std::terminate in start_detached's error channel, abort, SIGSEGV) is reported by the plug-in as
// suspended:crash with the last announced step.
#include <pika/config.hpp>
#include <pika/execution.hpp>
#include <pika/init.hpp>
#include <pika/runtime.hpp>
#include <pika/thread.hpp>
#include <pika/threading_base/register_thread.hpp>
#include <pika/threading_base/scheduler_base.hpp>

#include <atomic>
#include <chrono>
#include <cstdint>
#include <cstdio>
#include <cstdlib>
#include <cstring>
#include <exception>
#include <string>
#include <thread>
#include <unistd.h>
#include <vector>

#if !defined(PIKA_VERIF)
# error "compile with -DPIKA_VERIF"
#endif

namespace ex = pika::execution::experimental;
namespace pe = pika::execution;
using namespace pika::threads::detail;

static std::string g_id;
static std::atomic<int> g_mon{0};
static void mon(char const* kind, std::string const& detail)
{
    g_mon++;
    std::printf("MON %s %s %s\n", g_id.c_str(), kind, detail.c_str());
    std::fflush(stdout);
}

static std::uint64_t splitmix(std::uint64_t& s)
{
    std::uint64_t z = (s += 0x9e3779b97f4a7c15ull);
    z = (z ^ (z >> 30)) * 0xbf58476d1ce4e5b9ull;
    z = (z ^ (z >> 27)) * 0x94d049bb133111ebull;
    return z ^ (z >> 31);
}
static std::uint64_t g_seed = 1;
static thread_local std::uint64_t t_rng = 0;
static std::uint64_t rnd()
{
    if (t_rng == 0) t_rng = g_seed ^ (std::hash<std::thread::id>()(std::this_thread::get_id()) | 1);
    return splitmix(t_rng);
}

// ---------------------------------------------------------------- ledger
constexpr int MAXT = 1 << 15;
constexpr int NPATH = 7;
static char const* const PATHS[NPATH] = {"execute", "schedule_then", "pika_thread", "register_work", "register_thread", "execute_high",
    "schedule_hint"};
struct Rec
{
    std::atomic<int> ran{0};
    std::atomic<int> accepted{0};    // 1 = the submission call returned normally
    int path = 0;
    int while_suspended = 0;    // submitted after suspend() returned and before resume() was called
    int round = 0;
};
static Rec* g_rec = new Rec[MAXT];
static std::atomic<int> g_next{0};
static std::atomic<int> g_suspended{0};
static std::atomic<int> g_ran_susp{0}, g_twice{0}, g_rejected{0};
static std::atomic<long> g_bodies{0};
static int g_workers = 1;
static int g_round = 0;

static void body(int id)
{
    if (g_suspended.load(std::memory_order_acquire))
    {
        if (g_ran_susp.fetch_add(1) == 0)
            mon("suspended:ran_while_suspended",
                "task=" + std::to_string(id) + " path=" + PATHS[g_rec[id].path] + " round=" + std::to_string(g_rec[id].round) +
                    " submitted_while_suspended=" + std::to_string(g_rec[id].while_suspended));
    }
    if (g_rec[id].ran.fetch_add(1) != 0) g_twice.fetch_add(1);
    g_bodies.fetch_add(1);
    if ((id & 7) == 3) pika::this_thread::yield();
    if (g_suspended.load(std::memory_order_acquire) && g_ran_susp.fetch_add(1) == 0)
        mon("suspended:ran_while_suspended", "task=" + std::to_string(id) + " path=" + PATHS[g_rec[id].path] + " (after a yield)");
}

// one submission through `path`; returns false when the call threw
static bool submit(int path, char const* phase, int k)
{
    int id = g_next.fetch_add(1);
    if (id >= MAXT) return true;
    Rec& r = g_rec[id];
    r.path = path;
    r.round = g_round;
    r.while_suspended = g_suspended.load(std::memory_order_acquire);
    try
    {
        switch (path)
        {
        case 0: ex::execute(ex::thread_pool_scheduler{}, [id] { body(id); }); break;
        case 1: ex::start_detached(ex::schedule(ex::thread_pool_scheduler{}) | ex::then([id] { body(id); })); break;
        case 2:
        {
            pika::thread t(&pika::resource::get_thread_pool(0), [id] { body(id); });
            t.detach();
            break;
        }
        case 3:
        {
            thread_init_data data(make_thread_function_nullary([id] { body(id); }), "verif-susp", pe::thread_priority::normal,
                pe::thread_schedule_hint(), pe::thread_stacksize::small_);
            register_work(data);
            break;
        }
        case 4:
        {
            thread_init_data data(make_thread_function_nullary([id] { body(id); }), "verif-susp", pe::thread_priority::normal,
                pe::thread_schedule_hint(), pe::thread_stacksize::small_, thread_schedule_state::pending, true);
            thread_id_ref_type tid = register_thread(data);
            (void) tid;
            break;
        }
        case 5: ex::execute(ex::with_priority(ex::thread_pool_scheduler{}, pe::thread_priority::high), [id] { body(id); }); break;
        default:
        {
            auto sched = ex::with_hint(ex::thread_pool_scheduler{}, pe::thread_schedule_hint(std::int16_t(k % g_workers)));
            ex::start_detached(ex::schedule(sched) | ex::then([id] { body(id); }));
            break;
        }
        }
        r.accepted.store(1, std::memory_order_release);
        return true;
    }
    catch (std::exception const& e)
    {
        if (g_rejected.fetch_add(1) == 0)
            mon("suspended:submission_rejected",
                std::string("path=") + PATHS[path] + " phase=" + phase + " runtime_suspended=" + std::to_string(r.while_suspended) +
                    " round=" + std::to_string(g_round) + " what=" + std::string(e.what()).substr(0, 200));
    }
    catch (...)
    {
        if (g_rejected.fetch_add(1) == 0)
            mon("suspended:submission_rejected", std::string("path=") + PATHS[path] + " phase=" + phase + " (non-std exception)");
    }
    return false;
}

// ---------------------------------------------------------------- hooks: widen the going-to-sleep window
static void hookfn(int site, void const*, std::uint64_t, std::uint64_t)
{
    if (site != 1901 && site != 1902 && site != 1908) return;
    std::uint64_t r = rnd();
    unsigned k = unsigned(r & 7);
    if (k < 3) return;
    if (k < 5)
    {
        auto t0 = std::chrono::steady_clock::now();
        auto d = std::chrono::microseconds(5 + (r >> 16) % 80);
        while (std::chrono::steady_clock::now() - t0 < d) {}
    }
    else if (k < 6) sched_yield();
    else std::this_thread::sleep_for(std::chrono::microseconds(30 + (r >> 16) % 250));
}

// ---------------------------------------------------------------- watchdog
static std::atomic<long> g_deadline_ms{0};
static char const* volatile g_step = "start";
static long now_ms()
{
    return std::chrono::duration_cast<std::chrono::milliseconds>(std::chrono::steady_clock::now().time_since_epoch()).count();
}
static void watchdog()
{
    for (;;)
    {
        std::this_thread::sleep_for(std::chrono::milliseconds(100));
        long d = g_deadline_ms.load();
        if (d && now_ms() > d)
        {
            std::printf("MON %s suspended:hang step=%s round=%d submitted=%d bodies=%ld\n", g_id.c_str(), g_step, g_round, g_next.load(),
                g_bodies.load());
            std::fflush(stdout);
            _exit(3);
        }
    }
}
static void step(char const* s)
{
    g_step = s;
    g_deadline_ms = now_ms() + 30000;
    std::printf("STEP %s %d %s\n", g_id.c_str(), g_round, s);
    std::fflush(stdout);
}

static std::string worker_states(bool& all_sleeping)
{
    std::string s;
    auto& pool = pika::resource::get_thread_pool(0);
    auto* sched = pool.get_scheduler();
    std::size_t n = pool.get_os_thread_count();
    all_sleeping = true;
    for (std::size_t i = 0; i < n; ++i)
    {
        auto st = sched->get_state(i).load();
        if (st != pika::runtime_state::sleeping) all_sleeping = false;
        s += std::to_string(int(st)) + (i + 1 < n ? "," : "");
    }
    return s;
}

// after resume(); wait(): every accepted submission up to `upto` has run exactly once
static void ledger_check(int upto)
{
    int missing = 0, first = -1;
    int bypath[NPATH] = {0, 0, 0, 0, 0, 0, 0};
    int miss_susp = 0;
    for (int i = 0; i < upto; ++i)
    {
        if (!g_rec[i].accepted.load(std::memory_order_acquire)) continue;
        if (g_rec[i].ran.load(std::memory_order_acquire) == 0)
        {
            if (first < 0) first = i;
            ++missing;
            ++bypath[g_rec[i].path];
            miss_susp += g_rec[i].while_suspended;
        }
    }
    if (missing)
    {
        std::string p;
        for (int k = 0; k < NPATH; ++k)
            if (bypath[k]) p += std::string(p.empty() ? "" : ",") + PATHS[k] + "=" + std::to_string(bypath[k]);
        mon("suspended:not_run_after_resume",
            "round=" + std::to_string(g_round) + " missing=" + std::to_string(missing) + " of=" + std::to_string(upto) +
                " submitted_while_suspended=" + std::to_string(miss_susp) + " by_path=" + p + " first=" + std::to_string(first));
    }
    if (g_twice.load()) mon("suspended:ran_twice", "entries=" + std::to_string(g_twice.load()));
}

int main(int argc, char** argv)
{
    if (argc < 6) return 2;
    g_id = argv[1];
    g_seed = std::strtoull(argv[2], nullptr, 10) * 2654435761ull + 4242;
    int threads = std::atoi(argv[3]);
    std::string sched = argv[4];
    int rounds = std::atoi(argv[5]);
    g_workers = threads < 1 ? 1 : threads;
    setvbuf(stdout, nullptr, _IOLBF, 0);
    pika::verif::hook.store(&hookfn, std::memory_order_release);
    std::thread(watchdog).detach();

    std::string a1 = "--pika:threads=" + std::to_string(g_workers), a2 = "--pika:scheduler=" + sched;
    char const* av[] = {"c05_susp", a1.c_str(), a2.c_str(), nullptr};
    step("start");
    pika::start(sched == "default" ? 2 : 3, av);

    long n_quiet = 0, n_racing_after = 0, n_racing_before = 0, ran_before_resume_total = 0;
    for (g_round = 0; g_round < rounds; ++g_round)
    {
        bool racing = (g_round & 1) != 0;
        if (g_mon.load() >= 3) break;
        if (!racing)
        {
            step("suspend");
            pika::suspend();
            g_suspended.store(1, std::memory_order_release);
            bool allsl;
            std::string ws = worker_states(allsl);
            if (!allsl) mon("suspended:worker_not_sleeping", "round=" + std::to_string(g_round) + " states=" + ws);
            step("submit_while_suspended");
            std::uint64_t sd = rnd();
            std::thread second([sd] {
                t_rng = sd | 1;
                for (int k = 0; k < 2 * NPATH + 3; ++k)
                {
                    submit(int((unsigned(k) + unsigned(sd)) % NPATH), "quiet:second_os_thread", k);
                    if (rnd() % 3 == 0) std::this_thread::sleep_for(std::chrono::microseconds(rnd() % 120));
                }
            });
            for (int k = 0; k < 2 * NPATH + 3; ++k) submit(k % NPATH, "quiet:main_thread", k);
            second.join();
            n_quiet += 2 * (2 * NPATH + 3);
        }
        else
        {
            step("suspend_racing_submitter");
            std::atomic<int> after{0}, before{0}, stop{0};
            std::uint64_t sd = rnd();
            std::thread sub([&, sd] {
                t_rng = sd | 1;
                long t0 = now_ms();
                // at most 300 submissions while suspend() is still on its way (it waits for an idle runtime: an endless
                // stream would only keep it from returning), then wait for it to return and go on while suspended
                for (int k = 0; !stop.load() && now_ms() - t0 < 25000; ++k)
                {
                    bool susp = g_suspended.load(std::memory_order_acquire) != 0;
                    if (!susp && before.load() >= 300)
                    {
                        std::this_thread::sleep_for(std::chrono::microseconds(100));
                        continue;
                    }
                    submit(int((unsigned(k) + unsigned(sd >> 8)) % NPATH), susp ? "racing:after_suspend_returned" : "racing:during_suspend", k);
                    if (susp)
                    {
                        if (after.fetch_add(1) + 1 >= 12) break;
                    }
                    else before.fetch_add(1);
                    unsigned g = unsigned(rnd() % 8);
                    if (g < 3) std::this_thread::sleep_for(std::chrono::microseconds(rnd() % 100));
                    else if (g < 5)
                    {
                        auto t1 = std::chrono::steady_clock::now();
                        auto d = std::chrono::microseconds(rnd() % 40);
                        while (std::chrono::steady_clock::now() - t1 < d) {}
                    }
                }
            });
            std::this_thread::sleep_for(std::chrono::microseconds(rnd() % 300));
            pika::suspend();
            g_suspended.store(1, std::memory_order_release);
            bool allsl;
            std::string ws = worker_states(allsl);
            if (!allsl) mon("suspended:worker_not_sleeping", "round=" + std::to_string(g_round) + " states=" + ws + " (racing submitter)");
            step("submitter_finishes_while_suspended");
            sub.join();
            n_racing_after += after.load();
            n_racing_before += before.load();
        }
        // nothing may run now
        step("pause_while_suspended");
        std::this_thread::sleep_for(std::chrono::microseconds(2000 + rnd() % 2000));
        int upto = g_next.load();
        if (upto > MAXT) upto = MAXT;
        int ran_susp = 0;
        for (int i = 0; i < upto; ++i)
            if (g_rec[i].round == g_round && g_rec[i].while_suspended && g_rec[i].ran.load()) ++ran_susp;
        if (ran_susp && g_ran_susp.load() == 0)
            mon("suspended:ran_while_suspended", "round=" + std::to_string(g_round) + " " + std::to_string(ran_susp) +
                    " tasks submitted while the runtime was suspended have run before resume()");
        ran_before_resume_total += ran_susp;
        g_suspended.store(0, std::memory_order_release);
        step("resume");
        pika::resume();
        step("wait");
        pika::wait();
        ledger_check(upto);
    }
    step("finalize");
    pika::finalize();
    step("stop");
    pika::stop();
    g_deadline_ms = 0;
    std::printf("END %s mon=%d rounds=%d threads=%d scheduler=%s submitted=%d bodies=%ld quiet_while_suspended=%ld racing_during_suspend=%ld "
                "racing_after_suspend_returned=%ld\n",
        g_id.c_str(), g_mon.load(), rounds, g_workers, sched.c_str(), g_next.load(), g_bodies.load(), n_quiet, n_racing_before,
        n_racing_after);
    std::fflush(stdout);
    _exit(0);
}
