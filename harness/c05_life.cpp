// harness/c05_life.cpp — C05: one process = one generated history of
// start / submit / wait / suspend / resume / finalize / stop calls on the REAL runtime, with generated
// task programs (fan-out trees, yields, short sleeps), external submitter threads, several restarts
// with different thread counts / queuing policies, seeded perturbation at the activity-count hooks.
//   usage: c05_life <id> <seed> "<op>;<op>;..."
//   ops:  S<threads>:<queuing>:<res>:<prog>  start (entry function runs <prog>, returns <res>)
//         T<prog>            submit one root task from the main (non-pika) thread
//         X<n>:<prog>        a plain OS thread submits n root tasks concurrently with the following ops
//         W / w              pika::wait() from the main thread / from a pika task
//         U R F P            suspend resume finalize stop from the main thread
//         tU tR tP f         suspend resume stop finalize called from a pika task
//         B                  stop() on a helper thread, observed not to return (finalize not yet called)
//   prog: w = body marker, y = yield, z = short sleep, ( prog ) = spawn a child running prog
// prints: RESP lines per op, "OUT API <id> resps=..", "OUT INC <id>.<k> ...", "MON <id> <kind> <detail>".
#include <pika/config.hpp>
#include <pika/execution.hpp>
#include <pika/init.hpp>
#include <pika/runtime.hpp>
#include <pika/thread.hpp>
#include <pika/threading_base/scheduler_base.hpp>

#include <atomic>
#include <chrono>
#include <cstdint>
#include <cstdio>
#include <cstdlib>
#include <cstring>
#include <functional>
#include <memory>
#include <string>
#include <thread>
#include <unistd.h>
#include <vector>

#if !defined(PIKA_VERIF)
#error "compile with -DPIKA_VERIF"
#endif

namespace ex = pika::execution::experimental;

// ---------------------------------------------------------------- programs
struct Prog;
struct Act
{
    char kind;
    std::shared_ptr<Prog> child;
};
struct Prog
{
    std::vector<Act> acts;
};
static std::shared_ptr<Prog> parse(char const*& p)
{
    auto r = std::make_shared<Prog>();
    while (*p && *p != ')')
    {
        if (*p == '(')
        {
            ++p;
            auto c = parse(p);
            if (*p == ')') ++p;
            r->acts.push_back({'(', c});
        }
        else
        {
            r->acts.push_back({*p, nullptr});
            ++p;
        }
    }
    return r;
}
static std::shared_ptr<Prog> parse_prog(std::string const& s)
{
    char const* p = s.c_str();
    return parse(p);
}

// ---------------------------------------------------------------- ledger
static constexpr int MAXREC = 200000;
struct Rec
{
    std::atomic<int> registered{0}, finished{0};
    int root = 0;
    std::atomic<std::uint64_t> submit_seq{0};    // roots only: sequence number when the submission completed
};
static Rec* g_rec = new Rec[MAXREC];
static std::atomic<int> g_nrec{0};
static std::atomic<std::uint64_t> g_seq{1};
static std::atomic<long> g_bodies{0};
static std::atomic<int> g_suspended{0};
static std::string g_id;
static std::atomic<int> g_mon{0};

static void mon(char const* kind, std::string const& detail)
{
    g_mon++;
    std::printf("MON %s %s %s\n", g_id.c_str(), kind, detail.c_str());
    std::fflush(stdout);
}

static int new_rec(int root)
{
    int i = g_nrec.fetch_add(1);
    if (i >= MAXREC)
    {
        std::printf("MON %s harness too_many_tasks\n", g_id.c_str());
        std::fflush(stdout);
        _exit(4);
    }
    g_rec[i].root = root < 0 ? i : root;
    g_rec[i].registered.store(1, std::memory_order_release);
    return i;
}

// every registered task whose root was submitted before `before_seq` must be finished (except `self`)
static void ledger_check(char const* what, std::uint64_t before_seq, int self, int op)
{
    int n = g_nrec.load(std::memory_order_acquire);
    int bad = 0, first = -1;
    for (int i = 0; i < n; ++i)
    {
        if (i == self) continue;
        if (!g_rec[i].registered.load(std::memory_order_acquire)) continue;
        std::uint64_t s = g_rec[g_rec[i].root].submit_seq.load(std::memory_order_acquire);
        if (s == 0 || s >= before_seq) continue;
        if (!g_rec[i].finished.load(std::memory_order_acquire))
        {
            if (first < 0) first = i;
            ++bad;
        }
    }
    if (bad)
        mon(what, "op=" + std::to_string(op) + " unfinished=" + std::to_string(bad) + " first_task=" +
                std::to_string(first) + " of=" + std::to_string(n));
}

static void check_not_suspended(int idx)
{
    if (g_suspended.load(std::memory_order_acquire))
        mon("ran_while_suspended", "task=" + std::to_string(idx));
}

static thread_local std::uint64_t t_rng = 0;
static std::uint64_t g_seed = 1;
static std::uint64_t rnd()
{
    if (t_rng == 0)
        t_rng = g_seed * 0x9E3779B97F4A7C15ull ^ (std::hash<std::thread::id>()(std::this_thread::get_id()) | 1);
    t_rng ^= t_rng << 13;
    t_rng ^= t_rng >> 7;
    t_rng ^= t_rng << 17;
    return t_rng;
}

static void run_prog(std::shared_ptr<Prog> p, int idx)
{
    check_not_suspended(idx);
    for (auto const& a : p->acts)
    {
        switch (a.kind)
        {
        case 'w': g_bodies++; break;
        case 'y':
            pika::this_thread::yield();
            check_not_suspended(idx);
            break;
        case 'z':
            std::this_thread::sleep_for(std::chrono::microseconds(30 + rnd() % 120));
            check_not_suspended(idx);
            break;
        case '(':
        {
            int c = new_rec(g_rec[idx].root);
            auto cp = a.child;
            ex::execute(ex::thread_pool_scheduler{}, [cp, c] { run_prog(cp, c); });
            break;
        }
        default: break;
        }
    }
    check_not_suspended(idx);
    g_rec[idx].finished.store(1, std::memory_order_release);
}

static int submit_root(std::shared_ptr<Prog> p)
{
    int r = new_rec(-1);
    ex::execute(ex::thread_pool_scheduler{}, [p, r] { run_prog(p, r); });
    g_rec[r].submit_seq.store(g_seq.fetch_add(1), std::memory_order_release);
    return r;
}

// ---------------------------------------------------------------- hooks: counters + perturbation
static std::atomic<long> h_inc{0}, h_dec{0}, h_waitreads{0}, h_destroy{0};
static void hookfn(int site, void const*, std::uint64_t, std::uint64_t)
{
    if (site < 501 || site > 506) return;
    if (site == 505) h_inc++;
    if (site == 504) h_dec++;
    if (site == 503) h_waitreads++;
    if (site == 506) h_destroy++;
    std::uint64_t r = rnd();
    if ((r & 7) != 0) return;    // 1 in 8
    unsigned k = (r >> 8) % 10;
    if (k < 5)
    {
        auto t0 = std::chrono::steady_clock::now();
        auto d = std::chrono::microseconds(1 + (r >> 16) % 60);
        while (std::chrono::steady_clock::now() - t0 < d) {}
    }
    else if (k < 8) { sched_yield(); }
    else { std::this_thread::sleep_for(std::chrono::microseconds(50 + (r >> 16) % 200)); }
}

// ---------------------------------------------------------------- watchdog
static std::atomic<long> g_deadline_ms{0};
static std::atomic<int> g_curop{-1};
static std::string g_curkind;
static long now_ms()
{
    return std::chrono::duration_cast<std::chrono::milliseconds>(
        std::chrono::steady_clock::now().time_since_epoch())
        .count();
}
static void watchdog()
{
    for (;;)
    {
        std::this_thread::sleep_for(std::chrono::milliseconds(100));
        long d = g_deadline_ms.load();
        if (d && now_ms() > d)
        {
            std::printf("MON %s hang op=%d kind=%s inc=%ld dec=%ld\n", g_id.c_str(), g_curop.load(),
                g_curkind.c_str(), h_inc.load(), h_dec.load());
            std::fflush(stdout);
            _exit(3);
        }
    }
}

// run f inside a pika task, wait for it on the calling OS thread
template <typename F>
static void in_task(F f)
{
    std::atomic<int> done{0};
    int r = new_rec(-1);
    ex::execute(ex::thread_pool_scheduler{}, [&, r] {
        f(r);
        g_rec[r].finished.store(1, std::memory_order_release);
        done.store(1, std::memory_order_release);
    });
    g_rec[r].submit_seq.store(g_seq.fetch_add(1), std::memory_order_release);
    while (!done.load(std::memory_order_acquire)) std::this_thread::sleep_for(std::chrono::microseconds(50));
}

// the model predicts invalid_status for every rejected call; any other error code is reported as such
static std::string errstr(pika::exception const& e)
{
    return e.get_error() == pika::error::invalid_status ? std::string("E") : "X" + std::to_string(int(e.get_error()));
}

static bool runtime_present() { return pika::detail::get_runtime_ptr() != nullptr; }

// states of all workers of the default pool
static std::string worker_states()
{
    std::string s;
    auto& pool = pika::resource::get_thread_pool(0);
    auto* sched = pool.get_scheduler();
    std::size_t n = pool.get_os_thread_count();
    for (std::size_t i = 0; i < n; ++i) s += std::to_string(int(sched->get_state(i).load())) + (i + 1 < n ? "," : "");
    return s;
}
static bool all_workers_in(pika::runtime_state st)
{
    auto& pool = pika::resource::get_thread_pool(0);
    auto* sched = pool.get_scheduler();
    std::size_t n = pool.get_os_thread_count();
    for (std::size_t i = 0; i < n; ++i)
        if (sched->get_state(i).load() != st) return false;
    return true;
}

int main(int argc, char** argv)
{
    if (argc < 4) return 2;
    g_id = argv[1];
    g_seed = std::strtoull(argv[2], nullptr, 10) * 2654435761ull + 12345;
    std::string hist = argv[3];
    pika::verif::hook.store(&hookfn, std::memory_order_release);
    std::thread(watchdog).detach();

    std::vector<std::string> ops;
    {
        std::size_t i = 0;
        while (i <= hist.size())
        {
            std::size_t j = hist.find(';', i);
            if (j == std::string::npos) j = hist.size();
            if (j > i) ops.push_back(hist.substr(i, j - i));
            i = j + 1;
        }
    }

    std::vector<std::string> resps;
    std::vector<std::thread> submitters;
    auto join_submitters = [&] {
        for (auto& t : submitters) t.join();
        submitters.clear();
    };
    std::thread stopper;
    std::atomic<int> stop_done{0};
    int stop_val = 0;
    bool stop_threw = false;
    bool stop_pending = false;

    int incarnation = 0;
    long inc0 = 0, dec0 = 0, bodies0 = 0;
    int expected_res = 0;
    bool inc_open = false;

    auto close_incarnation = [&](std::string const& stopresp, int op) {
        // everything ever registered must be finished now
        ledger_check("stop_returned_early", ~0ull, -1, op);
        long c = h_inc.load() - inc0, d = h_dec.load() - dec0;
        std::printf("OUT INC %s.%d created=%ld destroyed=%ld bodies=%ld stop=%s\n", g_id.c_str(), incarnation, c, d,
            g_bodies.load() - bodies0, stopresp.c_str());
        std::fflush(stdout);
        if (c != d) mon("count_not_balanced", "created=" + std::to_string(c) + " destroyed=" + std::to_string(d));
        ++incarnation;
        inc_open = false;
    };

    for (int oi = 0; oi < (int) ops.size(); ++oi)
    {
        std::string const& op = ops[oi];
        g_curop = oi;
        g_curkind = op.substr(0, 2);
        g_deadline_ms = now_ms() + 20000;
        std::string resp = "?";
        try
        {
            if (op[0] == 'S')
            {
                // S<threads>:<queuing>:<res>:<prog>
                std::size_t a = op.find(':'), b = op.find(':', a + 1), c = op.find(':', b + 1);
                std::string th = op.substr(1, a - 1), q = op.substr(a + 1, b - a - 1), rs = op.substr(b + 1, c - b - 1),
                            pr = op.substr(c + 1);
                auto prog = parse_prog(pr);
                int res = std::atoi(rs.c_str());
                std::string a1 = "--pika:threads=" + th, a2 = "--pika:scheduler=" + q;
                char const* av[] = {"c05_life", a1.c_str(), a2.c_str(), nullptr};
                bool was_present = runtime_present();
                int entry_rec = -1;
                long i0 = h_inc.load(), d0 = h_dec.load(), b0 = g_bodies.load();
                if (!was_present) entry_rec = new_rec(-1);
                std::function<int()> entry = [prog, res, entry_rec]() -> int {
                    run_prog(prog, entry_rec);
                    return res;
                };
                pika::start(entry, 3, av);
                if (entry_rec >= 0) g_rec[entry_rec].submit_seq.store(g_seq.fetch_add(1), std::memory_order_release);
                inc0 = i0;
                dec0 = d0;
                bodies0 = b0;
                expected_res = res;
                inc_open = true;
                resp = "O";
            }
            else if (op[0] == 'T')
            {
                submit_root(parse_prog(op.substr(1)));
                resp = "O";
            }
            else if (op[0] == 'X')
            {
                std::size_t a = op.find(':');
                int n = std::atoi(op.substr(1, a - 1).c_str());
                auto prog = parse_prog(op.substr(a + 1));
                std::uint64_t sd = rnd();
                submitters.emplace_back([n, prog, sd] {
                    t_rng = sd | 1;
                    for (int k = 0; k < n; ++k)
                    {
                        submit_root(prog);
                        if (rnd() % 3 == 0) std::this_thread::sleep_for(std::chrono::microseconds(rnd() % 150));
                    }
                });
                resp = "O";
            }
            else if (op == "W")
            {
                std::uint64_t s = g_seq.fetch_add(1);
                pika::wait();
                ledger_check("wait_returned_early", s, -1, oi);
                resp = "O";
            }
            else if (op == "w")
            {
                std::string r2 = "O";
                in_task([&](int self) {
                    try
                    {
                        std::uint64_t s = g_seq.fetch_add(1);
                        pika::wait();
                        ledger_check("wait_from_task_returned_early", s, self, oi);
                    }
                    catch (pika::exception const& e)
                    {
                        r2 = errstr(e);
                    }
                });
                resp = r2;
            }
            else if (op == "U")
            {
                join_submitters();
                pika::suspend();
                g_suspended.store(1, std::memory_order_release);
                if (!all_workers_in(pika::runtime_state::sleeping))
                    mon("suspend_returned_with_awake_worker", "op=" + std::to_string(oi) + " states=" + worker_states());
                resp = "O";
            }
            else if (op == "R")
            {
                bool was = g_suspended.load() != 0;
                g_suspended.store(0, std::memory_order_release);
                try
                {
                    pika::resume();
                }
                catch (...)
                {
                    g_suspended.store(was ? 1 : 0);
                    throw;
                }
                if (!all_workers_in(pika::runtime_state::running))
                    mon("resume_left_worker_not_running", "op=" + std::to_string(oi) + " states=" + worker_states());
                resp = "O";
            }
            else if (op == "F")
            {
                join_submitters();
                pika::finalize();
                resp = "O";
            }
            else if (op == "f" || op == "tU" || op == "tR" || op == "tP")
            {
                std::string r2 = "O";
                in_task([&](int) {
                    try
                    {
                        if (op == "f") pika::finalize();
                        else if (op == "tU") pika::suspend();
                        else if (op == "tR") pika::resume();
                        else
                        {
                            int v = pika::stop();
                            r2 = "R" + std::to_string(v);
                        }
                    }
                    catch (pika::exception const& e)
                    {
                        r2 = errstr(e);
                    }
                });
                resp = r2;
            }
            else if (op == "B")
            {
                stop_done = 0;
                stop_threw = false;
                stopper = std::thread([&] {
                    try
                    {
                        stop_val = pika::stop();
                    }
                    catch (...)
                    {
                        stop_threw = true;
                    }
                    stop_done.store(1, std::memory_order_release);
                });
                std::this_thread::sleep_for(std::chrono::milliseconds(60));
                if (stop_done.load(std::memory_order_acquire))
                {
                    stopper.join();
                    resp = stop_threw ? "E" : "R" + std::to_string(stop_val);
                    if (!stop_threw)
                    {
                        mon("stop_returned_before_finalize", "op=" + std::to_string(oi));
                        g_suspended = 0;
                        close_incarnation(resp, oi);
                    }
                }
                else
                {
                    stop_pending = true;
                    resp = "B";
                }
            }
            else if (op == "P")
            {
                join_submitters();
                if (stop_pending)
                {
                    stopper.join();
                    stop_pending = false;
                    if (stop_threw) resp = "E";
                    else
                    {
                        resp = "R" + std::to_string(stop_val);
                        g_suspended = 0;
                        close_incarnation(resp, oi);
                    }
                }
                else
                {
                    bool present = runtime_present();
                    int v = pika::stop();
                    resp = "R" + std::to_string(v);
                    g_suspended = 0;
                    if (present) close_incarnation(resp, oi);
                }
                if (resp[0] == 'R' && std::atoi(resp.c_str() + 1) != expected_res)
                    mon("stop_wrong_result",
                        "op=" + std::to_string(oi) + " got=" + resp.substr(1) + " entry_returned=" + std::to_string(expected_res));
            }
            else { resp = "?"; }
        }
        catch (pika::exception const& e)
        {
            resp = errstr(e);
            std::fprintf(stderr, "op %d %s: %s\n", oi, op.c_str(), e.what());
        }
        catch (std::exception const& e)
        {
            resp = "E";
            std::fprintf(stderr, "op %d %s: std::exception %s\n", oi, op.c_str(), e.what());
        }
        resps.push_back(resp);
        std::printf("RESP %s %d %s %s\n", g_id.c_str(), oi, op.substr(0, 2).c_str(), resp.c_str());
        std::fflush(stdout);
    }
    g_deadline_ms = now_ms() + 20000;
    g_curop = 999;
    g_curkind = "end";
    std::string all;
    for (std::size_t i = 0; i < resps.size(); ++i) all += resps[i] + (i + 1 < resps.size() ? "," : "");
    std::printf("OUT API %s resps=%s\n", g_id.c_str(), all.c_str());
    std::printf("END %s mon=%d waitreads=%ld destroy=%ld\n", g_id.c_str(), g_mon.load(), h_waitreads.load(), h_destroy.load());
    std::fflush(stdout);
    _exit(0);
}
