// C11 DIFF harness: the pure chunk arithmetic of thread_pool_scheduler_bulk.hpp.
// Calls the REAL functions of the real operation_state types (never a copy of the code):
//   bulk_receiver::get_chunk_size / get_num_chunks (static), bulk_receiver::init_queue (member, on a
//   real operation state whose num_worker_threads/queues are overridden), and
//   set_value_loop_visitor::do_work_chunk (observed through hooks 1102/1104; f always throws, so the
//   loop body runs at most once whatever the chunk size).
// usage: c11_arith <seed> <ncases> [<start_id>]
// Prints "IN AR <id> <type> <bits> <W> <n hex> <idxs>" and
//        "OUT AR <id> c=<hex> k=<dec> parts=b-e,... chunks=idx:b:e,..." per case.
// A case that does not return within 5 s prints "OUT AR <id> hang" and exits with code 7.
#include <pika/execution.hpp>
#include <pika/init.hpp>

#include <atomic>
#include <cinttypes>
#include <csignal>
#include <cstdint>
#include <cstdio>
#include <cstdlib>
#include <cstring>
#include <exception>
#include <limits>
#include <string>
#include <tuple>
#include <unistd.h>
#include <vector>

namespace ex = pika::execution::experimental;

struct Rng
{
    std::uint64_t s;
    explicit Rng(std::uint64_t seed) : s(seed * 0x9E3779B97F4A7C15ull + 0x1234567ull) {}
    std::uint64_t next()
    {
        std::uint64_t z = (s += 0x9E3779B97F4A7C15ull);
        z = (z ^ (z >> 30)) * 0xBF58476D1CE4E5B9ull;
        z = (z ^ (z >> 27)) * 0x94D049BB133111EBull;
        return z ^ (z >> 31);
    }
    std::uint64_t below(std::uint64_t n) { return n ? next() % n : 0; }
};

// ---- observations through the hooks
static std::vector<std::pair<std::uint32_t, std::uint32_t>> g_parts;
static std::uint64_t g_cb, g_ce;
static bool g_chunk_seen;
static void hook(int site, void const*, std::uint64_t a, std::uint64_t b)
{
    if (site == 1102) { g_parts.emplace_back((std::uint32_t)(b >> 32), (std::uint32_t) b); }
    else if (site == 1104) { g_cb = a; g_ce = b; g_chunk_seen = true; }
}

// ---- watchdog
static char g_pending[512];
static void on_alarm(int)
{
    ssize_t r = write(1, g_pending, std::strlen(g_pending));
    (void) r;
    _exit(7);
}

struct rcv
{
    void set_value() && noexcept {}
    template <class E>
    void set_error(E&&) && noexcept {}
    void set_stopped() && noexcept {}
    constexpr ex::empty_env get_env() const noexcept { return {}; }
};

template <typename T>
struct thrower
{
    void operator()(T) const { throw 1; }
};

template <typename T>
struct Real
{
    using sender_t = decltype(ex::bulk(ex::schedule(std::declval<ex::thread_pool_scheduler>()), T(1), thrower<T>{}));
    using OS = decltype(ex::connect(std::declval<sender_t>(), rcv{}));
    using BR = typename OS::bulk_receiver;

    static void run(ex::thread_pool_scheduler sched, int id, char const* tname, int bits, std::uint64_t W,
        std::uint64_t n64, Rng& rng)
    {
        T const n = static_cast<T>(n64);
        std::snprintf(g_pending, sizeof g_pending, "IN AR %d %s %d %" PRIu64 " %" PRIx64 " -\nOUT AR %d hang\n", id, tname,
            bits, W, n64, id);
        alarm(5);
        OS os = ex::connect(ex::bulk(ex::schedule(sched), n, thrower<T>{}), rcv{});
        os.num_worker_threads = W;
        {
            decltype(os.queues) q(W);
            os.queues.swap(q);
        }
        std::uint64_t const c = BR::get_chunk_size(static_cast<std::uint32_t>(W), n);
        std::uint32_t const k = BR::get_num_chunks(n, c);
        g_parts.clear();
        BR br{&os};
        for (std::uint64_t w = 0; w < W; ++w) br.init_queue(static_cast<std::uint32_t>(w), k);
        // chunk indices to evaluate
        std::vector<std::uint32_t> idxs;
        auto add = [&](std::uint64_t v) {
            std::uint32_t x = (std::uint32_t) v;
            for (auto y : idxs)
                if (y == x) return;
            if (idxs.size() < 8) idxs.push_back(x);
        };
        add(0);
        if (k > 0)
        {
            add(1 % k);
            add(k - 1);
            add(k >= 2 ? k - 2 : 0);
            add(k / 2);
            for (int r = 0; r < 3; ++r) add(rng.below(k));
        }
        std::string chunks;
        for (std::size_t j = 0; j < idxs.size(); ++j)
        {
            typename BR::task_function tf{&os, n, c, 0};
            typename BR::set_value_loop_visitor v{&os, &tf};
            std::tuple<> ts;
            g_chunk_seen = false;
            g_cb = g_ce = 0;
            try
            {
                v.do_work_chunk(ts, idxs[j]);
            }
            catch (...)
            {
            }
            char buf[96];
            // Shape-typed values are reported as their unsigned value of the Shape's width
            std::uint64_t mask = bits == 64 ? ~0ull : ((1ull << bits) - 1);
            std::snprintf(buf, sizeof buf, "%s%u:%" PRIx64 ":%" PRIx64, j ? "," : "", idxs[j], g_cb & mask, g_ce & mask);
            chunks += g_chunk_seen ? buf : "?";
        }
        alarm(0);
        std::string in = "IN AR " + std::to_string(id) + " " + tname + " " + std::to_string(bits) + " " + std::to_string(W);
        char nb[32];
        std::snprintf(nb, sizeof nb, " %" PRIx64 " ", n64);
        in += nb;
        for (std::size_t j = 0; j < idxs.size(); ++j) in += (j ? "," : "") + std::to_string(idxs[j]);
        std::string out = "OUT AR " + std::to_string(id);
        std::snprintf(nb, sizeof nb, " c=%" PRIx64, c);
        out += nb;
        out += " k=" + std::to_string(k) + " parts=";
        for (std::size_t w = 0; w < g_parts.size(); ++w)
            out += (w ? "," : "") + std::to_string(g_parts[w].first) + "-" + std::to_string(g_parts[w].second);
        out += " chunks=" + chunks;
        std::printf("%s\n%s\n", in.c_str(), out.c_str());
        std::fflush(stdout);
    }
};

static std::uint64_t pow2(int k) { return k >= 64 ? 0 : (1ull << k); }

int main(int argc, char** argv)
{
    std::uint64_t seed = argc > 1 ? std::strtoull(argv[1], nullptr, 10) : 1;
    int ncases = argc > 2 ? std::atoi(argv[2]) : 100;
    int start = argc > 3 ? std::atoi(argv[3]) : 0;
    char* av[] = {argv[0], (char*) "--pika:threads=1", nullptr};
    int ac = 2;
    pika::start(ac, av);
    std::signal(SIGALRM, on_alarm);
    pika::verif::hook.store(&hook);
    ex::thread_pool_scheduler sched{};

    static char const* tnames[8] = {"i8", "u8", "i16", "u16", "i32", "u32", "i64", "u64"};
    static int const tbits[8] = {8, 8, 16, 16, 32, 32, 64, 64};
    static std::uint64_t const tmax[8] = {0x7f, 0xff, 0x7fff, 0xffff, 0x7fffffffull, 0xffffffffull, 0x7fffffffffffffffull,
        0xffffffffffffffffull};
    // fixed table of important shapes (ids 0..): (type, n) x W in {1,3,4,16}
    struct Fixed
    {
        int ty;
        std::uint64_t n;
    };
    std::vector<Fixed> fixed;
    for (int ty = 4; ty < 8; ++ty)
    {
        std::uint64_t cand[] = {0x7fffffffull, 0x80000000ull, 0x80000001ull, 0xffffffffull, 0x100000000ull, 0x100000005ull,
            0x1ffffffffull, 0x7fffffffffffffffull, 0xffffffffffffffffull, 0xe000000000000000ull, 0xe000000000000001ull,
            0xdfffffffffffffffull, 0x8000000000000000ull, 0x8000000000000001ull};
        for (auto v : cand)
            if (v <= tmax[ty]) fixed.push_back({ty, v});
    }
    static std::uint64_t const fixedW[4] = {1, 3, 4, 16};

    for (int id = start; id < ncases; ++id)
    {
        Rng rng(seed * 1000003ull + (std::uint64_t) id);
        int ty;
        std::uint64_t W, n;
        if ((std::size_t) id < fixed.size() * 4)
        {
            ty = fixed[id / 4].ty;
            n = fixed[id / 4].n;
            W = fixedW[id % 4];
        }
        else
        {
            ty = (int) rng.below(8);
            int bits = tbits[ty];
            std::uint64_t r = rng.below(10);
            static std::uint64_t const ws[] = {1, 2, 3, 4, 5, 7, 8, 9, 15, 16, 17, 31, 32, 33, 63, 64};
            static std::uint64_t const wl[] = {100, 128, 255, 256, 1000};
            if (r < 4) W = 1 + rng.below(64);
            else if (r < 7) W = ws[rng.below(16)];
            else if (r < 9) W = 1 + rng.below(16);
            else W = wl[rng.below(5)];
            unsigned __int128 v = 1;
            switch (rng.below(6))
            {
            case 0:
            {
                int kk = (int) rng.below(bits + 1);
                v = (unsigned __int128) 8 * W * ((unsigned __int128) 1 << kk);
                v += (unsigned __int128) rng.below(5);
                v = v >= 2 ? v - 2 : 1;
                break;
            }
            case 1:
            {
                int j = (int) rng.below(bits + 1);
                v = ((unsigned __int128) 1 << j) + rng.below(3);
                v = v >= 1 ? v - 1 : 1;
                break;
            }
            case 2: v = tmax[ty] - rng.below(4); break;
            case 3: v = 1 + rng.below(40); break;
            case 4:
            {
                int bl = 1 + (int) rng.below(bits);
                v = rng.next() & (bl >= 64 ? ~0ull : (pow2(bl) - 1));
                break;
            }
            default:
            {
                v = (unsigned __int128) 8 * W * (1 + rng.below(20)) + rng.below(3);
                v = v >= 1 ? v - 1 : 1;
                break;
            }
            }
            if (v > tmax[ty]) v = tmax[ty] - rng.below(3);
            if (v < 1) v = 1;
            n = (std::uint64_t) v;
        }
        switch (ty)
        {
        case 0: Real<std::int8_t>::run(sched, id, tnames[ty], tbits[ty], W, n, rng); break;
        case 1: Real<std::uint8_t>::run(sched, id, tnames[ty], tbits[ty], W, n, rng); break;
        case 2: Real<std::int16_t>::run(sched, id, tnames[ty], tbits[ty], W, n, rng); break;
        case 3: Real<std::uint16_t>::run(sched, id, tnames[ty], tbits[ty], W, n, rng); break;
        case 4: Real<std::int32_t>::run(sched, id, tnames[ty], tbits[ty], W, n, rng); break;
        case 5: Real<std::uint32_t>::run(sched, id, tnames[ty], tbits[ty], W, n, rng); break;
        case 6: Real<std::int64_t>::run(sched, id, tnames[ty], tbits[ty], W, n, rng); break;
        default: Real<std::uint64_t>::run(sched, id, tnames[ty], tbits[ty], W, n, rng); break;
        }
    }
    pika::verif::hook.store(nullptr);
    pika::finalize();
    return pika::stop();
}
