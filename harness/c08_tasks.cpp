// C08 harness on the running runtime: real pika tasks (and, for f14, plain OS threads) drive the
// public semaphore API; monitors evaluate the property itself on what the implementation does:
//   ledger   : acquisitions <= initial + releases at every instant, nobody stays blocked once enough
//              permits were released (watchdog), final count = initial + released - acquired
//   timed    : release clearly before the deadline (margin >= 50x) => true and consumed; timeout =>
//              false and count untouched; release before the call; deadline in the past
//   mixed    : blocked timed acquirers + try_acquire spinners + permits released one batch at a time
//              (counting release(1) / release(n>1), binary): ledger at every instant, conservation and
//              non-negative count after quiescence
//   sliding  : wait(u) returns only if u - maxd <= lower, try_wait exact when quiescent, all waiters
//              finish once the signalled lower limit covers them (watchdog)
//   syncwait : sync_wait (binary semaphore instance) returns exactly once with the value
//   f14      : OS thread X try_acquire_for(300ms) + OS thread Y release(1): bounded experiment
// usage: c08_tasks <mode> <seed> <n>; prints CASE / HIT <signature> <detail> / DONE lines.
#include <pika/config.hpp>
#include <pika/execution.hpp>
#include <pika/init.hpp>
#include <pika/semaphore.hpp>
#include <pika/synchronization/sliding_semaphore.hpp>
#include <pika/thread.hpp>

#include <atomic>
#include <chrono>
#include <cinttypes>
#include <cstdio>
#include <cstdlib>
#include <functional>
#include <memory>
#include <string>
#include <thread>
#include <vector>

namespace ex = pika::execution::experimental;
namespace tt = pika::this_thread::experimental;
using clk = std::chrono::steady_clock;
using namespace std::chrono_literals;

struct Rng
{
    std::uint64_t x;
    // seeds are scrambled first: with x = seed * increment the streams of seed and seed+1 would be
    // the same stream shifted by one draw
    explicit Rng(std::uint64_t seed) : x(seed)
    {
        x = (x ^ (x >> 31) ^ 0x5DEECE66Dull) * 0xD6E8FEB86659FD93ull;
        x ^= x >> 32;
        x *= 0xD6E8FEB86659FD93ull;
    }
    std::uint64_t next()
    {
        std::uint64_t z = (x += 0x9E3779B97F4A7C15ull);
        z = (z ^ (z >> 30)) * 0xBF58476D1CE4E5B9ull;
        z = (z ^ (z >> 27)) * 0x94D049BB133111EBull;
        return z ^ (z >> 31);
    }
    std::uint64_t below(std::uint64_t n) { return n ? next() % n : 0; }
    bool chance(unsigned num, unsigned den) { return below(den) < num; }
};

static std::uint64_t g_seed = 1;
static std::atomic<std::uint64_t> g_thr{0};
static int g_hits = 0, g_cases = 0;
static std::string g_mode;

static void perturb(int site, void const*, std::uint64_t, std::uint64_t)
{
    if (site < 801 || site > 816) return;
    thread_local Rng r(g_seed * 1000003 + g_thr.fetch_add(1));
    if (r.below(3) != 0) return;
    auto until = clk::now() + std::chrono::nanoseconds(r.below(20000));
    while (clk::now() < until) {}
}

static void hit(char const* sig, std::string const& detail)
{
    ++g_hits;
    std::printf("HIT %s seed=%" PRIu64 " %s\n", sig, g_seed, detail.c_str());
    std::fflush(stdout);
}
static void done_exit(bool hard)
{
    std::printf("DONE %s cases=%d hits=%d\n", g_mode.c_str(), g_cases, g_hits);
    std::fflush(stdout);
    if (hard) std::_Exit(0);
}
static void kase(int id, std::string const& desc)
{
    ++g_cases;
    std::printf("CASE %s %d %s\n", g_mode.c_str(), id, desc.c_str());
    std::fflush(stdout);
}
// bounded wait of the main (OS) thread for a counter
static bool wait_for(std::atomic<int>& c, int target, int seconds)
{
    auto t0 = clk::now();
    while (c.load() < target)
    {
        if (clk::now() - t0 > std::chrono::seconds(seconds)) return false;
        std::this_thread::sleep_for(100us);
    }
    return true;
}
template <typename F>
static void spawn(F&& f)
{
    ex::execute(ex::thread_pool_scheduler{}, std::forward<F>(f));
}
static void task_sleep(std::chrono::microseconds d)
{
    auto until = clk::now() + d;
    do { pika::this_thread::yield(); } while (clk::now() < until);
}

// ------------------------------------------------------------------------------------ ledger
static void mode_ledger(int n)
{
    Rng rng(g_seed);
    for (int cs = 0; cs < n; ++cs)
    {
        int init = (int) rng.below(4), K = 2 + (int) rng.below(11);
        struct Op { char k; int n; };
        std::vector<std::vector<Op>> progs(K);
        int blocking = 0, released = 0;
        std::string desc = "init=" + std::to_string(init) + " K=" + std::to_string(K) + " progs=";
        for (int t = 0; t < K; ++t)
        {
            int len = 1 + (int) rng.below(5);
            for (int i = 0; i < len; ++i)
            {
                int r = (int) rng.below(10);
                Op o{r < 4 ? 'A' : r < 6 ? 'Y' : 'R', 1 + (int) rng.below(3)};
                if (o.k != 'R') ++blocking;    // a successful try_acquire consumes a permit as well
                if (o.k == 'R') released += o.n;
                progs[t].push_back(o);
                desc += o.k;
                if (o.k == 'R') desc += std::to_string(o.n);
            }
            desc += t + 1 < K ? "|" : "";
        }
        int quota = blocking;    // the feeder guarantees completion in correct code
        desc += " feeder=" + std::to_string(quota);
        auto sem = std::make_shared<pika::counting_semaphore<>>(init);
        std::atomic<long> rel{0}, acq{0};
        std::atomic<int> fin{0};
        std::atomic<bool> bad{false};
        std::string baddetail;
        auto check_acq = [&] {
            long a = acq.fetch_add(1) + 1;
            long r = rel.load();
            if (a > init + r && !bad.exchange(true))
                baddetail = "case=" + std::to_string(cs) + " acquired=" + std::to_string(a) + " > init=" +
                    std::to_string(init) + " + released=" + std::to_string(r);
        };
        for (int t = 0; t < K; ++t)
            spawn([&, t] {
                for (auto const& o : progs[t])
                {
                    if (o.k == 'A') { sem->acquire(); check_acq(); }
                    else if (o.k == 'Y') { if (sem->try_acquire()) check_acq(); }
                    else { rel.fetch_add(o.n); sem->release(o.n); }
                    if (t & 1) pika::this_thread::yield();
                }
                fin.fetch_add(1);
            });
        spawn([&] {
            for (int i = 0; i < quota && fin.load() < K; ++i)
            {
                rel.fetch_add(1);
                sem->release(1);
                task_sleep(std::chrono::microseconds(i % 3 == 0 ? 30 : 0));
            }
            fin.fetch_add(1);
        });
        kase(cs, desc);
        if (!wait_for(fin, K + 1, 10))
        {
            hit("ledger:blocked_with_permits", "case=" + std::to_string(cs) + " " + desc + " finished=" +
                    std::to_string(fin.load()) + "/" + std::to_string(K + 1) + " init=" + std::to_string(init) +
                    " released=" + std::to_string(rel.load()) + " acquired=" + std::to_string(acq.load()) +
                    " (acquirers still blocked 10 s after every release was issued)");
            done_exit(true);
        }
        if (bad) hit("ledger:acquired_exceeds_released", baddetail + " " + desc);
        long expect = init + rel.load() - acq.load(), drained = 0;
        std::atomic<int> d{0};
        spawn([&] {
            for (long i = 0; i < init + rel.load() + 5 && sem->try_acquire(); ++i) ++drained;
            d = 1;
        });
        if (!wait_for(d, 1, 10)) { hit("ledger:drain_hang", "case=" + std::to_string(cs)); done_exit(true); }
        if (drained != expect)
            hit("ledger:final_count_mismatch", "case=" + std::to_string(cs) + " " + desc + " expected=" +
                    std::to_string(expect) + " drained=" + std::to_string(drained));
    }
}

// ------------------------------------------------------------------------------------ timed
static void mode_timed(int nb)
{
    Rng rng(g_seed);
    int const M = 12;
    for (int b = 0; b < nb; ++b)
    {
        struct Sc
        {
            int kind;
            pika::counting_semaphore<> sem{0};
            std::atomic<int> entered{0};
            bool res = false, after1 = false, after2 = false;
            clk::time_point t_start, t_rel, t_ret;
        };
        std::vector<std::unique_ptr<Sc>> sc;
        std::atomic<int> fin{0};
        int expect_fin = 0;
        for (int i = 0; i < M; ++i)
        {
            sc.push_back(std::make_unique<Sc>());
            Sc* s = sc.back().get();
            s->kind = i < 5 ? 0 : (int) (1 + rng.below(4));
            int delay_ms = 10 + (int) rng.below(11);
            switch (s->kind)
            {
            case 0:    // release clearly before the deadline
                spawn([s, &fin] {
                    s->t_start = clk::now();
                    s->entered = 1;
                    s->res = s->sem.try_acquire_for(1000ms);
                    s->t_ret = clk::now();
                    s->after1 = s->sem.try_acquire();
                    fin.fetch_add(1);
                });
                spawn([s, &fin, delay_ms] {
                    while (!s->entered.load()) pika::this_thread::yield();
                    task_sleep(std::chrono::milliseconds(delay_ms));
                    s->sem.release(1);
                    s->t_rel = clk::now();
                    fin.fetch_add(1);
                });
                expect_fin += 2;
                break;
            case 1:    // timeout
                spawn([s, &fin] {
                    s->res = s->sem.try_acquire_for(30ms);
                    s->sem.release(1);
                    s->after1 = s->sem.try_acquire();
                    s->after2 = s->sem.try_acquire();
                    fin.fetch_add(1);
                });
                expect_fin += 1;
                break;
            case 2:    // release before the call
                spawn([s, &fin] {
                    s->sem.release(1);
                    s->t_start = clk::now();
                    s->res = s->sem.try_acquire_for(1000ms);
                    s->t_ret = clk::now();
                    s->after1 = s->sem.try_acquire();
                    fin.fetch_add(1);
                });
                expect_fin += 1;
                break;
            case 3:    // deadline in the past, permit available
                spawn([s, &fin] {
                    s->sem.release(1);
                    s->res = s->sem.try_acquire_until(clk::now() - 10ms);
                    s->after1 = s->sem.try_acquire();
                    fin.fetch_add(1);
                });
                expect_fin += 1;
                break;
            default:    // deadline in the past, no permit
                spawn([s, &fin] {
                    s->res = s->sem.try_acquire_until(clk::now() - 10ms);
                    s->sem.release(1);
                    s->after1 = s->sem.try_acquire();
                    s->after2 = s->sem.try_acquire();
                    fin.fetch_add(1);
                });
                expect_fin += 1;
                break;
            }
        }
        if (!wait_for(fin, expect_fin, 8))
        {
            hit("timed:hang", "batch=" + std::to_string(b) + " finished=" + std::to_string(fin.load()) + "/" +
                    std::to_string(expect_fin));
            done_exit(true);
        }
        for (int i = 0; i < M; ++i)
        {
            Sc* s = sc[i].get();
            int id = b * M + i;
            std::string r = " returned=" + std::to_string((int) s->res) + " permit_left=" + std::to_string((int) s->after1);
            switch (s->kind)
            {
            case 0:
            {
                auto rel_after = std::chrono::duration_cast<std::chrono::milliseconds>(s->t_rel - s->t_start).count();
                bool conclusive = rel_after <= 100;    // >= 900 ms before the 1000 ms deadline
                kase(id, std::string("rel_before_deadline try_acquire_for(1000ms) release(1) ") +
                        (conclusive ? "conclusive" : "inconclusive"));
                if (!conclusive) break;
                if (!s->res)
                    hit("timed:false_although_released_before_deadline", "case=" + std::to_string(id) +
                            " try_acquire_for(1000ms) on a pika task, release(1) returned " + std::to_string(rel_after) +
                            " ms after the call started:" + r);
                else if (s->after1)
                    hit("timed:true_without_consuming", "case=" + std::to_string(id) + r);
                break;
            }
            case 1:
                kase(id, "timeout try_acquire_for(30ms) no release");
                if (s->res) hit("timed:true_without_permit", "case=" + std::to_string(id) + r);
                else if (!s->after1 || s->after2)
                    hit("timed:false_changed_count", "case=" + std::to_string(id) + " after the failed attempt and release(1): try_acquire=" +
                            std::to_string((int) s->after1) + "," + std::to_string((int) s->after2) + " (expected 1,0)");
                break;
            case 2:
            {
                auto took = std::chrono::duration_cast<std::chrono::milliseconds>(s->t_ret - s->t_start).count();
                kase(id, "rel_before_call release(1) try_acquire_for(1000ms)");
                if (!s->res) hit("timed:false_although_available", "case=" + std::to_string(id) + r);
                else if (s->after1) hit("timed:true_without_consuming", "case=" + std::to_string(id) + r);
                else if (took > 500) hit("timed:slow_although_available", "case=" + std::to_string(id) + " took_ms=" + std::to_string(took));
                break;
            }
            case 3:
                kase(id, "past_deadline_available release(1) try_acquire_until(now-10ms)");
                if (!s->res || s->after1) hit("timed:past_deadline_wrong_result", "case=" + std::to_string(id) + " count=1" + r);
                break;
            default:
                kase(id, "past_deadline_empty try_acquire_until(now-10ms)");
                if (s->res || !s->after1 || s->after2)
                    hit("timed:past_deadline_wrong_result", "case=" + std::to_string(id) + " count=0" + r + " second=" + std::to_string((int) s->after2));
                break;
            }
        }
    }
}

// ------------------------------------------------------------------------------------ mixed
// "A timed or non-blocking acquire returns true exactly when it consumed a permit" with all three kinds
// of acquirer competing for the SAME permit: T tasks blocked in try_acquire_for(D) (D = 50..90 ms, the
// releases come within the first few ms; pika tasks only — on plain OS threads this deadlocks, F14),
// S tasks spinning on the non-blocking try_acquire() (each up to a quota), and a releaser that hands out
// the permits one batch at a time (counting: release(1) / release(n>1); binary: release(1) only while the
// counter is known to be 0).  Every release pops timed waiters from the queue, but a spinner may take the
// permit before the popped waiter looks at the counter again: that waiter must then NOT report success.
// Monitors (ledger, independent of the model): successful acquisitions <= initial + released at every
// instant; after quiescence successful + leftover == initial + released (leftover drained through
// try_acquire); then release(1) makes exactly one try_acquire succeed (a negative internal count would
// swallow it).  M cases run concurrently per batch (a timed acquire on a task lasts until its deadline).
struct ISem
{
    virtual ~ISem() = default;
    virtual bool try_acquire() = 0;
    virtual bool try_acquire_for(std::chrono::milliseconds) = 0;
    virtual void release(std::ptrdiff_t) = 0;
};
template <typename S>
struct SemBox final : ISem
{
    S s;
    explicit SemBox(std::ptrdiff_t v) : s(v) {}
    bool try_acquire() override { return s.try_acquire(); }
    bool try_acquire_for(std::chrono::milliseconds d) override { return s.try_acquire_for(d); }
    void release(std::ptrdiff_t n) override { s.release(n); }
};
struct MixCase
{
    int kind = 0;    // 0 counting, single permits; 1 counting, release(n>1); 2 binary
    std::unique_ptr<ISem> sem;
    int init = 0, T = 0, S = 0, D_ms = 0;
    std::vector<int> rel_n, quota, delay_us;
    std::atomic<long> rel{0}, acq{0};
    std::atomic<int> entered{0}, timed_true{0}, timed_false{0}, spin_got{0}, rounds_done{0};
    std::atomic<bool> stop{false}, bad{false};
    std::string baddetail, desc;
    long leftover = -1;
    bool probe1 = false, probe2 = false;
    void on_acquire(char const* who)
    {
        long a = acq.fetch_add(1) + 1;
        long r = rel.load();
        if (a > init + r && !bad.exchange(true))
            baddetail = std::string(who) + " returned true as acquisition #" + std::to_string(a) + " while initial=" + std::to_string(init) +
                " + released=" + std::to_string(r) + " permits existed";
    }
};
static char const* mix_kind(int k) { return k == 0 ? "counting" : k == 1 ? "counting_multi" : "binary"; }

static void mode_mixed(int nb)
{
    Rng rng(g_seed);
    int const M = 8;
    for (int b = 0; b < nb; ++b)
    {
        std::vector<std::unique_ptr<MixCase>> cs;
        std::atomic<int> fin_a{0}, fin_s{0}, fin_c{0};
        int expect_a = 0, expect_s = 0, maxD = 0;
        for (int i = 0; i < M; ++i)
        {
            cs.push_back(std::make_unique<MixCase>());
            MixCase* c = cs.back().get();
            c->kind = (int) rng.below(3);
            c->init = c->kind == 2 ? (int) rng.below(2) : (int) rng.below(3);
            c->T = 1 + (int) rng.below(3);
            c->S = 1 + (int) rng.below(2);
            c->D_ms = 50 + (int) rng.below(41);
            maxD = c->D_ms > maxD ? c->D_ms : maxD;
            int R = 1 + (int) rng.below(3);
            int total = c->init;
            for (int k = 0; k < R; ++k)
            {
                c->rel_n.push_back(c->kind == 1 ? 2 + (int) rng.below(2) : 1);
                total += c->rel_n.back();
            }
            // spinner quotas: mostly enough to take everything, sometimes fewer (the timed waiters then get the rest)
            for (int k = 0; k < c->S; ++k) c->quota.push_back(rng.chance(2, 3) ? total : (int) rng.below((std::uint64_t) total + 1));
            for (int k = 0; k < c->T; ++k) c->delay_us.push_back(rng.chance(1, 4) ? 500 + (int) rng.below(2500) : 0);
            if (c->kind == 2) c->sem = std::make_unique<SemBox<pika::binary_semaphore<>>>(c->init);
            else c->sem = std::make_unique<SemBox<pika::counting_semaphore<>>>(c->init);
            c->desc = std::string(mix_kind(c->kind)) + " init=" + std::to_string(c->init) + " timed=" + std::to_string(c->T) + "x try_acquire_for(" +
                std::to_string(c->D_ms) + "ms) spinners=" + std::to_string(c->S) + " quota=";
            for (int q : c->quota) c->desc += std::to_string(q) + ",";
            c->desc += " releases=";
            for (int n : c->rel_n) c->desc += std::to_string(n) + ",";
            int early = 0;
            for (int k = 0; k < c->T; ++k)
            {
                if (c->delay_us[k] == 0) ++early;
                spawn([c, k, &fin_a] {
                    if (c->delay_us[k]) task_sleep(std::chrono::microseconds(c->delay_us[k]));
                    c->entered.fetch_add(1);
                    bool r = c->sem->try_acquire_for(std::chrono::milliseconds(c->D_ms));
                    if (r) { c->on_acquire("try_acquire_for"); c->timed_true.fetch_add(1); }
                    else c->timed_false.fetch_add(1);
                    fin_a.fetch_add(1);
                });
            }
            for (int k = 0; k < c->S; ++k)
                spawn([c, k, &fin_s] {
                    int got = 0;
                    while (!c->stop.load())
                    {
                        if (got < c->quota[k] && c->sem->try_acquire())
                        {
                            c->on_acquire("try_acquire");
                            ++got;
                            c->spin_got.fetch_add(1);
                        }
                        pika::this_thread::yield();
                    }
                    fin_s.fetch_add(1);
                });
            spawn([c, early, &fin_a] {
                auto t0 = clk::now();
                while (c->entered.load() < early && clk::now() - t0 < 5s) pika::this_thread::yield();
                task_sleep(std::chrono::microseconds(300));    // the early timed acquirers are queued by now (not required for soundness)
                for (int n : c->rel_n)
                {
                    c->rel.fetch_add(n);    // ledger first: an acquirer that got this permit sees it counted
                    c->sem->release(n);
                    c->rounds_done.fetch_add(1);
                    // one batch at a time: wait (a little) until everything handed out so far was taken
                    auto t1 = clk::now();
                    auto lim = std::chrono::milliseconds(c->kind == 2 ? 5 : 2);
                    while (c->acq.load() < c->init + c->rel.load() && clk::now() - t1 < lim) pika::this_thread::yield();
                    // binary: release() requires counter == 0, known only when every permit was reported taken
                    if (c->kind == 2 && c->acq.load() < c->init + c->rel.load()) break;
                }
                fin_a.fetch_add(1);
            });
            expect_a += c->T + 1;
            expect_s += c->S;
        }
        auto abandon = [&](char const* what, std::string const& d) {
            for (int i = 0; i < M; ++i) kase(b * M + i, cs[i]->desc);
            hit(what, "batch=" + std::to_string(b) + " " + d);
            done_exit(true);
        };
        if (!wait_for(fin_a, expect_a, 15 + maxD / 1000))
        {
            std::string d = "finished=" + std::to_string(fin_a.load()) + "/" + std::to_string(expect_a) + " (timed acquirers / releasers still not back 15 s after every deadline):";
            for (int i = 0; i < M; ++i)
                if (cs[i]->timed_true + cs[i]->timed_false < cs[i]->T || cs[i]->rounds_done.load() == 0) d += " [" + cs[i]->desc + "]";
            abandon("mixed:hang", d);
        }
        for (auto& c : cs) c->stop = true;
        if (!wait_for(fin_s, expect_s, 15)) abandon("mixed:hang", "try_acquire spinners did not stop");
        for (int i = 0; i < M; ++i)
        {
            MixCase* c = cs[i].get();
            spawn([c, &fin_c] {
                long lim = c->init + c->rel.load() + 5, d = 0;
                while (d < lim && c->sem->try_acquire()) ++d;
                c->leftover = d;
                c->sem->release(1);
                c->probe1 = c->sem->try_acquire();
                c->probe2 = c->sem->try_acquire();
                fin_c.fetch_add(1);
            });
        }
        if (!wait_for(fin_c, M, 15)) abandon("mixed:hang", "quiescent drain/probe did not return");
        for (int i = 0; i < M; ++i)
        {
            MixCase* c = cs[i].get();
            int id = b * M + i;
            long have = c->init + c->rel.load(), a = c->acq.load();
            std::string obs = " observed: released=" + std::to_string(c->rel.load()) + " timed_true=" + std::to_string(c->timed_true.load()) +
                " timed_false=" + std::to_string(c->timed_false.load()) + " try_acquire_true=" + std::to_string(c->spin_got.load()) +
                " leftover=" + std::to_string(c->leftover) + " probe=" + std::to_string((int) c->probe1) + "," + std::to_string((int) c->probe2);
            kase(id, c->desc + obs);
            std::string pre = std::string("mixed:") + mix_kind(c->kind) + ":";
            std::string head = "case=" + std::to_string(id) + " " + c->desc + obs + " — ";
            if (c->bad) hit((pre + "acquired_exceeds_released").c_str(), head + c->baddetail);
            if (a + c->leftover > have)
                hit((pre + "permit_invented").c_str(), head + "successful acquisitions " + std::to_string(a) + " + leftover " + std::to_string(c->leftover) +
                        " > initial + released " + std::to_string(have) + " (an acquire returned true without consuming a permit)");
            else if (a + c->leftover < have)
                hit((pre + "permit_lost").c_str(), head + "successful acquisitions " + std::to_string(a) + " + leftover " + std::to_string(c->leftover) +
                        " < initial + released " + std::to_string(have) + " (a permit was consumed by an acquire that returned false, or lost)");
            if (!c->probe1)
                hit((pre + "count_negative").c_str(), head + "after draining, release(1) did not make try_acquire succeed: the internal count was negative");
            else if (c->probe2)
                hit((pre + "count_too_high").c_str(), head + "after draining and release(1), two try_acquire calls succeeded");
        }
        if (g_hits >= 12) break;    // enough evidence: every further batch would repeat it
    }
}

// ------------------------------------------------------------------------------------ sliding
static void mode_sliding(int n)
{
    Rng rng(g_seed);
    for (int cs = 0; cs < n; ++cs)
    {
        long maxd = (long) rng.below(5), lower0 = (long) rng.below(4);
        int K = 2 + (int) rng.below(7);
        std::vector<std::vector<long>> us(K);
        long maxu = lower0;
        std::string desc = "maxd=" + std::to_string(maxd) + " lower0=" + std::to_string(lower0) + " waits=";
        for (int t = 0; t < K; ++t)
        {
            long u = lower0 + (long) rng.below(4);
            int len = 1 + (int) rng.below(3);
            for (int i = 0; i < len; ++i)
            {
                us[t].push_back(u);
                desc += std::to_string(u) + (i + 1 < len ? "," : "");
                if (u > maxu) maxu = u;
                u += 1 + (long) rng.below(maxd + 3);
            }
            desc += t + 1 < K ? "|" : "";
        }
        std::vector<long> sigs;
        int ns = 1 + (int) rng.below(6);
        desc += " signals=";
        for (int i = 0; i < ns; ++i)
        {
            sigs.push_back((long) rng.below((std::uint64_t) (maxu + 2)));
            desc += std::to_string(sigs.back()) + ",";
        }
        long last = maxu - maxd;    // boundary: exactly enough for the largest upper limit
        sigs.push_back(last);
        desc += std::to_string(last);
        auto sem = std::make_shared<pika::sliding_semaphore>(maxd, lower0);
        // quiescent try_wait before any signal: exact
        {
            std::atomic<int> d{0};
            bool bad = false;
            std::string bd;
            spawn([&] {
                for (long u = lower0 + maxd - 1; u <= lower0 + maxd + 1; ++u)
                {
                    bool r = sem->try_wait(u);
                    if (r != (u - maxd <= lower0)) { bad = true; bd = "try_wait(" + std::to_string(u) + ")=" + std::to_string((int) r) + " lower=" + std::to_string(lower0); }
                }
                d = 1;
            });
            if (!wait_for(d, 1, 10)) { hit("sliding:try_wait_hang", "case=" + std::to_string(cs)); done_exit(true); }
            if (bad) hit("sliding:try_wait_wrong", "case=" + std::to_string(cs) + " " + desc + " " + bd);
        }
        std::atomic<long> sig_max{lower0};
        std::atomic<int> fin{0};
        std::atomic<bool> early{false};
        std::string ed;
        for (int t = 0; t < K; ++t)
            spawn([&, t] {
                for (long u : us[t])
                {
                    sem->wait(u);
                    long m = sig_max.load();
                    if (u - maxd > m && !early.exchange(true))
                        ed = "wait(" + std::to_string(u) + ") returned, max lower signalled so far=" + std::to_string(m);
                }
                fin.fetch_add(1);
            });
        spawn([&] {
            for (long x : sigs)
            {
                long m = sig_max.load();
                while (x > m && !sig_max.compare_exchange_weak(m, x)) {}
                sem->signal(x);
                task_sleep(std::chrono::microseconds(20));
            }
            fin.fetch_add(1);
        });
        kase(cs, desc);
        if (!wait_for(fin, K + 1, 10))
        {
            hit("sliding:waiter_stuck_within_window", "case=" + std::to_string(cs) + " " + desc + " finished=" +
                    std::to_string(fin.load()) + "/" + std::to_string(K + 1) + " (final signal covers every waiter)");
            done_exit(true);
        }
        if (early) hit("sliding:wait_returned_early", "case=" + std::to_string(cs) + " " + desc + " " + ed);
        long lowf = lower0;
        for (long x : sigs) lowf = x > lowf ? x : lowf;
        {
            std::atomic<int> d{0};
            bool bad = false;
            std::string bd;
            spawn([&] {
                for (long u = lowf + maxd - 1; u <= lowf + maxd + 1; ++u)
                {
                    bool r = sem->try_wait(u);
                    if (r != (u - maxd <= lowf)) { bad = true; bd = "try_wait(" + std::to_string(u) + ")=" + std::to_string((int) r) + " lower=" + std::to_string(lowf); }
                }
                d = 1;
            });
            if (!wait_for(d, 1, 10)) { hit("sliding:try_wait_hang", "case=" + std::to_string(cs)); done_exit(true); }
            if (bad) hit("sliding:try_wait_wrong", "case=" + std::to_string(cs) + " " + desc + " " + bd);
        }
    }
}

// ------------------------------------------------------------------------------------ sync_wait
static void mode_syncwait(int n)
{
    Rng rng(g_seed);
    ex::thread_pool_scheduler sched{};
    std::atomic<int> progress{0};
    std::atomic<bool> finished{false};
    std::string bad;
    std::thread driver([&] {
        for (int i = 0; i < n; ++i)
        {
            int form = (int) rng.below(3);
            if (form == 0)
            {
                std::atomic<int> calls{0};
                int v = tt::sync_wait(ex::schedule(sched) | ex::then([&] { ++calls; return 42 + i; }));
                if (v != 42 + i || calls != 1) bad = "main-thread sync_wait i=" + std::to_string(i) + " value=" + std::to_string(v) + " calls=" + std::to_string(calls.load());
            }
            else if (form == 1)
            {
                int v = tt::sync_wait(ex::just(7 + i));
                if (v != 7 + i) bad = "sync_wait(just) i=" + std::to_string(i);
            }
            else
            {
                int const W = 4;
                std::atomic<int> fin{0}, calls{0}, wrong{0};
                for (int w = 0; w < W; ++w)
                    spawn([&, w] {
                        int v = tt::sync_wait(ex::schedule(sched) | ex::then([&] { ++calls; return 100 * w + i; }));
                        if (v != 100 * w + i) ++wrong;
                        fin.fetch_add(1);
                    });
                while (fin.load() < W) std::this_thread::sleep_for(50us);    // watchdog is in main
                if (wrong || calls != W) bad = "task sync_wait i=" + std::to_string(i) + " wrong=" + std::to_string(wrong.load()) + " calls=" + std::to_string(calls.load());
            }
            ++g_cases;
            progress.fetch_add(1);
        }
        finished = true;
    });
    int lastp = -1;
    auto t0 = clk::now();
    while (!finished)
    {
        int p = progress.load();
        if (p != lastp) { lastp = p; t0 = clk::now(); }
        if (clk::now() - t0 > 10s)
        {
            std::printf("CASE syncwait %d in-progress\n", p);
            hit("syncwait:hang", "iteration=" + std::to_string(p) + " sync_wait did not return within 10 s");
            done_exit(true);
        }
        std::this_thread::sleep_for(200us);
    }
    driver.join();
    std::printf("CASE syncwait 0 %d iterations (main-thread / just / 4 concurrent tasks)\n", n);
    if (!bad.empty()) hit("syncwait:wrong_value", bad);
}

// ------------------------------------------------------------------------------------ f14
static int mode_f14()
{
    pika::counting_semaphore<> sem(0);
    std::atomic<bool> released{false}, xdone{false};
    std::atomic<int> xres{-1};
    std::thread X([&] { xres = sem.try_acquire_for(300ms) ? 1 : 0; xdone = true; });
    std::this_thread::sleep_for(50ms);
    std::thread Y([&] { sem.release(1); released = true; });
    for (int i = 0; i < 300 && !(released && xdone); ++i) std::this_thread::sleep_for(10ms);
    ++g_cases;
    std::printf("CASE f14 0 X:try_acquire_for(300ms) Y:release(1)@50ms released_returned=%d x_returned=%d x_result=%d\n",
        (int) released.load(), (int) xdone.load(), xres.load());
    std::fflush(stdout);
    if (!(released && xdone))
    {
        hit("os_timed_acquire:release_deadlock",
            "release() on OS thread Y did not return within 3 s and the timed acquire on OS thread X did not return "
            "(Y inside default_agent::resume holding the semaphore spinlock, X spinning on that lock)");
        done_exit(true);
    }
    X.join();
    Y.join();
    if (xres == 0) hit("timed:false_although_released_before_deadline", "os-threads X:try_acquire_for(300ms) Y:release(1)@50ms returned=0");
    done_exit(false);
    return 0;
}

int main(int argc, char** argv)
{
    g_mode = argc > 1 ? argv[1] : "ledger";
    g_seed = argc > 2 ? std::strtoull(argv[2], nullptr, 10) : 1;
    int n = argc > 3 ? std::atoi(argv[3]) : 100;
    if (g_mode == "f14") return mode_f14();
    char* av[] = {argv[0], (char*) "--pika:threads=4", nullptr};
    int ac = 2;
    pika::start(ac, av);
    if (g_mode == "ledger" || g_mode == "sliding" || g_mode == "syncwait" || g_mode == "mixed")
        pika::verif::hook.store(&perturb, std::memory_order_release);
    if (g_mode == "ledger") mode_ledger(n);
    else if (g_mode == "timed") mode_timed(n);
    else if (g_mode == "mixed") mode_mixed(n);
    else if (g_mode == "sliding") mode_sliding(n);
    else if (g_mode == "syncwait") mode_syncwait(n);
    else { std::printf("HARNESS-ERROR unknown mode\n"); return 3; }
    pika::verif::hook.store(nullptr, std::memory_order_release);
    done_exit(false);
    pika::finalize();
    return pika::stop();
}
