// C03 DIFF harness: builds REAL pika pipelines from term values (s-expressions read from stdin,
// one `IN PIPE <id> <mode> <sexpr>` per line), every stage boxed in unique_any_sender<V>, runs
// them against a counting terminal receiver (or sync_wait / start_detached) and prints
//   OUT PIPE <id> r=<V:..|E:n|S|none|multiK|abort|hang|ret:..|throw:n|released|died>
//   OBS PIPE <id> n=<signals> live=<payloads alive after teardown> bad=<bad ctor/dtor> same=<..>
//            lc/sc=<leaf / scheduler operation states constructed> ls/ss=<alive when the terminal receiver is
//            called> ld/sd=<alive right after the receiver destroyed the operation state (mode rd)>
//            ol=<operation states alive after teardown>   (compared with the ledger of Model/SenderLedger.v)
// Cases run in a forked child so that PIKA_UNREACHABLE / terminate / a hang is an observation.
// `c03_pipe typed` runs the statically typed (un-erased) corpus and prints its own IN lines.
#include "common/c03_util.hpp"

#include <pika/execution.hpp>

#include <csignal>
#include <iostream>
#include <sys/mman.h>
#include <sys/wait.h>
#include <unistd.h>

#include <cstring>
#include <malloc.h>
#include <new>
// poison freed memory (poor man's use-after-free detector for operation states)
void* operator new(std::size_t n)
{
    void* p = std::malloc(n ? n : 1);
    if (!p) throw std::bad_alloc();
    return p;
}
void operator delete(void* p) noexcept
{
    if (p)
    {
        std::memset(p, 0xDD, malloc_usable_size(p));
        std::free(p);
    }
}
void operator delete(void* p, std::size_t) noexcept { operator delete(p); }

using namespace c03;
namespace tt = pika::this_thread::experimental;
using Box = ex::unique_any_sender<V>;

static V concat2(V a, V const& b)
{
    for (auto const& p : b) a.push_back(p);
    return a;
}

// ---------------------------------------------------------------------- interpreter
static Box build(Sx const& x, V const* args);

static std::function<V(V)> mkfn(Sx const& f)
{
    std::string h = f.head();
    if (h == "add")
    {
        long k = f.num(1);
        return [k](V v) { for (auto& p : v) p.v += k; return v; };
    }
    if (h == "thr")
    {
        long e = f.num(1);
        return [e](V) -> V { throw vexn{e}; };
    }
    if (h == "thrif")
    {
        long m = f.num(1), e = f.num(2);
        return [m, e](V v) -> V {
            if (sumV(v) % m == 0) throw vexn{e};
            for (auto& p : v) p.v += 1;
            return v;
        };
    }
    if (h == "sum") return [](V v) { long s = sumV(v); V r; r.emplace_back(s); return r; };
    if (h == "rev") return [](V v) { V r(v.rbegin(), v.rend()); return r; };
    std::fprintf(stderr, "bad fn %s\n", h.c_str());
    std::exit(4);
}

static hsched mksched(Sx const& x, size_t& i)
{
    hsched s;
    std::string k = x.kids.at(i++).atom;    // o | e | s, optionally prefixed with 'a' for async
    if (k[0] == 'a') { s.async = true; k = k.substr(1); }
    if (k == "o") s.kind = VAL;
    else if (k == "e") { s.kind = ERR; s.e = x.num(i++); }
    else s.kind = STP;
    return s;
}

static Box build(Sx const& x, V const* args)
{
    std::string const& h = x.head();
    if (h == "J" || h == "E" || h == "S" || h == "A")
    {
        leaf l;
        l.async = x.kids.at(1).atom == "a";
        if (h == "J")
        {
            l.chan = VAL;
            std::vector<long> xs;
            for (size_t i = 2; i < x.kids.size(); ++i) xs.push_back(x.num(i));
            l.vals = mkV(xs);
        }
        else if (h == "A")
        {
            l.chan = VAL;
            if (args) l.vals = *args;
        }
        else if (h == "E") { l.chan = ERR; l.e = x.num(2); }
        else l.chan = STP;
        return Box(std::move(l));
    }
    if (h == "SC")
    {
        size_t i = 1;
        hsched s = mksched(x, i);
        return Box(ex::schedule(s) | ex::then([] { return V{}; }));
    }
    if (h == "T") return Box(build(x.kids.at(2), args) | ex::then(mkfn(x.kids.at(1))));
    if (h == "LV")
    {
        Sx k = x.kids.at(1);
        return Box(build(x.kids.at(2), args) | ex::let_value([k](V& v) -> Box {
            if (k.head() == "kthr") throw vexn{k.num(1)};
            return build(k.kids.at(1 + (size_t) (((sumV(v) % 2) + 2) % 2)), &v);
        }));
    }
    if (h == "LE")
    {
        Sx k = x.kids.at(1);
        return Box(build(x.kids.at(2), args) | ex::let_error([k](std::exception_ptr& ep) -> Box {
            long e = exn_id(ep);
            if (k.head() == "kthr") throw vexn{k.num(1)};
            V a;
            a.emplace_back(e);
            return build(k.kids.at(1 + (size_t) (((e % 2) + 2) % 2)), &a);
        }));
    }
    if (h == "WA")
    {
        std::vector<Box> c;
        for (size_t i = 1; i < x.kids.size(); ++i) c.push_back(build(x.kids[i], args));
        switch (c.size())
        {
        case 1: return Box(ex::when_all(std::move(c[0])));
        case 2:
            return Box(ex::when_all(std::move(c[0]), std::move(c[1])) |
                ex::then([](V a, V b) { return concat2(std::move(a), b); }));
        case 3:
            return Box(ex::when_all(std::move(c[0]), std::move(c[1]), std::move(c[2])) |
                ex::then([](V a, V b, V d) { return concat2(concat2(std::move(a), b), d); }));
        case 4:
            return Box(
                ex::when_all(std::move(c[0]), std::move(c[1]), std::move(c[2]), std::move(c[3])) |
                ex::then([](V a, V b, V d, V e) {
                    return concat2(concat2(concat2(std::move(a), b), d), e);
                }));
        default: std::fprintf(stderr, "when_all arity\n"); std::exit(4);
        }
    }
    if (h == "WV")
    {
        std::vector<Box> c;
        for (size_t i = 1; i < x.kids.size(); ++i) c.push_back(build(x.kids[i], args));
        return Box(ex::when_all_vector(std::move(c)) | ex::then([](std::vector<V> vv) {
            V r;
            for (auto const& v : vv) r = concat2(std::move(r), v);
            return r;
        }));
    }
    if (h == "SP")
    {
        long n = x.num(1);
        auto sp = ex::split(build(x.kids.at(2), args));
        std::vector<Box> c;
        for (long i = 0; i < n; ++i) c.emplace_back(sp | ex::then([](V const& v) { return V(v); }));
        return Box(ex::when_all_vector(std::move(c)) | ex::then([](std::vector<V> vv) {
            V r;
            for (auto const& v : vv) r = concat2(std::move(r), v);
            return r;
        }));
    }
    if (h == "ST")
    {
        auto [s0, s1] = ex::split_tuple(build(x.kids.at(1), args) | ex::then([](V v) {
            size_t hlf = v.size() / 2;
            return std::tuple<V, V>(V(v.begin(), v.begin() + hlf), V(v.begin() + hlf, v.end()));
        }));
        return Box(ex::when_all(std::move(s0), std::move(s1)) |
            ex::then([](V a, V b) { return concat2(std::move(a), b); }));
    }
    if (h == "ES") return Box(ex::ensure_started(build(x.kids.at(1), args)));
    if (h == "DV") return Box(ex::drop_value(build(x.kids.at(1), args)) | ex::then([] { return V{}; }));
    if (h == "DO") return Box(ex::drop_operation_state(build(x.kids.at(1), args)));
    if (h == "RS") return Box(ex::require_started(build(x.kids.at(1), args)));
    if (h == "UN")
        return Box(build(x.kids.at(1), args) |
            ex::then([](V v) { return std::tuple<V>(std::move(v)); }) | ex::unpack());
    if (h == "CO")
    {
        size_t i = 1;
        hsched s = mksched(x, i);
        return Box(ex::continues_on(build(x.kids.at(i), args), s));
    }
    if (h == "BK")
    {
        long n = x.num(1);
        Sx bf = x.kids.at(2);
        long at = bf.head() == "at" ? bf.num(1) : -1, e = bf.head() == "at" ? bf.num(2) : 0;
        return Box(build(x.kids.at(3), args) | ex::bulk(n, [at, e](long i, V&) {
            if (i == at) throw vexn{e};
        }));
    }
    if (h == "ER") return Box(build(x.kids.at(1), args));
    std::fprintf(stderr, "bad term head '%s'\n", h.c_str());
    std::exit(4);
}

// ---------------------------------------------------------------------- running one case
struct CaseOut
{
    std::string r;
    int n = 0;
    long live = 0, bad = 0;
    int same = -1;
};

template <class Rcv = term_rcv, class Sender>
static void run_terminal(Sender&& s, CaseOut& co)
{
    Obs o;
    {
        auto os = ex::connect(std::forward<Sender>(s), Rcv{&o});
        ex::start(os);
        g_comp.wait_idle();
    }
    co.r = o.result();
    co.n = o.n.load();
    co.same = o.same;
}

// mode rd: the operation state lives on the heap and is destroyed from inside the terminal
// receiver (what start_detached does; allowed by the sender contract: after a completion signal
// the state may be gone).  Freed memory is poisoned (operator delete below), so an adaptor that
// touches its operation state after signalling reads garbage instead of getting away with it.
template <class Rcv = term_rcv, class Sender>
static void run_terminal_destroy(Sender&& s, CaseOut& co)
{
    Obs o;
    using OS = decltype(ex::connect(std::forward<Sender>(s), Rcv{&o}));
    OS* os = new OS(pika::detail::with_result_of([&] { return ex::connect(std::forward<Sender>(s), Rcv{&o}); }));
    o.on_first = [os] { delete os; };
    ex::start(*os);
    g_comp.wait_idle();
    if (o.n.load() == 0) delete os;
    co.r = o.result();
    co.n = o.n.load();
    co.same = o.same;
}

static void finish_case(char const* id, CaseOut& co)
{
    g_comp.wait_idle();
    {
        std::lock_guard l(g_ep_m);
        g_leaf_eps.clear();
    }
    co.live = g_led.live();
    co.bad = g_led.bad.load();
    std::printf("OUT PIPE %s r=%s\nOBS PIPE %s n=%d live=%ld bad=%ld same=%d lc=%ld sc=%ld ls=%ld ss=%ld ld=%ld sd=%ld ol=%ld\n",
        id, co.r.c_str(), id, co.n, co.live, co.bad, co.same, g_ops.leaf_c.load(), g_ops.sched_c.load(), g_ops.sig_leaf,
        g_ops.sig_sched, g_ops.del_leaf, g_ops.del_sched, g_ops.leaf_live() + g_ops.sched_live());
    std::fflush(stdout);
}

static void run_case(std::string const& id, std::string const& mode, std::string const& sx)
{
    g_led.reset();
    g_ops.reset();
    CaseOut co;
    {
        Sx x = parse_sx(sx);
        if (mode == "run") { run_terminal(build(x, nullptr), co); }
        else if (mode == "rd") { run_terminal_destroy(build(x, nullptr), co); }
        else if (mode == "sw")
        {
            try
            {
                V v = tt::sync_wait(build(x, nullptr));
                std::ostringstream o;
                o << "ret:";
                for (size_t i = 0; i < v.size(); ++i) o << (i ? "," : "") << v[i].v;
                co.r = o.str();
            }
            catch (vexn const& e)
            {
                co.r = "throw:" + std::to_string(e.id);
            }
            catch (...)
            {
                co.r = "throw:-1";
            }
            co.n = 1;
        }
        else if (mode == "sd")
        {
            ex::start_detached(build(x, nullptr));
            g_comp.wait_idle();
            co.r = "released";
            co.n = 1;
        }
    }
    finish_case(id.c_str(), co);
}

// ---------------------------------------------------------------------- typed (un-erased) corpus
struct TypedCase
{
    char const* sx;
    std::function<void(CaseOut&)> run;
};
static leaf L(int chan, std::vector<long> xs = {}, long e = 0, bool async = false)
{
    leaf l;
    l.chan = chan;
    l.vals = mkV(xs);
    l.e = e;
    l.async = async;
    return l;
}
static auto inc = [](V v) { for (auto& p : v) p.v += 1; return v; };
static auto flat = [](std::vector<V> vv) { V r; for (auto const& v : vv) r = concat2(std::move(r), v); return r; };

static std::vector<TypedCase> typed_cases()
{
    std::vector<TypedCase> t;
    t.push_back({"(T (add 1) (S i))", [](CaseOut& co) { run_terminal(L(STP) | ex::then(inc), co); }});
    t.push_back({"(T (add 1) (J i 1 2))", [](CaseOut& co) { run_terminal(L(VAL, {1, 2}) | ex::then(inc), co); }});
    t.push_back({"(T (thr 201) (J i 1 2))",
        [](CaseOut& co) { run_terminal(L(VAL, {1, 2}) | ex::then([](V) -> V { throw vexn{201}; }), co); }});
    t.push_back({"(WV (S i) (S i))", [](CaseOut& co) {
                     std::vector<leaf> v;
                     v.push_back(L(STP));
                     v.push_back(L(STP));
                     run_terminal(ex::when_all_vector(std::move(v)) | ex::then(flat), co);
                 }});
    t.push_back({"(WV (T (add 1) (S i)) (T (add 1) (J i 4)))", [](CaseOut& co) {
                     auto mk = [](leaf l) { return std::move(l) | ex::then(inc); };
                     std::vector<decltype(mk(L(STP)))> v;
                     v.push_back(mk(L(STP)));
                     v.push_back(mk(L(VAL, {4})));
                     run_terminal(ex::when_all_vector(std::move(v)) | ex::then(flat), co);
                 }});
    t.push_back({"(WV (ER (S i)) (ER (J i 3)))", [](CaseOut& co) {
                     std::vector<Box> v;
                     v.emplace_back(L(STP));
                     v.emplace_back(L(VAL, {3}));
                     run_terminal(ex::when_all_vector(std::move(v)) | ex::then(flat), co);
                 }});
    t.push_back({"(WV (J i 1) (J a 2) (J i 3))", [](CaseOut& co) {
                     std::vector<leaf> v;
                     v.push_back(L(VAL, {1}));
                     v.push_back(L(VAL, {2}, 0, true));
                     v.push_back(L(VAL, {3}));
                     run_terminal(ex::when_all_vector(std::move(v)) | ex::then(flat), co);
                 }});
    t.push_back({"(WA (T (add 1) (S i)) (J i 3))", [](CaseOut& co) {
                     run_terminal(ex::when_all(L(STP) | ex::then(inc), L(VAL, {3})) |
                             ex::then([](V a, V b) { return concat2(std::move(a), b); }),
                         co);
                 }});
    t.push_back({"(WA (J i 1) (E i 105) (S i))", [](CaseOut& co) {
                     run_terminal(ex::when_all(L(VAL, {1}), L(ERR, {}, 105), L(STP)) |
                             ex::then([](V a, V b, V c) { return concat2(concat2(std::move(a), b), c); }),
                         co);
                 }});
    t.push_back({"(WA (J i 1) (S i) (E i 105))", [](CaseOut& co) {
                     run_terminal(ex::when_all(L(VAL, {1}), L(STP), L(ERR, {}, 105)) |
                             ex::then([](V a, V b, V c) { return concat2(concat2(std::move(a), b), c); }),
                         co);
                 }});
    t.push_back({"(SP 1 (S i))", [](CaseOut& co) { run_terminal<term_rcv_any>(ex::split(L(STP)), co); }});
    t.push_back({"(SP 1 (J i 7 8))",
        [](CaseOut& co) { run_terminal<term_rcv_any>(ex::split(L(VAL, {7, 8})), co); }});
    t.push_back({"(SP 1 (E a 106))",
        [](CaseOut& co) { run_terminal<term_rcv_any>(ex::split(L(ERR, {}, 106, true)), co); }});
    t.push_back({"(SP 2 (T (add 1) (S i)))", [](CaseOut& co) {
                     auto sp = ex::split(L(STP) | ex::then(inc));
                     auto c = [](V const& v) { return V(v); };
                     run_terminal(ex::when_all(sp | ex::then(c), sp | ex::then(c)) |
                             ex::then([](V a, V b) { return concat2(std::move(a), b); }),
                         co);
                 }});
    t.push_back({"(ES (S i))", [](CaseOut& co) { run_terminal<term_rcv_any>(ex::ensure_started(L(STP)), co); }});
    t.push_back({"(ES (J a 5))",
        [](CaseOut& co) { run_terminal<term_rcv_any>(ex::ensure_started(L(VAL, {5}, 0, true)), co); }});
    t.push_back({"(ST (J i 1 2 3 4))", [](CaseOut& co) {
                     auto [a, b] = ex::split_tuple(L(VAL, {1, 2, 3, 4}) | ex::then([](V v) {
                         return std::tuple<V, V>(V(v.begin(), v.begin() + 2), V(v.begin() + 2, v.end()));
                     }));
                     run_terminal(ex::when_all(std::move(a), std::move(b)) |
                             ex::then([](V x, V y) { return concat2(std::move(x), y); }),
                         co);
                 }});
    t.push_back({"(ST (S i))", [](CaseOut& co) {
                     auto pre = L(STP) | ex::then([](V v) { return std::tuple<V, V>(v, v); });
                     auto [a, b] = ex::split_tuple(std::move(pre));
                     run_terminal(ex::when_all(std::move(a), std::move(b)) |
                             ex::then([](V x, V y) { return concat2(std::move(x), y); }),
                         co);
                 }});
    t.push_back({"(ST (E i 107))", [](CaseOut& co) {
                     auto pre = L(ERR, {}, 107) | ex::then([](V v) { return std::tuple<V, V>(v, v); });
                     auto [a, b] = ex::split_tuple(std::move(pre));
                     run_terminal(ex::when_all(std::move(a), std::move(b)) |
                             ex::then([](V x, V y) { return concat2(std::move(x), y); }),
                         co);
                 }});
    t.push_back({"(LV (ksel (A i) (E i 108)) (S i))", [](CaseOut& co) {
                     run_terminal(L(STP) | ex::let_value([](V& v) { return L(VAL); }), co);
                 }});
    t.push_back({"(LV (kthr 202) (J i 1))", [](CaseOut& co) {
                     run_terminal(L(VAL, {1}) | ex::let_value([](V&) -> leaf { throw vexn{202}; }), co);
                 }});
    t.push_back({"(LE (ksel (J i 9) (J i 9)) (E i 109))", [](CaseOut& co) {
                     run_terminal(L(ERR, {}, 109) | ex::let_error([](std::exception_ptr&) { return L(VAL, {9}); }), co);
                 }});
    t.push_back({"(CO o (J i 1 2))", [](CaseOut& co) { run_terminal<term_rcv_any>(ex::continues_on(L(VAL, {1, 2}), hsched{}), co); }});
    t.push_back({"(CO s (J i 1 2))", [](CaseOut& co) { run_terminal<term_rcv_any>(ex::continues_on(L(VAL, {1, 2}), hsched{STP, 0, false}), co); }});
    t.push_back({"(CO ae 301 (J a 1 2))", [](CaseOut& co) { run_terminal<term_rcv_any>(ex::continues_on(L(VAL, {1, 2}, 0, true), hsched{ERR, 301, true}), co); }});
    t.push_back({"(BK 3 (at 1 203) (J i 1))", [](CaseOut& co) {
                     run_terminal<term_rcv_any>(
                         L(VAL, {1}) | ex::bulk(3, [](long i, V&) { if (i == 1) throw vexn{203}; }), co);
                 }});
    t.push_back({"(DO (DV (J i 1 2)))", [](CaseOut& co) {
                     run_terminal(ex::drop_operation_state(ex::drop_value(L(VAL, {1, 2})) | ex::then([] { return V{}; })), co);
                 }});
    return t;
}

// ---------------------------------------------------------------------- process management
struct Job
{
    std::string id, mode, sx;
    std::function<void(CaseOut&)> typed;
};

int main(int argc, char** argv)
{
    std::vector<Job> jobs;
    bool typed = argc > 1 && std::string(argv[1]) == "typed";
    if (typed)
    {
        auto tc = typed_cases();
        int k = 0;
        for (auto& c : tc)
        {
            Job j;
            j.id = "t" + std::to_string(k++);
            j.mode = "run";
            j.sx = c.sx;
            j.typed = c.run;
            std::printf("IN PIPE %s run %s\n", j.id.c_str(), j.sx.c_str());
            jobs.push_back(std::move(j));
        }
        std::fflush(stdout);
    }
    else
    {
        std::string line;
        while (std::getline(std::cin, line))
        {
            if (line.rfind("IN PIPE ", 0) != 0) continue;
            std::istringstream is(line.substr(8));
            Job j;
            is >> j.id >> j.mode;
            std::getline(is, j.sx);
            jobs.push_back(std::move(j));
        }
    }
    int* cur = (int*) mmap(nullptr, sizeof(int), PROT_READ | PROT_WRITE, MAP_SHARED | MAP_ANONYMOUS, -1, 0);
    *cur = 0;
    size_t next = 0;
    int deaths = 0;
    while (next < jobs.size())
    {
        std::fflush(stdout);
        pid_t pid = fork();
        if (pid == 0)
        {
            // keep the abort message of PIKA_UNREACHABLE out of the way
            if (!std::getenv("C03_KEEP_STDERR")) { (void) !freopen("/dev/null", "w", stderr); }
            for (size_t i = next; i < jobs.size(); ++i)
            {
                *cur = (int) i;
                alarm(8);
                if (jobs[i].typed)
                {
                    g_led.reset();
                    g_ops.reset();
                    CaseOut co;
                    jobs[i].typed(co);
                    finish_case(jobs[i].id.c_str(), co);
                }
                else
                    run_case(jobs[i].id, jobs[i].mode, jobs[i].sx);
            }
            alarm(0);
            g_comp.shutdown();
            std::fflush(stdout);
            _exit(0);
        }
        int st = 0;
        waitpid(pid, &st, 0);
        if (WIFEXITED(st) && WEXITSTATUS(st) == 0) break;
        size_t i = (size_t) *cur;
        char const* what = "abort";
        if (WIFSIGNALED(st) && WTERMSIG(st) == SIGALRM) what = "hang";
        else if (WIFSIGNALED(st) && WTERMSIG(st) == SIGSEGV) what = "segv";
        else if (WIFEXITED(st)) what = "exit";
        if (jobs[i].mode == "sd" && std::string(what) == "abort") what = "died";
        std::printf("OUT PIPE %s r=%s\nOBS PIPE %s n=0 live=0 bad=0 same=-1\n", jobs[i].id.c_str(), what,
            jobs[i].id.c_str());
        std::fflush(stdout);
        next = i + 1;
        // the failing-input search has succeeded many times over: do not spend minutes on more
        // immediate aborts of sync_wait / start_detached cases are cheap (and include the known F18): only
        // hangs and deaths of plain pipelines count against the budget
        if ((std::string(what) == "hang" || jobs[i].mode == "run" || jobs[i].mode == "rd") && ++deaths >= 12)
        {
            std::printf("SKIPPED PIPE %zu cases after %d abnormal terminations\n", jobs.size() - next, deaths);
            std::fflush(stdout);
            break;
        }
    }
    return 0;
}
