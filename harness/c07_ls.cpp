// C07 LOCKSTEP harness: the real pika::detail::condition_variable (wait / notify_one / notify_all, no
// timeouts) under its spinlock on plain std::threads, using the default-agent lock-step support
// (hooks 9001..9005).  Schedulable points: 700 (start of every operation, issued by this harness),
// 9001 (inside default_agent::suspend, the waiter has pushed its entry and released the lock), 701 (suspend
// returned, before the lock is taken again).  One critical section of the internal lock = one atomic step.
// The extracted model (Model/CondVar.v, OS-thread agent instance) replays the schedule and predicts after
// every step where every thread is: finished / blocked (in suspend, or in default_agent::resume waiting for
// its target to stop running) / parked at which point — i.e. which waiter each notify wakes — and every
// return value.  When everything is blocked (a genuine stuck state of the real code) the controller issues
// a notify_all itself (thread id T in the schedule).
#include "common/ctl.hpp"

#include <pika/concurrency/spinlock.hpp>
#include <pika/synchronization/detail/condition_variable.hpp>

#include <mutex>
#include <sstream>
#include <string>
#include <thread>
#include <unistd.h>
#include <vector>

using spinlock = pika::concurrency::detail::spinlock;

static std::uint64_t mix_seed(std::uint64_t z)
{
    z = (z ^ (z >> 30)) * 0xBF58476D1CE4E5B9ull + 0x632BE59BD9B4E019ull;
    z = (z ^ (z >> 27)) * 0x94D049BB133111EBull;
    return z ^ (z >> 31);
}

int main(int argc, char** argv)
{
    std::uint64_t seed = argc > 1 ? std::strtoull(argv[1], nullptr, 10) : 1;
    int ncases = argc > 2 ? std::atoi(argv[2]) : 100;
    vctl::Rng rng(mix_seed(seed));
    for (int cs = 0; cs < ncases; ++cs)
    {
        int T = 2 + (int) rng.below(4);
        std::vector<std::string> progs(T);
        for (auto& p : progs)
        {
            int n = 1 + (int) rng.below(4);
            int mode = (int) rng.below(4);    // mostly waiter / mostly notifier / mixed
            for (int i = 0; i < n; ++i)
            {
                unsigned r = (unsigned) rng.below(8);
                char c = mode == 0 ? 'W' : mode == 1 ? (r < 5 ? '1' : 'A') : (r < 4 ? 'W' : r < 7 ? '1' : 'A');
                p.push_back(c);
            }
        }
        spinlock mtx;
        auto cv = std::make_unique<pika::detail::condition_variable>();
        std::vector<std::string> res(T);
        std::ostringstream in, out;
        bool hang = false;
        std::vector<int> sched;
        std::vector<std::string> views;
        {
            vctl::Controller ctl(T, 700, 701);
            std::vector<std::thread> th;
            for (int t = 0; t < T; ++t)
                th.emplace_back([&, t] {
                    ctl.begin(t);
                    for (char c : progs[t])
                    {
                        PIKA_VERIF_POINT(700, cv.get(), (std::uint64_t) c, 0);
                        std::unique_lock<spinlock> l(mtx);
                        if (c == 'W')
                        {
                            auto r = cv->wait(l);
                            res[t].push_back(r == pika::threads::detail::thread_restart_state::signaled ? 'S' : 'T');
                        }
                        else if (c == '1') cv->notify_one(std::move(l));
                        else cv->notify_all(std::move(l));
                    }
                    ctl.end();
                });
            auto view = [&] {
                std::string v;
                std::lock_guard g(ctl.m);
                for (auto& x : ctl.s)
                {
                    if (x.st == vctl::DONE) v.push_back('0');
                    else if (x.st == vctl::BLOCKED) v.push_back('1');
                    else if (x.st == vctl::PARKED) v.push_back(x.site == 700 ? '3' : x.site == 9001 ? '4' : x.site == 701 ? '5' : '?');
                    else v.push_back('2');
                }
                return v;
            };
            if (!ctl.quiesce()) { std::printf("HARNESS-ERROR quiesce-start case=%d\n", cs); std::fflush(stdout); _exit(3); }
            ctl.release_all_parked();    // leave the START point: every thread runs to its first 700
            if (!ctl.quiesce()) { std::printf("HARNESS-ERROR quiesce-start2 case=%d\n", cs); std::fflush(stdout); _exit(3); }
            views.push_back(view());
            for (int step = 0;; ++step)
            {
                auto p = ctl.parked();
                auto b = ctl.blocked();
                if (p.empty() && b.empty()) break;
                if (step > 400) { hang = true; break; }
                int t;
                if (p.empty())
                {
                    // genuine stuck state of the real code: everybody is blocked.  The controller notifies all.
                    t = T;
                    std::unique_lock<spinlock> l(mtx);
                    cv->notify_all(std::move(l));
                }
                else
                {
                    // while a notifier sits in default_agent::resume (holding the internal lock) only threads
                    // that do not need that lock may be released: those about to suspend
                    bool in_resume = false;
                    {
                        std::lock_guard g(ctl.m);
                        for (auto& x : ctl.s)
                            if (x.st == vctl::BLOCKED && x.waiting_on != nullptr) in_resume = true;
                    }
                    std::vector<int> cand;
                    for (int x : p)
                        if (!in_resume || ctl.site_of(x) == 9001) cand.push_back(x);
                    if (cand.empty()) { hang = true; break; }
                    t = cand[rng.below(cand.size())];
                    ctl.release(t);
                }
                sched.push_back(t);
                if (!ctl.quiesce(8000)) { hang = true; break; }
                views.push_back(view());
            }
            in << "IN CV " << cs << " " << T;
            for (auto& p : progs) in << " " << p;
            in << " ";
            for (size_t i = 0; i < sched.size(); ++i) in << (i ? "," : "") << sched[i];
            if (sched.empty()) in << "-";
            out << "OUT CV " << cs << " views=";
            for (size_t i = 0; i < views.size(); ++i) out << (i ? ";" : "") << views[i];
            out << " res=";
            for (int t = 0; t < T; ++t) out << (t ? "|" : "") << res[t];
            if (hang) out << " hang=1";
            std::printf("%s\n%s\n", in.str().c_str(), out.str().c_str());
            std::fflush(stdout);
            if (hang) _exit(0);
            for (auto& x : th) x.join();
        }
    }
    return 0;
}
