// harness/c12_swap.cpp — C12: the REAL context-switch routine (swapcontext_stack from libpika.so,
// assembled from swapcontext64.ipp) and the REAL x86_linux_context_impl (init, rebind_stack,
// reset_stack, swap_context) driven directly, without the runtime.
//
//   SW cases: a probe written in assembly loads a random register file ("context A"), calls the
//     routine towards a hand-made frame ("context B") whose start address is a second probe that
//     records every register, loads another random register file and switches back.  Printed:
//     IN SW  (inputs for the extracted machine model)  /  OUT SW (registers at B's entry, at A's
//     return, memory probes, MXCSR / x87 control word seen by A afterwards).
//   FE cases: x86_linux_context_impl<coro>::init() / rebind_stack() build the frame; the frame words
//     are read back and the context is entered through swap_context: IN FE / OUT FE.
//   CX cases: several coroutines of different stack sizes (guard pages on/off) interleaved by a
//     random schedule; canaries at several call depths, callee-saved registers across yields
//     (c12_regcheck), usable stack size, disjoint stacks, recycling by reset_stack + rebind_stack.
//     OUT CX lines are evaluated by the monitor in tools/props/c12.py.
//
// usage: c12_swap <seed> <n_sw> <n_cx>      (cases run in forked batches: a crash of the real code
// turns into an "OUT CRASH" line, not a crashed check)
#include <pika/config.hpp>
#include <pika/coroutines/detail/context_linux_x86.hpp>

#include <common/c12_util.hpp>

#include <csignal>
#include <cstring>
#include <cstdint>
#include <cstdio>
#include <cstdlib>
#include <sys/mman.h>
#include <sys/wait.h>
#include <unistd.h>
#include <vector>

namespace lx = pika::threads::coroutines::detail::lx;
namespace cd = pika::threads::coroutines::detail;

// ------------------------------------------------------------------ SW probes (assembly)
extern "C" {
std::uint64_t c12_a_in[16], c12_a_out[16], c12_b_in[16], c12_b_out[16];
std::uint64_t c12_fn, c12_c_rsp, c12_cell_a_addr, c12_b_reached, c12_a_returned;
std::uint32_t c12_mx_a, c12_mx_b, c12_mx_out, c12_mx_c;
std::uint16_t c12_cw_a, c12_cw_b, c12_cw_out, c12_cw_c;
void c12_probe();
extern char c12_retA[], c12_entryB[], c12_retB[];
}

// register order = Model/Ctx.v all_regs: rax rbx rcx rdx rsi rdi rbp rsp r8 .. r15
asm(R"(
    .text
    .p2align 4
    .globl c12_probe
    .type c12_probe, @function
c12_probe:
    pushq %rbp
    pushq %rbx
    pushq %r12
    pushq %r13
    pushq %r14
    pushq %r15
    stmxcsr c12_mx_c(%rip)
    fnstcw  c12_cw_c(%rip)
    movq %rsp, c12_c_rsp(%rip)
    ldmxcsr c12_mx_a(%rip)
    fldcw   c12_cw_a(%rip)
    movq c12_a_in+0(%rip), %rax
    movq c12_a_in+8(%rip), %rbx
    movq c12_a_in+16(%rip), %rcx
    movq c12_a_in+24(%rip), %rdx
    movq c12_a_in+32(%rip), %rsi
    movq c12_a_in+40(%rip), %rdi
    movq c12_a_in+48(%rip), %rbp
    movq c12_a_in+64(%rip), %r8
    movq c12_a_in+72(%rip), %r9
    movq c12_a_in+80(%rip), %r10
    movq c12_a_in+88(%rip), %r11
    movq c12_a_in+96(%rip), %r12
    movq c12_a_in+104(%rip), %r13
    movq c12_a_in+112(%rip), %r14
    movq c12_a_in+120(%rip), %r15
    movq c12_a_in+56(%rip), %rsp
    call *c12_fn(%rip)
    .globl c12_retA
c12_retA:
    movq %rax, c12_a_out+0(%rip)
    movq %rbx, c12_a_out+8(%rip)
    movq %rcx, c12_a_out+16(%rip)
    movq %rdx, c12_a_out+24(%rip)
    movq %rsi, c12_a_out+32(%rip)
    movq %rdi, c12_a_out+40(%rip)
    movq %rbp, c12_a_out+48(%rip)
    movq %rsp, c12_a_out+56(%rip)
    movq %r8, c12_a_out+64(%rip)
    movq %r9, c12_a_out+72(%rip)
    movq %r10, c12_a_out+80(%rip)
    movq %r11, c12_a_out+88(%rip)
    movq %r12, c12_a_out+96(%rip)
    movq %r13, c12_a_out+104(%rip)
    movq %r14, c12_a_out+112(%rip)
    movq %r15, c12_a_out+120(%rip)
    stmxcsr c12_mx_out(%rip)
    fnstcw  c12_cw_out(%rip)
    ldmxcsr c12_mx_c(%rip)
    fldcw   c12_cw_c(%rip)
    movq $1, c12_a_returned(%rip)
    movq c12_c_rsp(%rip), %rsp
    popq %r15
    popq %r14
    popq %r13
    popq %r12
    popq %rbx
    popq %rbp
    ret
    .globl c12_entryB
c12_entryB:
    movq %rax, c12_b_out+0(%rip)
    movq %rbx, c12_b_out+8(%rip)
    movq %rcx, c12_b_out+16(%rip)
    movq %rdx, c12_b_out+24(%rip)
    movq %rsi, c12_b_out+32(%rip)
    movq %rdi, c12_b_out+40(%rip)
    movq %rbp, c12_b_out+48(%rip)
    movq %rsp, c12_b_out+56(%rip)
    movq %r8, c12_b_out+64(%rip)
    movq %r9, c12_b_out+72(%rip)
    movq %r10, c12_b_out+80(%rip)
    movq %r11, c12_b_out+88(%rip)
    movq %r12, c12_b_out+96(%rip)
    movq %r13, c12_b_out+104(%rip)
    movq %r14, c12_b_out+112(%rip)
    movq %r15, c12_b_out+120(%rip)
    movq $1, c12_b_reached(%rip)
    ldmxcsr c12_mx_b(%rip)
    fldcw   c12_cw_b(%rip)
    movq c12_b_in+0(%rip), %rax
    movq c12_b_in+8(%rip), %rbx
    movq c12_b_in+16(%rip), %rcx
    movq c12_b_in+24(%rip), %rdx
    movq c12_b_in+40(%rip), %rdi
    movq c12_b_in+48(%rip), %rbp
    movq c12_b_in+64(%rip), %r8
    movq c12_b_in+72(%rip), %r9
    movq c12_b_in+80(%rip), %r10
    movq c12_b_in+88(%rip), %r11
    movq c12_b_in+96(%rip), %r12
    movq c12_b_in+104(%rip), %r13
    movq c12_b_in+112(%rip), %r14
    movq c12_b_in+120(%rip), %r15
    movq c12_b_in+56(%rip), %rsp
    movq c12_cell_a_addr(%rip), %rsi
    movq (%rsi), %rsi
    call *c12_fn(%rip)
    .globl c12_retB
c12_retB:
    ud2
    .size c12_probe, .-c12_probe
)");

static constexpr std::uintptr_t ARENA = 0x7e0000000000ull;
static constexpr std::size_t ARENA_SIZE = 1u << 20;
static std::uint64_t* arena;    // word view

static std::uint64_t& word(std::uintptr_t addr) { return *reinterpret_cast<std::uint64_t*>(addr); }

static void hexlist(std::uint64_t const* v, int n)
{
    for (int i = 0; i < n; ++i) std::printf("%s%lx", i ? "," : "", (unsigned long) v[i]);
}

static void sw_case(long id, c12::Rng& rng, bool second_routine)
{
    static std::uint32_t const MX[] = {0x1F80, 0x3F80, 0x5F80, 0x7F80, 0x9F80, 0x1FC0};
    static std::uint16_t const CW[] = {0x037F, 0x077F, 0x0B7F, 0x0F7F, 0x027F};
    // layout inside the arena: A stack [0x10000,0x20000), B stack [0x30000,0x40000),
    // B frame area [0x50000,0x60000), cells at 0x70000..
    std::uintptr_t rspA = ARENA + 0x20000 - 8 * (16 + rng.below(200));
    std::uintptr_t rspB = ARENA + 0x40000 - 8 * (16 + rng.below(200));
    std::uintptr_t bsp = ARENA + 0x50000 + 8 * rng.below(1000);
    std::uintptr_t cellA = ARENA + 0x70000 + 8 * rng.below(64);
    std::uintptr_t cellB = ARENA + 0x71000 + 8 * rng.below(64);
    bool small = rng.below(4) == 0;    // small values make coincidences likely
    for (int i = 0; i < 16; ++i)
    {
        c12_a_in[i] = small ? rng.below(4) : rng.next();
        c12_b_in[i] = small ? rng.below(4) : rng.next();
    }
    c12_a_in[7] = rspA;
    c12_a_in[5] = cellA;
    c12_a_in[4] = bsp;
    c12_b_in[7] = rspB;
    c12_b_in[5] = cellB;
    c12_b_in[4] = 0;    // replaced by *cellA in the probe (and in the model)
    for (std::uintptr_t a = rspA - 96; a < rspA + 160; a += 8) word(a) = rng.next();
    for (std::uintptr_t a = rspB - 96; a < rspB + 32; a += 8) word(a) = rng.next();
    for (int i = 0; i < 12; ++i) word(bsp + 8 * i) = small ? rng.below(4) : rng.next();
    word(bsp + 64) = reinterpret_cast<std::uintptr_t>(c12_entryB);
    word(cellA) = rng.next();
    word(cellB) = rng.next();
    c12_mx_a = MX[rng.below(6)];
    c12_mx_b = MX[rng.below(6)];
    c12_cw_a = CW[rng.below(5)];
    c12_cw_b = CW[rng.below(5)];
    if (id == 1)
    {
        // replay of the witness of C12_fp_control_preserved_refuted (same register contents and FP
        // control words; the addresses are this process's): A runs with MXCSR 0x5F80 / CW 0x0B7F
        // (round towards +inf), the context that resumes it with 0x1F80 / 0x037F
        static std::uint64_t const WA[16] = {0, 11, 0, 0, 0, 0, 12, 0, 0, 0, 0, 0, 13, 14, 15, 16};
        for (int i = 0; i < 16; ++i)
        {
            if (i != 4 && i != 5 && i != 7) c12_a_in[i] = WA[i];
            if (i != 4 && i != 5 && i != 7) c12_b_in[i] = 7;
        }
        c12_mx_a = 0x5F80;
        c12_cw_a = 0x0B7F;
        c12_mx_b = 0x1F80;
        c12_cw_b = 0x037F;
    }
    c12_cell_a_addr = cellA;
    c12_b_reached = 0;
    c12_a_returned = 0;
    for (int i = 0; i < 16; ++i) c12_a_out[i] = c12_b_out[i] = 0;
    c12_mx_out = 0;
    c12_cw_out = 0;

    std::printf("IN SW %ld %lx ", id, (unsigned long) reinterpret_cast<std::uintptr_t>(c12_retA));
    hexlist(c12_a_in, 16);
    std::printf(" ");
    bool first = true;
    auto memw = [&](std::uintptr_t a) {
        std::printf("%s%lx:%lx", first ? "" : ";", (unsigned long) a, (unsigned long) word(a));
        first = false;
    };
    for (std::uintptr_t a = rspA - 96; a < rspA + 160; a += 8) memw(a);
    for (std::uintptr_t a = rspB - 96; a < rspB + 32; a += 8) memw(a);
    for (int i = 0; i < 12; ++i) memw(bsp + 8 * i);
    memw(cellA);
    memw(cellB);
    std::printf(" %x %x %lx ", c12_mx_a, (unsigned) c12_cw_a,
        (unsigned long) reinterpret_cast<std::uintptr_t>(c12_retB));
    hexlist(c12_b_in, 16);
    std::printf(" %x %x %lx ", c12_mx_b, (unsigned) c12_cw_b, (unsigned long) cellA);
    std::vector<std::uintptr_t> probes;
    for (std::uintptr_t a = rspA - 96; a < rspA + 160; a += 8) probes.push_back(a);
    for (std::uintptr_t a = rspB - 96; a < rspB + 32; a += 8) probes.push_back(a);
    probes.push_back(cellA);
    probes.push_back(cellB);
    for (std::size_t i = 0; i < probes.size(); ++i)
        std::printf("%s%lx", i ? "," : "", (unsigned long) probes[i]);
    std::printf("\n");
    std::fflush(stdout);

    c12_fn = reinterpret_cast<std::uintptr_t>(second_routine ? &swapcontext_stack2 : &swapcontext_stack);
    c12_probe();

    std::printf("OUT SW %ld t1=%lx b=", id,
        c12_b_reached ? (unsigned long) reinterpret_cast<std::uintptr_t>(c12_entryB) : 0ul);
    hexlist(c12_b_out, 16);
    std::printf(" t2=%lx a=",
        c12_a_returned ? (unsigned long) reinterpret_cast<std::uintptr_t>(c12_retA) : 0ul);
    hexlist(c12_a_out, 16);
    std::printf(" probes=");
    for (std::size_t i = 0; i < probes.size(); ++i)
        std::printf("%s%lx", i ? "," : "", (unsigned long) word(probes[i]));
    std::printf(" mx=%x cw=%x\n", c12_mx_out, (unsigned) c12_cw_out);
    std::fflush(stdout);
}

// ------------------------------------------------------------------ real context objects
struct coro;
static void yield_fn(void* p);

struct coro : lx::x86_linux_context_impl<coro>
{
    using base = lx::x86_linux_context_impl<coro>;
    lx::x86_linux_context_impl_base caller;
    long id = 0;
    std::uint64_t task = 0;        // changes at every rebinding
    int depth = 0, nyield = 0;
    bool probe_size = false;
    // observations
    bool entered = false, this_ok = false, aligned = false, in_stack = false, done = false;
    bool canary_ok = true, locals_ok = true;
    std::uint64_t regmask = 0;
    int yields = 0;
    std::uintptr_t lowest = ~0ull;
    std::uintptr_t top = 0, bottom = 0;

    explicit coro(std::ptrdiff_t size)
      : base(size)
    {
    }
    void** sp() const { return m_sp; }
    void enter() { swap_context(caller, *this, cd::default_hint()); }
    void yield() { swap_context(*this, caller, cd::yield_hint()); }

    __attribute__((noinline)) void operator()();
    __attribute__((noinline)) void deep(int d);
    __attribute__((noinline)) void consume();
};

static void yield_fn(void* p) { static_cast<coro*>(p)->yield(); }

__attribute__((noinline)) void coro::operator()()
{
    std::uintptr_t fa = reinterpret_cast<std::uintptr_t>(__builtin_frame_address(0));
    entered = true;
    aligned = (fa % 16) == 0;
    in_stack = fa >= bottom && fa < top && top - fa <= 512;
    deep(depth);
    if (probe_size) consume();
    done = true;
    for (;;) yield();    // a finished context is never resumed; it is rebound
}

__attribute__((noinline)) void coro::deep(int d)
{
    volatile std::uint64_t canary[24];
    std::uint64_t l0 = c12::pattern(task, d, 100), l1 = c12::pattern(task, d, 101),
                  l2 = c12::pattern(task, d, 102), l3 = c12::pattern(task, d, 103);
    for (int i = 0; i < 24; ++i) canary[i] = c12::pattern(task, d, i);
    std::uintptr_t here = reinterpret_cast<std::uintptr_t>(&canary[0]);
    if (here < lowest) lowest = here;
    if (d > 0)
        deep(d - 1);
    else
    {
        for (int y = 0; y < nyield; ++y)
        {
            regmask |= c12_regcheck(&yield_fn, this, c12::pattern(task, 7, y));
            ++yields;
        }
    }
    // one yield at every level on the way back as well
    if (nyield > 0)
    {
        regmask |= c12_regcheck(&yield_fn, this, c12::pattern(task, d, 200));
        ++yields;
    }
    for (int i = 0; i < 24; ++i)
        if (canary[i] != c12::pattern(task, d, i)) canary_ok = false;
    if (l0 != c12::pattern(task, d, 100) || l1 != c12::pattern(task, d, 101) ||
        l2 != c12::pattern(task, d, 102) || l3 != c12::pattern(task, d, 103))
        locals_ok = false;
}

// touch the stack down to one page above its lowest address
__attribute__((noinline)) void coro::consume()
{
    volatile char block[1024];
    block[0] = 1;
    block[1023] = 2;
    std::uintptr_t here = reinterpret_cast<std::uintptr_t>(&block[0]);
    if (here < lowest) lowest = here;
    if (here > bottom + 4096 + 2048) consume();
    block[512] = block[0] + block[1023];
}

static long fe_lines(long id, coro& c, std::ptrdiff_t size, bool rebound)
{
    // top of the stack: page aligned (mmap, page-multiple size), frame smaller than a page
    std::uintptr_t sp = reinterpret_cast<std::uintptr_t>(c.sp());
    std::uintptr_t top = (sp + 4095) & ~std::uintptr_t(4095);
    if (top == sp) top += 0;    // context_size == 0: frame is empty
    c.top = top;
    c.bottom = top - size;
    std::uintptr_t funp = reinterpret_cast<std::uintptr_t>(&lx::trampoline<coro>);
    std::uintptr_t self = reinterpret_cast<std::uintptr_t>(static_cast<coro::base*>(&c));
    int cb = -1, fi = -1;
    int nw = int((top - sp) / 8);
    for (int i = 0; i < nw; ++i)
    {
        if (word(sp + 8 * i) == self && cb < 0) cb = i;
        if (word(sp + 8 * i) == funp && fi < 0) fi = i;
    }
    std::printf("IN FE %ld %lx %lx %lx %lx %lx ", id, (unsigned long) c.bottom, (unsigned long) size,
        (unsigned long) self, (unsigned long) funp, 0x401000ul);
    std::uint64_t rl[16] = {1, 2, 3, 4, 0, ARENA + 0x70000, 7, ARENA + 0x20000 - 256, 9, 10, 11, 12, 13, 14, 15, 16};
    hexlist(rl, 16);
    std::printf("\n");
    std::fflush(stdout);
    c.entered = c.this_ok = c.aligned = c.in_stack = c.done = false;
    c.enter();    // runs until the first yield (or to the end)
    std::printf("OUT FE %ld sp_off=%d cb_idx=%d funp_idx=%d target_is_funp=%d rdi_is_this=%d entry_aligned=%d\n", id,
        int(top - sp), cb, fi, c.entered ? 1 : 0, c.entered ? 1 : 0, c.aligned ? 1 : 0);
    std::fflush(stdout);
    (void) rebound;
    return id;
}

static void cx_group(long& id, c12::Rng& rng)
{
    static std::ptrdiff_t const SIZES[] = {0x4000, 0x8000, 0x10000, 0x20000, 0x200000};
    bool guard = rng.below(2) == 0;
    cd::posix::use_guard_pages = guard;
    int n = 2 + int(rng.below(4));
    std::vector<coro*> cs;
    std::vector<std::ptrdiff_t> sizes;
    for (int i = 0; i < n; ++i)
    {
        std::ptrdiff_t size = SIZES[rng.below(5)];
        coro* c = new coro(size);
        c->init();
        cs.push_back(c);
        sizes.push_back(size);
    }
    std::uint64_t tasknum = rng.next() | 1;
    int rounds = 1 + int(rng.below(3));    // bindings per object (recycling)
    for (int r = 0; r < rounds; ++r)
    {
        std::vector<long> ids(n);
        for (int i = 0; i < n; ++i)
        {
            coro& c = *cs[i];
            if (r > 0)
            {
                // the finished context is never resumed: its old frames are dead; wipe the top of
                // the stack so that stale words cannot be mistaken for the new frame's slots
                std::memset(reinterpret_cast<void*>(c.top - 256), 0, 256);
                c.reset_stack();
                c.rebind_stack();
            }
            c.id = ++id;
            ids[i] = c.id;
            c.task = tasknum++;
            c.depth = int(rng.below(12));
            c.nyield = int(rng.below(4));
            c.probe_size = rng.below(3) == 0;
            c.canary_ok = c.locals_ok = true;
            c.regmask = 0;
            c.yields = 0;
            c.lowest = ~0ull;
        }
        // first entries (FE lines), then a random interleaving of resumptions
        for (int i = 0; i < n; ++i)
        {
            coro& c = *cs[i];
            // this_ok is evaluated inside operator() through the members it writes: if `this`
            // were wrong the observations would land elsewhere; check the object's own flag
            fe_lines(c.id, c, sizes[i], r > 0);
            c.this_ok = c.entered;
        }
        int live = 0;
        for (int i = 0; i < n; ++i) live += cs[i]->done ? 0 : 1;
        long guardn = 0;
        while (live > 0 && ++guardn < 100000)
        {
            int k = int(rng.below(n));
            if (cs[k]->done) continue;
            // scribble over the caller's own callee-saved registers between resumptions
            asm volatile("" ::: "rbx", "r12", "r13", "r14", "r15", "memory");
            cs[k]->enter();
            if (cs[k]->done) --live;
        }
        // disjointness of the stacks of the concurrently live contexts
        bool disjoint = true;
        for (int i = 0; i < n; ++i)
            for (int j = i + 1; j < n; ++j)
                if (cs[i]->bottom < cs[j]->top && cs[j]->bottom < cs[i]->top) disjoint = false;
        for (int i = 0; i < n; ++i)
        {
            coro& c = *cs[i];
            std::string gp = c12::perms_at(c.bottom - 4096);
            std::string sp = c12::perms_at(c.bottom);
            bool guard_ok = !guard || gp == "---p";
            bool used_ok = !c.probe_size || (c.lowest <= c.bottom + 4096 + 2048 + 1024);
            std::printf("OUT CX %ld size=%lx guard=%d round=%d depth=%d nyield=%d entered=%d aligned=%d in_stack=%d done=%d "
                        "canary_ok=%d locals_ok=%d regmask=%lx yields=%d disjoint=%d guard_ok=%d mapped=%s probe=%d used_ok=%d "
                        "page_aligned=%d\n",
                ids[i], (unsigned long) sizes[i], guard ? 1 : 0, r, c.depth, c.nyield, c.entered ? 1 : 0,
                c.aligned ? 1 : 0, c.in_stack ? 1 : 0, c.done ? 1 : 0, c.canary_ok ? 1 : 0, c.locals_ok ? 1 : 0,
                (unsigned long) c.regmask, c.yields, disjoint ? 1 : 0, guard_ok ? 1 : 0, sp.c_str(),
                c.probe_size ? 1 : 0, used_ok ? 1 : 0, (c.bottom % 4096 == 0) ? 1 : 0);
            std::fflush(stdout);
        }
    }
    for (coro* c : cs) delete c;
}

int main(int argc, char** argv)
{
    long seed = argc > 1 ? std::atol(argv[1]) : 1;
    long n_sw = argc > 2 ? std::atol(argv[2]) : 1000;
    long n_cx = argc > 3 ? std::atol(argv[3]) : 50;
    void* p = mmap(reinterpret_cast<void*>(ARENA), ARENA_SIZE, PROT_READ | PROT_WRITE,
        MAP_PRIVATE | MAP_ANONYMOUS | MAP_FIXED_NOREPLACE, -1, 0);
    if (p != reinterpret_cast<void*>(ARENA))
    {
        std::printf("TIE cannot map the arena at %lx\n", (unsigned long) ARENA);
        return 3;
    }
    arena = static_cast<std::uint64_t*>(p);
    std::setvbuf(stdout, nullptr, _IOLBF, 0);
    long const batch = 100;
    long id = 0;
    int rc = 0;
    // SW batches
    for (long b = 0; b * batch < n_sw; ++b)
    {
        std::fflush(stdout);
        pid_t pid = fork();
        if (pid == 0)
        {
            alarm(60);
            c12::Rng rng(std::uint64_t(seed) * 1000003ull + std::uint64_t(b));
            for (long i = b * batch; i < (b + 1) * batch && i < n_sw; ++i) sw_case(i + 1, rng, (i % 5) == 4);
            std::fflush(stdout);
            _exit(0);
        }
        int st = 0;
        waitpid(pid, &st, 0);
        if (!WIFEXITED(st) || WEXITSTATUS(st) != 0)
        {
            std::printf("OUT CRASH SW batch=%ld status=%d signal=%d\n", b, st, WIFSIGNALED(st) ? WTERMSIG(st) : 0);
            rc = 0;
        }
    }
    id = 1000000;
    for (long g = 0; g < n_cx; ++g)
    {
        std::fflush(stdout);
        pid_t pid = fork();
        if (pid == 0)
        {
            alarm(60);
            c12::Rng rng(std::uint64_t(seed) * 7000003ull + std::uint64_t(g));
            long lid = id + g * 1000;
            cx_group(lid, rng);
            std::fflush(stdout);
            _exit(0);
        }
        int st = 0;
        waitpid(pid, &st, 0);
        if (!WIFEXITED(st) || WEXITSTATUS(st) != 0)
        {
            std::printf("OUT CRASH CX group=%ld status=%d signal=%d\n", g, st, WIFSIGNALED(st) ? WTERMSIG(st) : 0);
        }
    }
    std::printf("DONE\n");
    return rc;
}
