// harness/c10_prio.cpp — C10: the priority a new task gets decides its queue family, hence (static
// priority scheduler with fewer high-priority queues than workers) its worker.
// Drives the REAL runtime: pool A (policy, W workers, H high-priority queues) behind a default pool of 2
// workers.  Parents of every priority (low, normal, high, high_recursive, boost) running on A, a
// high_recursive parent running on the DEFAULT pool, and a non-pika OS thread each submit to A one child
// per (requested priority in {default_, normal, high, low}) x (hint 0..W-1) x (route: thread_pool_scheduler
// = threads::detail::create_work | register_thread = threads::detail::create_thread).  A child has 3-4
// phases separated by pika::this_thread::yield() and records in every phase the pool, the local worker
// number and the OS thread id; in its first phase also its stored priority (thread_data::get_priority()).
//
// usage: c10_prio <seed> <policy> <W> <H>
// output: POOL / PAR / CH lines for the monitors, `IN PRIO` / `OUT PRIO` for the model, DONE.
#include <pika/execution.hpp>
#include <pika/init.hpp>
#include <pika/modules/resource_partitioner.hpp>
#include <pika/thread.hpp>
#include <pika/threading_base/register_thread.hpp>
#include <pika/threading_base/thread_data.hpp>

#include <atomic>
#include <chrono>
#include <cstdint>
#include <cstdio>
#include <cstdlib>
#include <string>
#include <thread>
#include <vector>

#include <sys/syscall.h>
#include <unistd.h>

namespace ex = pika::execution::experimental;
using pika::execution::thread_priority;
using pika::execution::thread_schedule_hint;

static std::string g_policy;
static int g_W = 0, g_H = 0;

static pika::resource::scheduling_policy policy_enum(std::string const& p)
{
    using sp = pika::resource::scheduling_policy;
    if (p == "static") return sp::static_;
    if (p == "static-priority") return sp::static_priority;
    if (p == "local-priority-fifo") return sp::local_priority_fifo;
    if (p == "local-priority-lifo") return sp::local_priority_lifo;
    if (p == "abp-priority-fifo") return sp::abp_priority_fifo;
    return sp::local_priority_fifo;
}

static void rp_callback(pika::resource::partitioner& rp, pika::program_options::variables_map const&)
{
    rp.create_thread_pool("A", policy_enum(g_policy), pika::threads::scheduler_mode::default_mode);
    int n = 0;
    for (auto const& s : rp.sockets())
        for (auto const& c : s.cores())
            for (auto const& p : c.pus())
            {
                if (n >= 2 && n < 2 + g_W) rp.add_resource(p, "A");
                ++n;
            }
}

// the OS thread id must be re-read after every yield (pthread_self()/gettid wrappers may be treated as const)
__attribute__((noinline)) static std::uint64_t os_tid() { return std::uint64_t(::syscall(SYS_gettid)); }

constexpr int MAXPH = 4;
struct Child
{
    int parent = 0;       // index into parents
    int requested = 0;    // numeric thread_priority
    int hint = 0;
    int route = 0;        // 0 = thread_pool_scheduler (create_work), 1 = register_thread (create_thread)
    int nph = 0;
    std::atomic<int> eff{-99};
    std::atomic<int> done{0};
    int pool[MAXPH], lw[MAXPH];
    std::uint64_t os[MAXPH], ptid = 0;
};
struct Parent
{
    char const* kind;    // "A" task on pool A, "D" task on the default pool, "X" OS thread
    int requested;       // numeric priority requested for the parent (-1 for X)
    std::atomic<int> observed{-99};    // stored priority of the parent task (get_priority())
    int pool = -1, lw = -1;
};

static std::vector<Child*> g_children;
static std::atomic<int> g_finished{0};

static void child_body(Child* c)
{
    for (int p = 0; p < c->nph; ++p)
    {
        if (p == 0)
        {
            c->eff.store(int(pika::threads::detail::get_self_id_data()->get_priority()));
            c->ptid = reinterpret_cast<std::uint64_t>(pika::threads::detail::get_self_id().get());
        }
        c->pool[p] = int(pika::get_thread_pool_num());
        c->lw[p] = int(pika::get_local_worker_thread_num());
        c->os[p] = os_tid();
        if (p + 1 < c->nph) pika::this_thread::yield();
    }
    c->done.store(1);
    ++g_finished;
}

static void submit_child(pika::threads::detail::thread_pool_base* poolA, Child* c)
{
    auto prio = static_cast<thread_priority>(c->requested);
    auto hint = thread_schedule_hint(static_cast<std::int16_t>(c->hint));
    if (c->route == 0)
    {
        auto s = ex::with_hint(ex::with_priority(ex::thread_pool_scheduler{poolA}, prio), hint);
        ex::start_detached(ex::schedule(s) | ex::then([c] { child_body(c); }));
    }
    else
    {
        pika::threads::detail::thread_init_data data(
            pika::threads::detail::make_thread_function_nullary([c] { child_body(c); }), "c10_prio child", prio, hint);
        pika::threads::detail::register_thread(data, poolA);
    }
}

int main(int argc, char** argv)
{
    if (argc < 5) return 2;
    std::uint64_t seed = std::strtoull(argv[1], nullptr, 10);
    g_policy = argv[2];
    g_W = std::atoi(argv[3]);
    g_H = std::atoi(argv[4]);
    bool prio = g_policy != "static";
    bool steal = !(g_policy == "static" || g_policy == "static-priority");

    std::string a0 = argv[0], a1 = "--pika:threads=" + std::to_string(2 + g_W);
    std::vector<char*> av = {a0.data(), a1.data(), nullptr};
    pika::init_params ip;
    ip.rp_callback = &rp_callback;
    // H == W is the default (one high-priority queue per worker); an explicit value larger than the default pool is refused
    if (g_H != g_W) ip.cfg = {"pika.thread_queue.high_priority_queues!=" + std::to_string(g_H)};
    pika::start(2, av.data(), ip);

    auto& poolA = pika::resource::get_thread_pool("A");
    auto& poolD = pika::resource::get_thread_pool("default");
    if (int(poolA.get_os_thread_count()) != g_W || poolD.get_os_thread_count() != 2)
    {
        std::printf("TIEFAIL pools have %zu + %zu threads, expected 2 + %d\n", poolD.get_os_thread_count(),
            poolA.get_os_thread_count(), g_W);
        std::fflush(stdout);
        std::_Exit(3);
    }
    std::printf("POOL A %s W=%d H=%d prio=%d steal=%d poolnum=%zu\n", g_policy.c_str(), g_W, g_H, prio ? 1 : 0, steal ? 1 : 0,
        poolA.get_pool_index());
    std::fflush(stdout);

    static int const parent_prios[] = {int(thread_priority::low), int(thread_priority::normal), int(thread_priority::high),
        int(thread_priority::high_recursive), int(thread_priority::boost)};
    static int const child_prios[] = {int(thread_priority::default_), int(thread_priority::normal), int(thread_priority::high),
        int(thread_priority::low)};
    std::vector<Parent*> parents;
    for (int pp : parent_prios) parents.push_back(new Parent{"A", pp});
    parents.push_back(new Parent{"D", int(thread_priority::high_recursive)});
    parents.push_back(new Parent{"D", int(thread_priority::normal)});
    parents.push_back(new Parent{"X", -1});

    bool completed = true;
    std::uint64_t rs = seed * 0x9E3779B97F4A7C15ull + 12345;
    auto rnd = [&rs](int n) {
        rs ^= rs << 13;
        rs ^= rs >> 7;
        rs ^= rs << 17;
        return int(rs % std::uint64_t(n));
    };
    for (std::size_t pi = 0; pi < parents.size(); ++pi)
    {
        Parent* P = parents[pi];
        std::vector<Child*> mine;
        for (int r : child_prios)
            for (int h = 0; h < g_W; ++h)
                for (int route = 0; route < 2; ++route)
                {
                    Child* c = new Child;
                    c->parent = int(pi);
                    c->requested = r;
                    c->hint = h;
                    c->route = route;
                    c->nph = 3 + rnd(2);
                    mine.push_back(c);
                    g_children.push_back(c);
                }
        // submission order shuffled (seeded)
        for (std::size_t i = mine.size(); i > 1; --i) std::swap(mine[i - 1], mine[std::size_t(rnd(int(i)))]);
        int before = g_finished.load();
        std::atomic<int> parent_done{0};
        auto body = [&, P] {
            if (P->kind[0] != 'X')
            {
                P->observed.store(int(pika::threads::detail::get_self_id_data()->get_priority()));
                P->pool = int(pika::get_thread_pool_num());
                P->lw = int(pika::get_local_worker_thread_num());
            }
            for (Child* c : mine) submit_child(&poolA, c);
            parent_done.store(1);
        };
        if (P->kind[0] == 'X') { std::thread(body).join(); }
        else
        {
            auto* pool = P->kind[0] == 'A' ? &poolA : &poolD;
            int ph = P->kind[0] == 'A' ? rnd(g_W) : rnd(2);
            auto s = ex::with_hint(ex::with_priority(ex::thread_pool_scheduler{pool}, static_cast<thread_priority>(P->requested)),
                thread_schedule_hint(static_cast<std::int16_t>(ph)));
            ex::start_detached(ex::schedule(s) | ex::then(body));
        }
        auto deadline = std::chrono::steady_clock::now() + std::chrono::seconds(40);
        while (parent_done.load() == 0 || g_finished.load() < before + int(mine.size()))
        {
            if (std::chrono::steady_clock::now() > deadline)
            {
                completed = false;
                break;
            }
            std::this_thread::sleep_for(std::chrono::microseconds(200));
        }
        std::printf("PAR %zu kind=%s requested=%d observed=%d pool=%d lw=%d\n", pi, P->kind, P->requested, P->observed.load(), P->pool, P->lw);
        if (!completed) break;
    }

    int id = 0;
    for (Child* c : g_children)
    {
        Parent* P = parents[std::size_t(c->parent)];
        int nph = c->done.load() ? c->nph : 0;
        std::printf("CH %d parent=%d pkind=%s pobs=%d req=%d hint=%d route=%d eff=%d done=%d ptid=%llx ph=", id, c->parent, P->kind,
            P->observed.load(), c->requested, c->hint, c->route, c->eff.load(), c->done.load(), (unsigned long long) c->ptid);
        for (int p = 0; p < nph; ++p) std::printf("%s%d:%d:%llu", p ? "," : "", c->pool[p], c->lw[p], (unsigned long long) c->os[p]);
        std::printf("\n");
        if (c->done.load())
        {
            // model input: parent's stored priority (x = no pika parent), requested priority, route; output: stored priority of the child
            std::string par = P->kind[0] == 'X' ? "x" : std::to_string(P->observed.load());
            std::printf("IN PRIO %s-%d-%d-%llu.%d %s %d %d\n", g_policy.c_str(), g_W, g_H, (unsigned long long) seed, id, par.c_str(), c->requested, c->route);
            std::printf("OUT PRIO %s-%d-%d-%llu.%d %d\n", g_policy.c_str(), g_W, g_H, (unsigned long long) seed, id, c->eff.load());
        }
        ++id;
    }
    std::printf("DONE completed=%d children=%zu finished=%d\n", completed ? 1 : 0, g_children.size(), g_finished.load());
    std::fflush(stdout);
    if (!completed) std::_Exit(4);
    pika::finalize();
    pika::stop();
    return 0;
}
