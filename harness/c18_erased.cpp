// C18 DIFF harness: generated histories of wrapper operations on the REAL
// unique_any_sender<int> / any_sender<int> / function<int(int)> / unique_function<int(int)>
// over ledgered senders and callables (every constructor / destructor call is an event).
// For each case:   IN  <KIND> <id> ...history...      (what the extracted model replays)
//                  OUT <KIND> <id> step;step;...;final (what the implementation did)
//                  MON <KIND> <id> k=v ...             (model-independent monitors)
// step = <outcome>|<events>|<emptiness bits>.  Compiled twice: default and with
// -DPIKA_DETAIL_ENABLE_ANY_SENDER_SBO (then any_sender.cpp is compiled into the harness too,
// because the layout of the exported any_operation_state_holder depends on the macro).
//
// Throwing constructors: ops sx/cx/nx/mx/ax/rx (senders) and sx/kx/cx (functions) run the operation while the
// wrapped type's copy / move constructor throws (g_throw_armed); nested wrappers: ns (unique_any_sender <- l-value
// any_sender), nf (unique_function <- function); tg = target<T>(); over-aligned test types (aln).  A TYPES case
// prints sizeof / alignof of every test type's Impl and the decision of the compiled can_use_embedded_storage /
// vtable::allocate.  All wrapper slots live at addresses = 8 (mod 16) so that an over-aligned object constructed
// in an inline buffer is observably misaligned.
// usage: c18_erased <seed> <ncases> [first-case] [kinds: s|f|sf|x|t]
//        c18_erased replay "<IN line>"
#include <pika/execution_base/any_sender.hpp>
#include <pika/execution_base/operation_state.hpp>
#include <pika/execution_base/receiver.hpp>
#include <pika/execution_base/sender.hpp>
#include <pika/errors/exception.hpp>
#include <pika/functional/function.hpp>
#include <pika/functional/unique_function.hpp>

#if defined(PIKA_DETAIL_ENABLE_ANY_SENDER_SBO)
// resolved through -I<repo>/libs/pika/execution_base/include
# include <pika/../../src/any_sender.cpp>
#endif

#include <unistd.h>
#include <cstdint>
#include <cstdio>
#include <cstdlib>
#include <cstring>
#include <exception>
#include <new>
#include <optional>
#include <string>
#include <vector>

namespace ex = pika::execution::experimental;

// ---------------------------------------------------------------- allocation monitor
// Blocks allocated with operator new while a case runs must all be freed when it ends; a
// block freed twice is recorded (and not passed to the allocator).  Freed blocks are kept in
// quarantine until the end of the case so that addresses are not reused inside a case.
static bool g_track = false;
static constexpr int kMaxBlk = 16384;
static void* g_live[kMaxBlk];
static int g_nlive = 0;
static void* g_quar[kMaxBlk];
static int g_nquar = 0;
static int g_dfree = 0;

static void* v_alloc(std::size_t n)
{
    void* p = std::malloc(n ? n : 1);
    if (!p) throw std::bad_alloc();
    if (g_track && g_nlive < kMaxBlk) g_live[g_nlive++] = p;
    return p;
}
static int g_badfree = 0;
static char* g_slots_lo = nullptr;
static char* g_slots_hi = nullptr;
static void v_free(void* p) noexcept
{
    if (!p) return;
    if ((char*) p >= g_slots_lo && (char*) p < g_slots_hi)
    {
        ++g_badfree;    // delete of an inline buffer (wrong vtable after a throwing constructor)
        return;
    }
    if (g_track)
    {
        for (int i = g_nlive - 1; i >= 0; --i)
            if (g_live[i] == p)
            {
                g_live[i] = g_live[--g_nlive];
                if (g_nquar < kMaxBlk) { g_quar[g_nquar++] = p; return; }
                std::free(p);
                return;
            }
        for (int i = 0; i < g_nquar; ++i)
            if (g_quar[i] == p)
            {
                ++g_dfree;
                return;
            }
    }
    std::free(p);
}
void* operator new(std::size_t n) { return v_alloc(n); }
void* operator new[](std::size_t n) { return v_alloc(n); }
void* operator new(std::size_t n, std::nothrow_t const&) noexcept
{
    try { return v_alloc(n); } catch (...) { return nullptr; }
}
void* operator new[](std::size_t n, std::nothrow_t const&) noexcept
{
    try { return v_alloc(n); } catch (...) { return nullptr; }
}
void operator delete(void* p) noexcept { v_free(p); }
void operator delete[](void* p) noexcept { v_free(p); }
void operator delete(void* p, std::size_t) noexcept { v_free(p); }
void operator delete[](void* p, std::size_t) noexcept { v_free(p); }
void operator delete(void* p, std::nothrow_t const&) noexcept { v_free(p); }
void operator delete[](void* p, std::nothrow_t const&) noexcept { v_free(p); }
// over-aligned types (aligned_storage_helper<T> of an alignas(16) callable, impls of over-aligned senders)
static void* v_alloc_al(std::size_t n, std::size_t al)
{
    void* p = nullptr;
    if (posix_memalign(&p, al < sizeof(void*) ? sizeof(void*) : al, n ? n : 1) != 0) throw std::bad_alloc();
    if (g_track && g_nlive < kMaxBlk) g_live[g_nlive++] = p;
    return p;
}
void* operator new(std::size_t n, std::align_val_t a) { return v_alloc_al(n, (std::size_t) a); }
void* operator new[](std::size_t n, std::align_val_t a) { return v_alloc_al(n, (std::size_t) a); }
void operator delete(void* p, std::align_val_t) noexcept { v_free(p); }
void operator delete[](void* p, std::align_val_t) noexcept { v_free(p); }
void operator delete(void* p, std::size_t, std::align_val_t) noexcept { v_free(p); }
void operator delete[](void* p, std::size_t, std::align_val_t) noexcept { v_free(p); }

// ---------------------------------------------------------------- ledger
enum : std::uint32_t { MAGIC_LIVE = 0xA11CE5EDu, MAGIC_DEAD = 0xDEADBEEFu };
struct Core
{
    std::uint32_t magic;
    std::uint32_t id;
    std::int32_t k;
    std::uint8_t beh;
    std::uint8_t mf;
    std::uint16_t calls;
};
static_assert(sizeof(Core) == 16);

struct Ledger
{
    std::uint32_t next = 0;
    char ev[1 << 16];
    int evn = 0;
    std::uint8_t st[1 << 14];    // 0 never, 1 live, 2 destroyed
    int dbl = 0;                 // destructor ran on an already destroyed object
    int garbage = 0;             // destructor / use on something that is not an object
    int dead_use = 0;            // invoke / connect on a destroyed or moved-from object
    int misaligned = 0;          // an object was constructed at an address that is not a multiple of its alignment
    void reset()
    {
        next = 0;
        evn = 0;
        ev[0] = 0;
        std::memset(st, 0, sizeof st);
        dbl = garbage = dead_use = misaligned = 0;
    }
    void add(char const* s)
    {
        int n = (int) std::strlen(s);
        if (evn + n + 2 >= (int) sizeof ev) return;
        if (evn) ev[evn++] = '.';
        std::memcpy(ev + evn, s, n + 1);
        evn += n;
    }
    void take(std::string& out)
    {
        out.assign(ev, evn);
        evn = 0;
        ev[0] = 0;
    }
};
static Ledger LG;

static void on_ctor(Core& c, char kind, Core const* src, std::size_t align = alignof(Core))
{
    if (reinterpret_cast<std::uintptr_t>(&c) % align != 0) ++LG.misaligned;
    c.magic = MAGIC_LIVE;
    c.id = LG.next++;
    if (c.id < sizeof LG.st) LG.st[c.id] = 1;
    char b[48];
    if (src)
        std::snprintf(b, sizeof b, "%c%u<%u", kind, c.id, src->id);
    else
        std::snprintf(b, sizeof b, "%c%u", kind, c.id);
    LG.add(b);
}
static void on_dtor(Core& c)
{
    char b[48];
    if ((c.magic != MAGIC_LIVE && c.magic != MAGIC_DEAD) || c.id >= LG.next)
    {
        ++LG.garbage;
        LG.add("G");
        return;
    }
    if (c.magic == MAGIC_DEAD || LG.st[c.id] != 1)
    {
        ++LG.dbl;
        std::snprintf(b, sizeof b, "D%u", c.id);
        LG.add(b);
        return;
    }
    c.magic = MAGIC_DEAD;
    LG.st[c.id] = 2;
    std::snprintf(b, sizeof b, "D%u", c.id);
    LG.add(b);
}
static void on_use(Core const& c)
{
    if (c.magic != MAGIC_LIVE || c.id >= LG.next || LG.st[c.id] != 1 || c.mf) ++LG.dead_use;
}

struct test_error
{
    int code;
};
static bool g_copy_throws = false;    // armed by the throwing steps: the next copy / move construction of a
static bool g_move_throws = false;    // ledgered sender / callable throws test_error{0} (and disarms)
static void maybe_throw(bool& flag)
{
    if (flag)
    {
        g_copy_throws = g_move_throws = false;
        throw test_error{0};
    }
}
struct Arm
{
    Arm() { g_copy_throws = g_move_throws = true; }
    ~Arm() { g_copy_throws = g_move_throws = false; }
};

template <bool Big, bool Aln = false>
struct Body
{
    Core c;
    unsigned char pad[Big ? 40 : 8];    // small = exactly the size of the inline buffers
};
// over-aligned and small: fits every inline buffer by size, but needs 16-byte alignment
template <bool Big>
struct Body<Big, true>
{
    alignas(16) Core c;
};
static_assert(sizeof(Body<false, true>) == 16 && alignof(Body<false, true>) == 16);
static_assert(sizeof(Body<false>) == 3 * sizeof(void*));
static_assert(sizeof(Body<true>) > 4 * sizeof(void*));

static void core_init(Core& c, int k, int beh)
{
    c.k = k;
    c.beh = (std::uint8_t) beh;
    c.mf = 0;
    c.calls = 0;
}
static void core_from(Core& c, Core const& o)
{
    c.k = o.k;
    c.beh = o.beh;
    c.mf = o.mf;
    c.calls = o.calls;
}
static void core_moved(Core& o)
{
    o.mf = 1;
    o.k = -7;
}

// ---------------------------------------------------------------- ledgered callable
template <bool Big, bool Copy, bool Aln = false>
struct Callable
{
    Body<Big, Aln> b;
    static constexpr std::size_t kAlign = alignof(Body<Big, Aln>);
    Callable(int k, int beh)
    {
        core_init(b.c, k, beh);
        on_ctor(b.c, 'C', nullptr, kAlign);
    }
    Callable(Callable&& o)
    {
        maybe_throw(g_move_throws);
        core_from(b.c, o.b.c);
        on_ctor(b.c, 'M', &o.b.c, kAlign);
        core_moved(o.b.c);
    }
    Callable(Callable const& o) requires Copy
    {
        maybe_throw(g_copy_throws);
        core_from(b.c, o.b.c);
        on_ctor(b.c, 'K', &o.b.c, kAlign);
    }
    Callable& operator=(Callable const&) = delete;
    Callable& operator=(Callable&&) = delete;
    ~Callable() { on_dtor(b.c); }
    int operator()(int arg)
    {
        on_use(b.c);
        ++b.c.calls;
        if (b.c.beh == 1 && (arg & 1)) throw test_error{b.c.k * 10 + b.c.calls};
        return b.c.k * 100 + b.c.calls * 7 + arg;
    }
};
static_assert(sizeof(Callable<false, true>) <= 3 * sizeof(void*));
static_assert(sizeof(Callable<true, true>) > 3 * sizeof(void*));

// ---------------------------------------------------------------- ledgered sender
template <bool Big, typename R>
struct Op
{
    Body<Big> b;
    R r;
    Op(int k, int beh, R&& rr)
      : r(std::move(rr))
    {
        core_init(b.c, k, beh);
        on_ctor(b.c, 'C', nullptr);
    }
    Op(Op&&) = delete;
    Op(Op const&) = delete;
    ~Op() { on_dtor(b.c); }
    void start() & noexcept
    {
        on_use(b.c);
        switch (b.c.beh)
        {
        case 0: ex::set_value(std::move(r), (int) b.c.k); break;
        case 1: ex::set_error(std::move(r), std::make_exception_ptr(test_error{b.c.k})); break;
        default: ex::set_stopped(std::move(r)); break;
        }
    }
};

template <bool Big, bool Copy, bool Aln = false>
struct Sender
{
    Body<Big, Aln> b;
    static constexpr std::size_t kAlign = alignof(Body<Big, Aln>);
    Sender(int k, int beh)
    {
        core_init(b.c, k, beh);
        on_ctor(b.c, 'C', nullptr, kAlign);
    }
    Sender(Sender&& o)
    {
        maybe_throw(g_move_throws);
        core_from(b.c, o.b.c);
        on_ctor(b.c, 'M', &o.b.c, kAlign);
        core_moved(o.b.c);
    }
    Sender(Sender const& o) requires Copy
    {
        maybe_throw(g_copy_throws);
        core_from(b.c, o.b.c);
        on_ctor(b.c, 'K', &o.b.c, kAlign);
    }
    Sender& operator=(Sender const&) = delete;
    Sender& operator=(Sender&&) = delete;
    ~Sender() { on_dtor(b.c); }

    template <template <class...> class T, template <class...> class V>
    using value_types = V<T<int>>;
    template <template <class...> class V>
    using error_types = V<std::exception_ptr>;
    static constexpr bool sends_done = true;
    using completion_signatures = ex::completion_signatures<ex::set_value_t(int),
        ex::set_error_t(std::exception_ptr), ex::set_stopped_t()>;

    template <typename R>
    Op<Big, std::decay_t<R>> connect(R&& r) &&
    {
        on_use(b.c);
        int k = b.c.k, beh = b.c.beh;
        if (beh >= 3) throw test_error{k};
        core_moved(b.c);
        return Op<Big, std::decay_t<R>>(k, beh, std::forward<R>(r));
    }
    template <typename R>
    Op<Big, std::decay_t<R>> connect(R&& r) const&
    {
        on_use(b.c);
        if (b.c.beh >= 3) throw test_error{b.c.k};
        return Op<Big, std::decay_t<R>>(b.c.k, b.c.beh, std::forward<R>(r));
    }
};
// small senders fit the 4-pointer buffer together with the vtable pointer of the impl
static_assert(sizeof(Sender<false, true>) + sizeof(void*) <= 4 * sizeof(void*));
static_assert(sizeof(Sender<true, true>) + sizeof(void*) > 4 * sizeof(void*));

struct Rec
{
    int count = 0;
    char kind = '-';
    int v = 0;
};
struct Recv
{
    PIKA_STDEXEC_RECEIVER_CONCEPT
    Rec* rec;
    void set_value(int v) && noexcept
    {
        ++rec->count;
        rec->kind = 'V';
        rec->v = v;
    }
    void set_error(std::exception_ptr ep) && noexcept
    {
        ++rec->count;
        try
        {
            std::rethrow_exception(ep);
        }
        catch (test_error const& e)
        {
            rec->kind = 'E';
            rec->v = e.code;
        }
        catch (...)
        {
            rec->kind = '?';
        }
    }
    void set_stopped() && noexcept
    {
        ++rec->count;
        rec->kind = 'S';
    }
    constexpr ex::empty_env get_env() const& noexcept { return {}; }
};

// ---------------------------------------------------------------- histories
struct Rng
{
    std::uint64_t s;
    explicit Rng(std::uint64_t seed)
      : s(seed * 0x9E3779B97F4A7C15ull + 0x1234567ull)
    {
    }
    std::uint64_t next()
    {
        std::uint64_t z = (s += 0x9E3779B97F4A7C15ull);
        z = (z ^ (z >> 30)) * 0xBF58476D1CE4E5B9ull;
        z = (z ^ (z >> 27)) * 0x94D049BB133111EBull;
        return z ^ (z >> 31);
    }
    int below(int n) { return (int) (next() % (std::uint64_t) n); }
    bool chance(int a, int b) { return below(b) < a; }
};

struct OpRec
{
    std::string name;
    int a[10] = {0, 0, 0, 0, 0, 0, 0, 0, 0, 0};
    int n = 0;
    std::string str() const
    {
        std::string s = name;
        for (int i = 0; i < n; ++i) s += "," + std::to_string(a[i]);
        return s;
    }
};

static std::vector<OpRec> parse_ops(std::string const& s)
{
    std::vector<OpRec> v;
    std::size_t p = 0;
    while (p < s.size())
    {
        std::size_t e = s.find(';', p);
        if (e == std::string::npos) e = s.size();
        std::string t = s.substr(p, e - p);
        p = e + 1;
        if (t.empty()) continue;
        OpRec o;
        std::size_t q = t.find(',');
        o.name = t.substr(0, q);
        while (q != std::string::npos && o.n < 10)
        {
            std::size_t r = t.find(',', q + 1);
            o.a[o.n++] = std::atoi(t.substr(q + 1, r == std::string::npos ? r : r - q - 1).c_str());
            q = r;
        }
        v.push_back(o);
    }
    return v;
}

static std::string g_steps;    // OUT line body
static int g_boolmis = 0, g_multi = 0;

// live heap blocks after every step (allocation monitor; compared with the model's block ledger)
static int g_livehist[64];
static int g_nhist = 0;
static int live_blocks()
{
    int n = 0;
    for (int i = 0; i < g_nlive; ++i)
        if (g_live[i] != (void*) g_steps.data()) ++n;
    return n;
}

static void emit_step(std::string const& res, std::string const& empt)
{
    if (g_nhist < 64) g_livehist[g_nhist++] = live_blocks();
    std::string ev;
    LG.take(ev);
    if (!g_steps.empty()) g_steps += ';';
    g_steps += res + "|" + (ev.empty() ? "-" : ev) + "|" + empt;
}

static std::string exc_token()
{
    try
    {
        throw;
    }
    catch (pika::exception const& e)
    {
        if (e.get_error() == pika::error::bad_function_call) return "TB";
        return "TP" + std::to_string((int) e.get_error());
    }
    catch (test_error const& e)
    {
        return "T" + std::to_string(e.code);
    }
    catch (...)
    {
        return "T?";
    }
}

// ------------------------------------------------------------ sender cases
using US = ex::unique_any_sender<int>;
using AS = ex::any_sender<int>;
static constexpr int kMaxSlots = 4;
using FN = pika::util::detail::function<int(int)>;
using UF = pika::util::detail::unique_function<int(int)>;
// every wrapper object lives at an address = 8 (mod 16): legal for the wrappers (alignment 8), and the inline
// buffers (offset 0 of the SBO storages, offset 16 of function_base) are then NOT 16-byte aligned
struct alignas(16) AllSlots
{
    char pad[8];
    std::optional<FN> f[kMaxSlots];
    std::optional<UF> q[kMaxSlots];
    std::optional<US> u[kMaxSlots];
    std::optional<AS> a[kMaxSlots];
};
static_assert(sizeof(std::optional<FN>) % 16 == 0 && sizeof(std::optional<UF>) % 16 == 0);
static AllSlots SL;
static std::optional<US> (&U)[kMaxSlots] = SL.u;
static std::optional<AS> (&A)[kMaxSlots] = SL.a;
static std::optional<FN> (&F)[kMaxSlots] = SL.f;
static std::optional<UF> (&Q)[kMaxSlots] = SL.q;

template <typename W>
static std::string connect_rv(W& w)
{
    Rec rec;
    std::string res;
    try
    {
        auto os = ex::connect(std::move(w), Recv{&rec});
        ex::start(os);
        if (rec.count != 1) ++g_multi;
        res = rec.kind == 'S' ? std::string("S") : std::string(1, rec.kind) + std::to_string(rec.v);
    }
    catch (...)
    {
        res = exc_token();
        if (rec.count != 0) ++g_multi;
    }
    return res;
}
static std::string connect_lv(AS const& w)
{
    Rec rec;
    std::string res;
    try
    {
        auto os = ex::connect(w, Recv{&rec});
        ex::start(os);
        if (rec.count != 1) ++g_multi;
        res = rec.kind == 'S' ? std::string("S") : std::string(1, rec.kind) + std::to_string(rec.v);
    }
    catch (...)
    {
        res = exc_token();
        if (rec.count != 0) ++g_multi;
    }
    return res;
}

template <typename W, typename S>
static void store_into(std::optional<W>& w, S& tmp, int mv, int via)
{
    if (mv)
    {
        if (via == 0) w.emplace(std::move(tmp));
        else if (via == 1) *w = std::move(tmp);
        else w->reset(std::move(tmp));
    }
    else
    {
        if constexpr (std::is_copy_constructible_v<S>)
        {
            if (via == 0) w.emplace(tmp);
            else if (via == 1) *w = tmp;
            else w->reset(tmp);
        }
    }
}

template <typename W>
static void sender_store(std::optional<W>& w, bool anyk, int big, int cpy, int beh, int k, int mv, int via, int aln)
{
    if (aln) { Sender<false, true, true> t(k, beh); store_into(w, t, mv, via); }
    else if (big && cpy) { Sender<true, true> t(k, beh); store_into(w, t, mv, via); }
    else if (!big && cpy) { Sender<false, true> t(k, beh); store_into(w, t, mv, via); }
    else if constexpr (std::is_same_v<W, US>)
    {
        if (big) { Sender<true, false> t(k, beh); store_into(w, t, 1, via); }
        else { Sender<false, false> t(k, beh); store_into(w, t, 1, via); }
    }
    (void) anyk;
}

static std::string sender_empties(int nu, int na)
{
    std::string s;
    for (int i = 0; i < nu; ++i)
    {
        bool e = U[i]->empty();
        if (e == static_cast<bool>(*U[i])) ++g_boolmis;
        s += e ? '1' : '0';
    }
    for (int i = 0; i < na; ++i)
    {
        bool e = A[i]->empty();
        if (e == static_cast<bool>(*A[i])) ++g_boolmis;
        s += e ? '1' : '0';
    }
    return s;
}

static void run_sender_case(int nu, int na, std::vector<OpRec> const& ops)
{
    for (int i = 0; i < nu; ++i) U[i].emplace();
    for (int i = 0; i < na; ++i) A[i].emplace();
    for (auto const& o : ops)
    {
        std::string res = "-";
        int j = o.a[0];
        bool ju = j < nu;
        bool thr = o.name.size() == 2 && o.name[1] == 'x';
        std::string nm = o.name;
        if (thr) nm = o.name == "sx" ? "st" : o.name == "cx" ? "cp" : o.name == "nx" ? "ns" : o.name == "mx" ? "mv" :
                                      o.name == "ax" ? "ma" : "cr";
        try
        {
        std::optional<Arm> arm;
        if (thr) arm.emplace();
        if (nm == "st")
        {
            if (ju) sender_store(U[j], false, o.a[1], o.a[2], o.a[3], o.a[4], o.a[5], o.a[6], o.a[7]);
            else sender_store(A[j - nu], true, o.a[1], 1, o.a[3], o.a[4], o.a[5], o.a[6], o.a[7]);
        }
        else if (nm == "ns")
        {
            int i = o.a[1], via = o.a[2];
            AS& src = *A[i - nu];    // l-value: the template constructor / operator= / reset stores a copy of it
            if (via == 0) U[j].emplace(src);
            else if (via == 1) *U[j] = src;
            else U[j]->reset(src);
        }
        else if (nm == "mv")
        {
            int i = o.a[1], via = o.a[2];
            if (ju)
            {
                if (via == 0) U[j].emplace(std::move(*U[i]));
                else if (via == 1) *U[j] = std::move(*U[i]);
                else U[j]->reset(std::move(*U[i]));
            }
            else
            {
                if (via == 0) A[j - nu].emplace(std::move(*A[i - nu]));
                else if (via == 1) *A[j - nu] = std::move(*A[i - nu]);
                else A[j - nu]->reset(std::move(*A[i - nu]));
            }
        }
        else if (nm == "ma")
        {
            int i = o.a[1], via = o.a[2];
            if (via == 0) U[j].emplace(std::move(*A[i - nu]));
            else *U[j] = std::move(*A[i - nu]);
        }
        else if (nm == "cp")
        {
            int i = o.a[1], via = o.a[2];
            AS const& src = *A[i - nu];
            if (via == 0) A[j - nu].emplace(src);
            else if (via == 1) *A[j - nu] = src;
            else A[j - nu]->reset(src);
        }
        else if (nm == "rs")
        {
            if (ju) U[j]->reset();
            else A[j - nu]->reset();
        }
        else if (nm == "cr")
        {
            res = ju ? connect_rv(*U[j]) : connect_rv(*A[j - nu]);
        }
        else if (nm == "cl")
        {
            res = connect_lv(*A[j - nu]);
        }
        }
        catch (...)
        {
            res = exc_token();
        }
        // a constructor of std::optional's payload that threw leaves the optional disengaged: the wrapper
        // object does not exist; the slot continues as a default-constructed wrapper
        if (ju && !U[j]) U[j].emplace();
        if (!ju && !A[j - nu]) A[j - nu].emplace();
        emit_step(res, sender_empties(nu, na));
    }
    for (int i = 0; i < nu; ++i) U[i].reset();
    for (int i = 0; i < na; ++i) A[i].reset();
    emit_step("-", "-");
}

static std::vector<OpRec> gen_sender_ops(Rng& g, int nu, int na)
{
    std::vector<OpRec> ops;
    int n = 1 + g.below(g.chance(1, 3) ? 6 : 26);
    int tot = nu + na;
    for (int t = 0; t < n; ++t)
    {
        OpRec o;
        int r = g.below(100);
        if (r < 22)
        {
            int j = g.below(tot);
            bool ju = j < nu;
            int big = g.below(2), cpy = ju ? g.below(2) : 1;
            int beh = g.chance(1, 8) ? 3 : g.below(3);
            int k = g.below(90);
            int mv = cpy ? g.below(2) : 1;
            int aln = g.chance(1, 6) ? 1 : 0;
            if (aln) big = 0, cpy = 1, mv = g.below(2);
            o.name = g.chance(1, 12) ? "sx" : "st";
            o.n = 8;
            int v[8] = {j, big, cpy, beh, k, mv, g.below(3), aln};
            std::memcpy(o.a, v, sizeof v);
        }
        else if (r < 30)
        {
            int via = g.below(3);
            o.name = g.chance(1, 6) ? "nx" : "ns";
            o.n = 3;
            o.a[0] = g.below(nu), o.a[1] = nu + g.below(na), o.a[2] = via;
        }
        else if (r < 42)
        {
            bool uk = g.chance(1, 2);
            int base = uk ? 0 : nu, cnt = uk ? nu : na;
            int j = base + g.below(cnt), i = base + g.below(cnt);
            int via = g.below(3);
            if (j == i && via == 0) via = 1 + g.below(2);
            o.name = (j != i && g.chance(1, 6)) ? "mx" : "mv";
            o.n = 3;
            o.a[0] = j, o.a[1] = i, o.a[2] = via;
        }
        else if (r < 50)
        {
            o.name = g.chance(1, 6) ? "ax" : "ma";
            o.n = 3;
            o.a[0] = g.below(nu), o.a[1] = nu + g.below(na), o.a[2] = g.below(2);
        }
        else if (r < 64)
        {
            int j = nu + g.below(na), i = nu + g.below(na);
            int via = g.below(3);
            if (j == i && via == 0) via = 1 + g.below(2);
            o.name = (j != i && g.chance(1, 6)) ? "cx" : "cp";
            o.n = 3;
            o.a[0] = j, o.a[1] = i, o.a[2] = via;
        }
        else if (r < 70)
        {
            o.name = "rs";
            o.n = 1;
            o.a[0] = g.below(tot);
        }
        else if (r < 86)
        {
            o.name = g.chance(1, 8) ? "rx" : "cr";
            o.n = 1;
            o.a[0] = g.below(tot);
        }
        else
        {
            o.name = "cl";
            o.n = 1;
            o.a[0] = nu + g.below(na);
        }
        ops.push_back(o);
    }
    return ops;
}

// ------------------------------------------------------------ function cases

template <typename W, typename C>
static void fn_store_into(std::optional<W>& w, C& tmp, int mv, int via)
{
    if (mv)
    {
        if (via == 0) w.emplace(std::move(tmp));
        else if (via == 1) *w = std::move(tmp);
        else w->assign(std::move(tmp));
    }
    else
    {
        if constexpr (std::is_copy_constructible_v<C>)
        {
            if (via == 0) w.emplace(tmp);
            else if (via == 1) *w = tmp;
            else w->assign(tmp);
        }
    }
}

template <typename W>
static void fn_store(std::optional<W>& w, int big, int cpy, int beh, int k, int mv, int via, int aln)
{
    if (aln) { Callable<false, true, true> t(k, beh); fn_store_into(w, t, mv, via); }
    else if (big && cpy) { Callable<true, true> t(k, beh); fn_store_into(w, t, mv, via); }
    else if (!big && cpy) { Callable<false, true> t(k, beh); fn_store_into(w, t, mv, via); }
    else if constexpr (std::is_same_v<W, UF>)
    {
        if (big) { Callable<true, false> t(k, beh); fn_store_into(w, t, 1, via); }
        else { Callable<false, false> t(k, beh); fn_store_into(w, t, 1, via); }
    }
}

// unique_function <- function holding a callable (nf): the function is built first, then stored by l- or r-value
template <typename C>
static void nested_store(std::optional<UF>& w, C& t, int ie, int mvi, int mv, int via)
{
    FN tf;
    if (!ie)
    {
        if (mvi) tf = std::move(t);
        else tf = t;
    }
    fn_store_into(w, tf, mv, via);
}
static void fn_store_nested(std::optional<UF>& w, int big, int beh, int k, int ie, int mvi, int mv, int via, int aln)
{
    if (aln) { Callable<false, true, true> t(k, beh); nested_store(w, t, ie, mvi, mv, via); }
    else if (big) { Callable<true, true> t(k, beh); nested_store(w, t, ie, mvi, mv, via); }
    else { Callable<false, true> t(k, beh); nested_store(w, t, ie, mvi, mv, via); }
}

// target<T>(): q = 0 asks for function<int(int)>, q = 1 + 4*big + 2*cpy + aln for a test callable
template <typename W, typename T>
static std::string target_of(W& w)
{
    T* p = w.template target<T>();
    W const& cw = w;
    if ((p != nullptr) != (cw.template target<T>() != nullptr)) ++g_boolmis;
    if (!p) return "-";
    if constexpr (std::is_same_v<T, FN>) return p->empty() ? "V0" : "V1";
    else return "V" + std::to_string(p->b.c.k * 100 + p->b.c.calls);
}
template <typename W>
static std::string fn_target(W& w, int q)
{
    if (q == 0)
    {
        if constexpr (std::is_same_v<W, UF>) return target_of<W, FN>(w);
        else return "-";    // a function never stores a function (copy / move constructors are chosen)
    }
    int big = ((q - 1) >> 2) & 1, cpy = ((q - 1) >> 1) & 1, aln = (q - 1) & 1;
    if (aln) return (big || !cpy) ? std::string("-") : target_of<W, Callable<false, true, true>>(w);    // no such test type
    if (big && cpy) return target_of<W, Callable<true, true>>(w);
    if (!big && cpy) return target_of<W, Callable<false, true>>(w);
    if constexpr (std::is_same_v<W, UF>)
    {
        if (big) return target_of<W, Callable<true, false>>(w);
        return target_of<W, Callable<false, false>>(w);
    }
    return "-";
}

template <typename W>
static std::string fn_empties(std::optional<W>* S, int n)
{
    std::string s;
    for (int i = 0; i < n; ++i)
    {
        bool e = S[i]->empty();
        if (e == static_cast<bool>(*S[i])) ++g_boolmis;
        s += e ? '1' : '0';
    }
    return s;
}

template <typename W>
static void run_fn_case(std::optional<W>* S, int n, std::vector<OpRec> const& ops)
{
    for (int i = 0; i < n; ++i) S[i].emplace();
    for (auto const& o : ops)
    {
        std::string res = "-";
        int j = o.a[0], i = o.a[1];
        try
        {
        if (o.name == "st") fn_store(S[j], o.a[1], o.a[2], o.a[3], o.a[4], o.a[5], o.a[6], o.a[7]);
        else if (o.name == "sx")
        {
            Arm arm;
            fn_store(S[j], o.a[1], o.a[2], o.a[3], o.a[4], o.a[5], o.a[6], o.a[7]);
        }
        else if (o.name == "nf")
        {
            if constexpr (std::is_same_v<W, UF>)
                fn_store_nested(S[j], o.a[1], o.a[3], o.a[4], o.a[5], o.a[6], o.a[7], o.a[8], o.a[9]);
        }
        else if (o.name == "tg") res = fn_target(*S[j], o.a[1]);
        else if (o.name == "kx")
        {
            if constexpr (std::is_copy_constructible_v<W>)
            {
                W const& src = *S[i];
                Arm arm;
                S[j].emplace(src);
            }
        }
        else if (o.name == "cc")
        {
            if constexpr (std::is_copy_constructible_v<W>)
            {
                W const& src = *S[i];
                S[j].emplace(src);
            }
        }
        else if (o.name == "mc") S[j].emplace(std::move(*S[i]));
        else if (o.name == "ca")
        {
            if constexpr (std::is_copy_constructible_v<W>)
            {
                W const& src = *S[i];
                *S[j] = src;
            }
        }
        else if (o.name == "cx")
        {
            // copy assignment while the wrapped type's copy constructor throws (finding F9b)
            if constexpr (std::is_copy_constructible_v<W>)
            {
                W const& src = *S[i];
                g_copy_throws = true;
                try
                {
                    *S[j] = src;
                }
                catch (...)
                {
                    res = exc_token();
                }
                g_copy_throws = false;
            }
        }
        else if (o.name == "ma") *S[j] = std::move(*S[i]);
        else if (o.name == "sw") S[j]->swap(*S[i]);
        else if (o.name == "rs")
        {
            if (o.a[1] == 0) S[j]->reset();
            else if (o.a[1] == 1) S[j]->assign(nullptr);
            else
            {
                int (*fp)(int) = nullptr;
                S[j]->assign(fp);
            }
        }
        else if (o.name == "iv")
        {
            try
            {
                int v = (*S[j])(o.a[1]);
                res = "V" + std::to_string(v);
            }
            catch (...)
            {
                res = exc_token();
            }
        }
        }
        catch (...)
        {
            res = exc_token();
        }
        if (!S[j]) S[j].emplace();    // a wrapper whose constructor threw does not exist: default-constructed slot
        emit_step(res, fn_empties(S, n));
    }
    for (int i = 0; i < n; ++i) S[i].reset();
    emit_step("-", "-");
}

static std::vector<OpRec> gen_fn_ops(Rng& g, int n, bool copyable)
{
    std::vector<OpRec> ops;
    int cnt = 1 + g.below(g.chance(1, 3) ? 6 : 26);
    for (int t = 0; t < cnt; ++t)
    {
        OpRec o;
        int r = g.below(100);
        int j = g.below(n), i = g.below(n);
        if (r < 24)
        {
            int big = g.below(2), cpy = copyable ? 1 : g.below(2);
            int beh = g.below(2), k = g.below(90);
            int mv = cpy ? g.below(2) : 1;
            int aln = g.chance(1, 6) ? 1 : 0;
            if (aln) big = 0, cpy = 1, mv = g.below(2);
            int via = g.below(3);
            o.name = "st";
            // the constructor of a wrapper from a SMALL callable whose copy / move constructor throws
            if (!big && g.chance(1, 12)) o.name = "sx", via = 0;
            o.n = 8;
            int v[8] = {j, big, cpy, beh, k, mv, via, aln};
            std::memcpy(o.a, v, sizeof v);
        }
        else if (r < 32 && !copyable)
        {
            int aln = g.chance(1, 6) ? 1 : 0;
            o.name = "nf";
            o.n = 10;
            int v[10] = {j, aln ? 0 : g.below(2), 1, g.below(2), g.below(90), g.chance(1, 8) ? 1 : 0, g.below(2), g.below(2),
                g.below(3), aln};
            std::memcpy(o.a, v, sizeof v);
        }
        else if (r < 36)
        {
            o.name = "tg";
            o.n = 2;
            o.a[0] = j, o.a[1] = g.below(9);
        }
        else if (r < 56)
        {
            static char const* two[] = {"cc", "mc", "ca", "ma", "sw"};
            int w = g.below(5);
            if (!copyable && (w == 0 || w == 2)) w = w == 0 ? 1 : 3;
            if ((w == 0 || w == 1) && j == i) i = (j + 1) % n;    // construction needs two objects
            o.name = two[w];
            o.n = 2;
            o.a[0] = j, o.a[1] = i;
        }
        else if (r < 64)
        {
            o.name = "rs";
            o.n = 2;
            o.a[0] = j, o.a[1] = g.below(3);
        }
        else
        {
            o.name = "iv";
            o.n = 2;
            o.a[0] = j, o.a[1] = g.below(10);
        }
        ops.push_back(o);
    }
    return ops;
}

// ------------------------------------------------------------ case driver
static void run_case(std::string const& kind, std::string const& id, int p1, int p2,
    std::vector<OpRec> const& ops)
{
    std::string opstr;
    for (auto const& o : ops) opstr += (opstr.empty() ? "" : ";") + o.str();
#if defined(PIKA_DETAIL_ENABLE_ANY_SENDER_SBO)
    int sbo = 1;
#else
    int sbo = 0;
#endif
    if (kind == "SND")
        std::printf("IN SND %s sbo=%d nu=%d na=%d ops=%s\n", id.c_str(), sbo, p1, p2, opstr.c_str());
    else
        std::printf("IN %s %s copyable=%d n=%d ops=%s\n", kind.c_str(), id.c_str(), p1, p2, opstr.c_str());
    std::fflush(stdout);
    g_steps.clear();
    g_steps.reserve(1 << 16);
    g_boolmis = g_multi = 0;
    LG.reset();
    g_nlive = g_nquar = g_dfree = g_badfree = 0;
    g_nhist = 0;
    g_track = true;
    if (kind == "SND") run_sender_case(p1, p2, ops);
    else if (p1) run_fn_case(F, p2, ops);
    else run_fn_case(Q, p2, ops);
    g_track = false;
    // g_steps grew while tracking: its buffer was reserved before, so normally no block of it is
    // in the live table; drop a possible regrowth block from the table
    int leak = 0;
    for (int i = 0; i < g_nlive; ++i)
        if (g_live[i] != (void*) g_steps.data()) ++leak;
    for (int i = 0; i < g_nquar; ++i) std::free(g_quar[i]);
    g_nquar = 0;
    int notdead = 0;
    for (std::uint32_t i = 0; i < LG.next && i < sizeof LG.st; ++i)
        if (LG.st[i] != 2) ++notdead;
    std::printf("OUT %s %s %s\n", kind.c_str(), id.c_str(), g_steps.c_str());
    std::printf("MON %s %s constructed=%u alive_at_end=%d double_destroy=%d garbage=%d dead_use=%d "
                "blocks_leaked=%d double_free=%d bool_mismatch=%d completion_count_bad=%d misaligned=%d bad_free=%d live=",
        kind.c_str(), id.c_str(), LG.next, notdead, LG.dbl, LG.garbage, LG.dead_use,
        leak, g_dfree, g_boolmis, g_multi, LG.misaligned, g_badfree);
    for (int i = 0; i < g_nhist; ++i) std::printf(i ? ".%d" : "%d", g_livehist[i]);
    std::printf("\n");
    std::fflush(stdout);
}

// ------------------------------------------------------------ TYPES case
template <typename Base, std::size_t N>
struct Probe : pika::detail::movable_sbo_storage<Base, N>
{
    template <typename I>
    static constexpr bool can()
    {
        return pika::detail::movable_sbo_storage<Base, N>::template can_use_embedded_storage<I>();
    }
};
static std::string g_titems, g_tdec;
template <typename S, bool Big, bool Aln, bool Cpy>
static void types_sender()
{
    char b[96];
    using UI = ex::detail::unique_any_sender_impl<S, int>;
    std::snprintf(b, sizeof b, "U,%zu,%zu,%d,%d;", sizeof(UI), alignof(UI), (int) Big, (int) Aln);
    g_titems += b;
    g_tdec += Probe<ex::detail::unique_any_sender_base<int>, 4 * sizeof(void*)>::template can<UI>() ? '1' : '0';
    if constexpr (Cpy)
    {
        using AI = ex::detail::any_sender_impl<S, int>;
        std::snprintf(b, sizeof b, "A,%zu,%zu,%d,%d;", sizeof(AI), alignof(AI), (int) Big, (int) Aln);
        g_titems += b;
        g_tdec += Probe<ex::detail::any_sender_base<int>, 4 * sizeof(void*)>::template can<AI>() ? '1' : '0';
    }
    using OI = ex::detail::any_operation_state_holder_impl<S, int>;
    std::snprintf(b, sizeof b, "O,%zu,%zu,%d,%d;", sizeof(OI), alignof(OI), (int) Big, 0);
    g_titems += b;
    g_tdec += Probe<ex::detail::any_operation_state_holder_base, 8 * sizeof(void*)>::template can<OI>() ? '1' : '0';
}
template <typename C, bool Big>
static void types_callable()
{
    char b[96];
    std::snprintf(b, sizeof b, "F,%zu,%zu,%d,%d;", sizeof(C), alignof(C), (int) Big, (int) (alignof(C) > alignof(void*)));
    g_titems += b;
    alignas(16) unsigned char buf[pika::util::detail::function_storage_size];
    void* p = pika::util::detail::vtable::allocate<C>(buf, pika::util::detail::function_storage_size);
    g_tdec += p == (void*) buf ? '1' : '0';    // 1 = inline
    pika::util::detail::vtable::_deallocate<C>(p, pika::util::detail::function_storage_size, false);
}
static void run_types_case()
{
    g_titems.clear();
    g_tdec.clear();
    types_sender<Sender<false, true>, false, false, true>();
    types_sender<Sender<true, true>, true, false, true>();
    types_sender<Sender<false, false>, false, false, false>();
    types_sender<Sender<true, false>, true, false, false>();
    types_sender<Sender<false, true, true>, false, true, true>();
    types_callable<Callable<false, true>, false>();
    types_callable<Callable<true, true>, true>();
    types_callable<Callable<false, false>, false>();
    types_callable<Callable<true, false>, true>();
    types_callable<Callable<false, true, true>, false>();
    types_callable<FN, true>();
#if defined(PIKA_DETAIL_ENABLE_ANY_SENDER_SBO)
    int sbo = 1;
#else
    int sbo = 0;
#endif
    std::printf("IN TYPES t sbo=%d ptr=%zu items=%s\n", sbo, sizeof(void*), g_titems.c_str());
    std::printf("OUT TYPES t %s\n", g_tdec.c_str());
    std::fflush(stdout);
}

static int field(std::string const& line, char const* key)
{
    std::size_t p = line.find(std::string(" ") + key + "=");
    if (p == std::string::npos) return 0;
    return std::atoi(line.c_str() + p + std::strlen(key) + 2);
}

static void warm_up()
{
    // first-use initialisation inside libpika / libstdc++ (error categories, locale, fmt) must
    // not be charged to a case
    try
    {
        FN f;
        f(1);
    }
    catch (...)
    {
    }
    try
    {
        US u;
        Rec rec;
        auto os = ex::connect(std::move(u), Recv{&rec});
        ex::start(os);
    }
    catch (...)
    {
    }
    LG.reset();
}

int main(int argc, char** argv)
{
    alarm(600);
    // libpika logs every created exception to stderr; keep it unless asked otherwise
    if (!std::getenv("C18_KEEP_STDERR")) (void) std::freopen("/dev/null", "w", stderr);
    g_slots_lo = (char*) &SL;
    g_slots_hi = (char*) &SL + sizeof SL;
    warm_up();
    if (argc > 2 && std::string(argv[1]) == "replay")
    {
        std::string line = argv[2];
        std::size_t p = line.find(" ops=");
        std::string opstr = p == std::string::npos ? "" : line.substr(p + 5);
        auto ops = parse_ops(opstr);
        if (line.rfind("IN SND", 0) == 0) run_case("SND", "r", field(line, "nu"), field(line, "na"), ops);
        else if (line.rfind("IN TYPES", 0) == 0) run_types_case();
        else
        {
            std::string kind = line.substr(3, line.find(' ', 3) - 3);
            run_case(kind, "r", field(line, "copyable"), field(line, "n"), ops);
        }
        return 0;
    }
    std::uint64_t seed = argc > 1 ? std::strtoull(argv[1], nullptr, 10) : 1;
    int ncases = argc > 2 ? std::atoi(argv[2]) : 100;
    int first = argc > 3 ? std::atoi(argv[3]) : 0;
    std::string kinds = argc > 4 ? argv[4] : "sf";
    if (kinds == "t")
    {
        run_types_case();
        return 0;
    }
    if (kinds == "x")
    {
        // witness shapes for throwing constructors in the function wrappers (each kind = one function of the source):
        //  FUNX  op_assign(const&): (0) onto a function of the same stored type -> the old object is destroyed twice
        //                           (1) onto an EMPTY function (small T) -> stale vptr: a later copy assignment is a no-op
        //  FUNA  assign(F&&):       (2) same stored type -> destroyed twice   (3) onto an empty function (small T) -> stale
        //  FUNK  constructors of small T (function(F&&), copy constructor): consistent, nothing leaks
        //  FUNL  constructors of big T: the heap buffer from vtable::allocate is leaked
        for (int cs = first; cs < ncases; ++cs)
        {
            Rng g(seed * 7000003ull + (std::uint64_t) cs);
            int shape = cs % 6;
            int n = 2 + g.below(2), big = g.below(2);
            if (shape == 1 || shape == 3 || shape == 4) big = 0;
            if (shape == 5) big = 1;
            int j = g.below(n), i = (j + 1 + g.below(n - 1)) % n;
            std::vector<OpRec> ops;
            auto st = [&](char const* name, int slot, int via) {
                OpRec o;
                o.name = name;
                o.n = 8;
                int v[8] = {slot, big, 1, g.below(2), g.below(90), g.below(2), via, 0};
                std::memcpy(o.a, v, sizeof v);
                ops.push_back(o);
            };
            auto two = [&](char const* name, int a, int b) {
                OpRec o;
                o.name = name;
                o.n = 2;
                o.a[0] = a, o.a[1] = b;
                ops.push_back(o);
            };
            char const* kind = "FUNX";
            if (shape == 0)
            {
                st("st", j, g.below(3));
                st("st", i, g.below(3));
                for (int t = g.below(3); t > 0; --t) two("iv", g.chance(1, 2) ? j : i, g.below(10));
                two("cx", j, i);
            }
            else if (shape == 1)
            {
                st("st", i, g.below(3));
                two("cx", j, i);
                two("tg", j, 1 + 2);
                two("ca", j, i);
                two("iv", i, g.below(10));
            }
            else if (shape == 2)
            {
                kind = "FUNA";
                st("st", j, g.below(3));
                for (int t = g.below(3); t > 0; --t) two("iv", j, g.below(10));
                st("sx", j, 1 + g.below(2));
            }
            else if (shape == 3)
            {
                kind = "FUNA";
                st("sx", j, 1 + g.below(2));
                st("st", i, g.below(3));
                two("ca", j, i);
                two("iv", i, g.below(10));
            }
            else
            {
                kind = shape == 4 ? "FUNK" : "FUNL";
                st("st", i, g.below(3));
                two("kx", j, i);
                two("iv", j, g.below(10));
                st("sx", j, 0);
                two("iv", j, g.below(10));
                two("iv", i, g.below(10));
            }
            run_case(kind, std::to_string(seed) + ".x" + std::to_string(cs), 1, n, ops);
        }
        return 0;
    }
    for (int cs = first; cs < ncases; ++cs)
    {
        Rng g(seed * 1000003ull + (std::uint64_t) cs);
        std::string id = std::to_string(seed) + "." + std::to_string(cs);
        bool snd = kinds == "s" || (kinds == "sf" && (cs % 2 == 0));
        if (snd)
        {
            int nu = 1 + g.below(3), na = 1 + g.below(3);
            auto ops = gen_sender_ops(g, nu, na);
            run_case("SND", id, nu, na, ops);
        }
        else
        {
            int copyable = g.below(2);
            int n = 2 + g.below(3);
            auto ops = gen_fn_ops(g, n, copyable != 0);
            run_case("FUN", id, copyable, n, ops);
        }
    }
    return 0;
}
