// harness/c07_tpred.cpp — C07 "predicate and timed forms return the value of the predicate; wait returns with the user
// lock re-acquired", for the TIMED PREDICATE forms of the public header:
//     condition_variable::wait_until / wait_for (unique_lock<Mutex>&, t, pred)
//     condition_variable_any::wait_until / wait_for (Lock&, t, pred)
//     condition_variable_any::wait_until / wait_for (Lock&, stop_token, t, pred)
// Their loop is   while (!pred()) { if (wait_until(lock, t) == timeout) return pred(); }  return true;
// the value returned after a time-out has to be pred() evaluated AFTER the user lock was re-acquired.  A stale value is only
// visible when the predicate changes between the deadline and the re-acquisition of the user lock (or changes without a
// notification), which no other scenario of c07_rt produces.
//
// usage: c07_tpred <seed> <n>            n seeded concurrent cases (mode RT)
//        c07_tpred <seed> <n> seq        n sequential scripted cases (mode SEQ, DIFF against the model's loop)
//        c07_tpred one <seed> <index> [seq]   re-run one case
//
// Mode RT, one case = one waiter + one notifier:
//   waiter    pika task | plain OS thread;   notifier  plain OS thread | pika task
//   user lock std::unique_lock<probe_mutex<M>>, M = std::mutex | spinlock | pika::mutex (pika::mutex only between two tasks).
//             probe_mutex is an ordinary user Mutex that counts lock() calls and remembers its owner: the notifier that HOLDS
//             it sees the waiter's attempt to re-acquire it (the waiter has then left the condition variable's internals),
//             so "the notifier holds the user lock across the deadline" needs no timing margin at all (a notifier that gets
//             the lock only after the waiter's second lock() call came too late: the case degrades, exercised=0);
//   timing    never         nobody touches the predicate                                   -> false, not before the deadline
//             early_notify  predicate := true under the lock + notify (task waiters only)   -> true
//             early_silent  predicate := true under the lock, NO notification               -> true (at the deadline)
//             late_notify   notifier takes the lock while the waiter sleeps, keeps it until the waiter (deadline passed) is
//                           blocked re-acquiring it, predicate := true, notify_all, unlock  -> true
//             late_silent   same without notification                                       -> true
//             late_false    same, predicate left false                                      -> false
//             late_stop     (stop-token forms) same, predicate := true + request_stop      -> true
//             flip          (task waiters) predicate := true + notify_all early, lock kept until the waiter is blocked
//                           re-acquiring it, predicate := false, unlock                     -> false
//   F14 (timed wait on a plain OS thread + notify while it is queued blocks the notifier for ever) is avoided by construction:
//   for OS-thread waiters a notification / request_stop is only issued after the waiter's re-lock attempt was seen (its queue
//   entry is gone by then), never while it sleeps.
// Monitors (model independent): the returned value equals the predicate read under the user lock right after the return
// (`value`); the lock is owned by the caller on return (`lock_not_owned`) and at every evaluation of the predicate
// (`pred_without_lock`); false is not returned before the deadline (`early`); the call returns (`no_return`, 20 s after the
// deadline / the release of the lock); the waiter tries to re-acquire the lock after its deadline (`no_relock`).
// Mode SEQ: one thread (OS thread or task), a scripted predicate (its i-th evaluation returns script[i]) and a deadline that
// has already passed (wait_until(past) / wait_for(0)) or is 1..3 ms away: the trace of predicate evaluations (P0/P1) and
// detail-level timed waits (W, hook 706) and the returned value are compared with Model/TimedPredLoop.v (all inner waits time
// out: nobody notifies).
#include <pika/config.hpp>
#include <pika/init.hpp>
#include <pika/modules/errors.hpp>
#include <pika/modules/threading.hpp>
#include <pika/synchronization/condition_variable.hpp>
#include <pika/synchronization/mutex.hpp>
#include <pika/synchronization/stop_token.hpp>
#include <pika/threading_base/thread_data.hpp>

#include <atomic>
#include <chrono>
#include <cstdint>
#include <cstdio>
#include <cstdlib>
#include <memory>
#include <mutex>
#include <pthread.h>
#include <sstream>
#include <string>
#include <thread>
#include <unistd.h>
#include <vector>

#if !defined(PIKA_VERIF)
# error "harnesses must be compiled with -DPIKA_VERIF"
#endif

using clk = std::chrono::steady_clock;
using spinlock = pika::concurrency::detail::spinlock;

struct Rng
{
    std::uint64_t x;
    explicit Rng(std::uint64_t seed)
      : x(seed * 0x9E3779B97F4A7C15ull + 0x7654321ull)
    {
    }
    std::uint64_t next()
    {
        std::uint64_t z = (x += 0x9E3779B97F4A7C15ull);
        z = (z ^ (z >> 30)) * 0xBF58476D1CE4E5B9ull;
        z = (z ^ (z >> 27)) * 0x94D049BB133111EBull;
        return z ^ (z >> 31);
    }
    int below(int n) { return n > 0 ? int(next() % std::uint64_t(n)) : 0; }
    bool chance(int num, int den) { return below(den) < num; }
};

// identity of the calling task / OS thread (never cached across a suspension: the OS thread id is read through a noinline call)
__attribute__((noinline)) static std::uint64_t os_self() { return std::uint64_t(pthread_self()); }
static std::uint64_t self_id()
{
    if (pika::threads::detail::get_self_ptr()) return std::uint64_t(reinterpret_cast<std::uintptr_t>(pika::threads::detail::get_self_id().get())) | 1u;
    return os_self() & ~std::uint64_t(1);
}

// an ordinary user Mutex: counts lock() calls (before blocking) and remembers its owner
template <typename M>
struct probe_mutex
{
    M m;
    std::atomic<int> attempts{0};    // lock() calls of the watched thread (the waiter), counted before it blocks
    std::atomic<std::uint64_t> watch{0};
    std::atomic<std::uint64_t> owner{0};
    void lock()
    {
        if (self_id() == watch.load(std::memory_order_acquire)) attempts.fetch_add(1, std::memory_order_acq_rel);
        m.lock();
        owner.store(self_id(), std::memory_order_release);
    }
    void unlock()
    {
        owner.store(0, std::memory_order_release);
        m.unlock();
    }
    bool try_lock()
    {
        if (!m.try_lock()) return false;
        owner.store(self_id(), std::memory_order_release);
        return true;
    }
    bool mine() const { return owner.load(std::memory_order_acquire) == self_id(); }
};

// a hand-written BasicLockable (condition_variable_any accepts any lock with lock()/unlock())
template <typename PM>
struct basic_lock
{
    PM& m;
    bool owned = false;
    explicit basic_lock(PM& m_)
      : m(m_)
    {
    }
    void lock()
    {
        m.lock();
        owned = true;
    }
    void unlock()
    {
        owned = false;
        m.unlock();
    }
    bool owns_lock() const { return owned; }
};

static void pause_a_bit()
{
    if (pika::threads::detail::get_self_ptr()) pika::this_thread::yield();
    else std::this_thread::sleep_for(std::chrono::microseconds(50));
}
// a holder of a std::mutex must not be suspended (it has to unlock on the same OS thread): block the OS thread instead
static void pause_holding(bool may_yield)
{
    if (may_yield && pika::threads::detail::get_self_ptr()) pika::this_thread::yield();
    else std::this_thread::sleep_for(std::chrono::microseconds(50));
}
template <typename F>
static bool wait_true(F f, int ms)
{
    auto t0 = clk::now();
    while (!f())
    {
        pause_a_bit();
        if (clk::now() - t0 > std::chrono::milliseconds(ms)) return false;
    }
    return true;
}

// ------------------------------------------------------------------ event trace of the (single) waiter of the current case
static std::atomic<int> g_case{-1};
static std::atomic<long> g_heartbeat{0};
static std::atomic<int> g_tr_len{0};
static char g_tr[256];
static std::atomic<bool> g_tr_on{false};
static void tr_add(char a, char b = 0)
{
    if (!g_tr_on.load(std::memory_order_acquire)) return;
    int i = g_tr_len.fetch_add(b ? 2 : 1);
    if (i + 2 < int(sizeof(g_tr)))
    {
        g_tr[i] = a;
        if (b) g_tr[i + 1] = b;
    }
}
static void hookfn(int site, void const*, std::uint64_t, std::uint64_t)
{
    if (site == 706) tr_add('W');
}
static std::string tr_get()
{
    int n = g_tr_len.load();
    if (n > int(sizeof(g_tr)) - 2) n = int(sizeof(g_tr)) - 2;
    return std::string(g_tr, g_tr + n);
}

struct Outcome
{
    bool ok = true;
    std::string what, detail;
    void fail(char const* w, std::string const& d)
    {
        if (ok)
        {
            ok = false;
            what = w;
            detail = d;
        }
    }
};

enum Timing
{
    T_NEVER,
    T_EARLY_NOTIFY,
    T_EARLY_SILENT,
    T_LATE_NOTIFY,
    T_LATE_SILENT,
    T_LATE_FALSE,
    T_LATE_STOP,
    T_FLIP,
    NTIMING
};
static char const* const TIMING[NTIMING] = {"never", "early_notify", "early_silent", "late_notify", "late_silent", "late_false", "late_stop", "flip"};
static char const* const FORM[4] = {"wait_for", "wait_until", "stop_wait_for", "stop_wait_until"};

struct Params
{
    int cvk;        // 0 condition_variable, 1 condition_variable_any + unique_lock, 2 condition_variable_any + BasicLockable
    int form;       // 0 wait_for 1 wait_until 2 stop wait_for 3 stop wait_until
    int mk;         // 0 std::mutex 1 spinlock 2 pika::mutex
    bool waiter_os, notifier_os;
    int timing;
    int dur_ms;
    bool notify_under_lock, notify_one;
};

template <typename T>
static void run_thread(bool os, T f)
{
    if (os) std::thread(std::move(f)).detach();
    else
    {
        pika::thread t(std::move(f));
        t.detach();
    }
}

template <typename M, typename CV, bool Basic>
static Outcome run_case(Params const& p, int* exercised)
{
    using PM = probe_mutex<M>;
    using Lock = std::conditional_t<Basic, basic_lock<PM>, std::unique_lock<PM>>;
    struct Shared
    {
        PM mu;
        CV cv;
        pika::stop_source ss;
        bool flag = false;
        std::atomic<int> registered{0};
        std::atomic<bool> done{false}, ndone{false};
        bool ret = false, flag_at_ret = false, owns = false, threw = false;
        int evals = 0, unowned = 0;
        std::atomic<int> caught{-1};    // late scenarios: 1 = the notifier got the lock before the waiter's re-lock attempt
        clk::time_point t_call, t_ret, t_set;
        Outcome nout;
    };
    auto sh = std::make_shared<Shared>();
    Outcome out;
    bool const may_yield = !std::is_same_v<M, std::mutex>;
    g_tr_len.store(0);
    g_tr_on.store(true, std::memory_order_release);

    run_thread(p.waiter_os, [sh, p] {
        sh->mu.watch.store(self_id(), std::memory_order_release);
        Lock lk(sh->mu);
        if constexpr (Basic) lk.lock();
        auto pred = [&] {
            ++sh->evals;
            bool own = sh->mu.mine();
            if (!own) ++sh->unowned;
            bool v = sh->flag;
            tr_add('P', v ? '1' : '0');
            return v;
        };
        sh->t_call = clk::now();
        sh->registered.store(1, std::memory_order_release);
        auto const d = std::chrono::milliseconds(p.dur_ms);
        try
        {
            if constexpr (std::is_same_v<CV, pika::condition_variable_any>)
            {
                if (p.form == 0) sh->ret = sh->cv.wait_for(lk, d, pred);
                else if (p.form == 1) sh->ret = sh->cv.wait_until(lk, sh->t_call + d, pred);
                else if (p.form == 2) sh->ret = sh->cv.wait_for(lk, sh->ss.get_token(), d, pred);
                else sh->ret = sh->cv.wait_until(lk, sh->ss.get_token(), sh->t_call + d, pred);
            }
            else
            {
                if (p.form == 0) sh->ret = sh->cv.wait_for(lk, d, pred);
                else sh->ret = sh->cv.wait_until(lk, sh->t_call + d, pred);
            }
        }
        catch (...)
        {
            sh->threw = true;
        }
        sh->t_ret = clk::now();
        sh->owns = lk.owns_lock() && sh->mu.mine();
        sh->flag_at_ret = sh->flag;    // the caller owns the lock: nobody can change it concurrently
        if (lk.owns_lock()) lk.unlock();
        ++g_heartbeat;
        sh->done.store(true, std::memory_order_release);
    });

    run_thread(p.notifier_os, [sh, p, may_yield] {
        Outcome& o = sh->nout;
        if (!wait_true([&] { return sh->registered.load(std::memory_order_acquire) != 0; }, 20000))
            o.fail("stalled", "the waiter never started (gave up after 20 s)");
        else
        {
            auto notify = [&] {
                if (p.notify_one) sh->cv.notify_one();
                else sh->cv.notify_all();
            };
            switch (p.timing)
            {
            case T_NEVER: break;
            case T_EARLY_NOTIFY:
            case T_EARLY_SILENT:
            {
                sh->mu.lock();    // succeeds once the waiter has released the lock inside its wait
                sh->flag = true;
                sh->t_set = clk::now();
                if (p.timing == T_EARLY_NOTIFY && p.notify_under_lock) notify();
                sh->mu.unlock();
                if (p.timing == T_EARLY_NOTIFY && !p.notify_under_lock) notify();
                break;
            }
            default:
            {
                sh->mu.lock();
                // the waiter's first lock() is attempt 1; a second one before we got here means it has already timed out
                // (slow notifier): the case degrades to an ordinary one and only the general monitors apply
                int const base = 1;
                sh->caught.store(sh->mu.attempts.load(std::memory_order_acquire) == base ? 1 : 0);
                if (p.timing == T_FLIP)
                {
                    sh->flag = true;
                    sh->cv.notify_all();
                }
                // keep the lock until the waiter is blocked re-acquiring it: it woke up at its deadline and has left the
                // condition variable's internals (internal lock released, queue entry gone)
                auto t0 = clk::now();
                bool seen = true;
                while (sh->mu.attempts.load(std::memory_order_acquire) == base)
                {
                    pause_holding(may_yield);
                    ++g_heartbeat;
                    if (clk::now() - t0 > std::chrono::milliseconds(p.dur_ms + 20000))
                    {
                        seen = false;
                        break;
                    }
                }
                if (!seen)
                    o.fail("no_relock",
                        "the waiter did not try to re-acquire the user lock within 20 s after its deadline (the notifier holds the lock, nobody "
                        "notified)");
                if (p.timing == T_FLIP) sh->flag = false;
                else if (p.timing != T_LATE_FALSE) sh->flag = true;
                if (p.timing == T_LATE_NOTIFY) sh->cv.notify_all();
                if (p.timing == T_LATE_STOP) sh->ss.request_stop();
                sh->mu.unlock();
                break;
            }
            }
        }
        ++g_heartbeat;
        sh->ndone.store(true, std::memory_order_release);
    });

    bool fin = wait_true([&] { return sh->done.load(std::memory_order_acquire) && sh->ndone.load(std::memory_order_acquire); }, p.dur_ms + 45000);
    g_tr_on.store(false, std::memory_order_release);
    if (!fin)
    {
        // threads of this case may still be inside the condition variable: report and leave the process
        std::printf("OUT TP %d ok=0 what=no_return trace=%s detail=the timed predicate wait did not return (waiter done=%d, notifier done=%d) %d ms "
                    "after it was called with a %d ms time-out\n",
            g_case.load(), tr_get().c_str(), int(sh->done.load()), int(sh->ndone.load()), p.dur_ms + 45000, p.dur_ms);
        std::fflush(stdout);
        _exit(0);
    }
    out = sh->nout;
    auto elapsed_us = std::chrono::duration_cast<std::chrono::microseconds>(sh->t_ret - sh->t_call).count();
    std::ostringstream d;
    d << "returned " << int(sh->ret) << ", predicate read under the user lock right after the return " << int(sh->flag_at_ret) << ", " << sh->evals
      << " evaluations, trace " << tr_get() << ", elapsed " << elapsed_us << " us of " << p.dur_ms << " ms";
    if (sh->threw) out.fail("threw", "the wait threw an exception: " + d.str());
    if (!sh->owns) out.fail("lock_not_owned", "the wait returned without the caller owning the user lock: " + d.str());
    if (sh->unowned) out.fail("pred_without_lock", std::to_string(sh->unowned) + " predicate evaluations without the user lock: " + d.str());
    if (sh->ret != sh->flag_at_ret) out.fail("value", "timed predicate wait returned a value different from the predicate at the time of the return: " + d.str());
    if (!sh->ret && elapsed_us < p.dur_ms * 1000L - 200) out.fail("early", "timed predicate wait returned false before its deadline: " + d.str());
    bool const late = p.timing >= T_LATE_NOTIFY;
    if (late && sh->caught.load() == 1)
    {
        // the notifier held the lock from before the waiter's re-lock attempt until it had written the predicate
        bool const want = p.timing == T_LATE_NOTIFY || p.timing == T_LATE_SILENT || p.timing == T_LATE_STOP;
        if (out.ok && sh->flag_at_ret != want) out.fail("scenario", "harness: the predicate at the return is not what the scenario sets up: " + d.str());
        *exercised = 1;
    }
    if ((p.timing == T_EARLY_NOTIFY || p.timing == T_EARLY_SILENT) && sh->t_set + std::chrono::milliseconds(1) < sh->t_call + std::chrono::milliseconds(p.dur_ms))
    {
        // set under the user lock more than 1 ms before the deadline; a false return evaluates the predicate after the deadline
        if (!sh->ret) out.fail("stale_false", "timed predicate wait returned false although the predicate was set (under the user lock) before its deadline: " + d.str());
        *exercised = 1;
    }
    if (p.timing == T_NEVER) *exercised = 1;
    return out;
}

template <typename M>
static Outcome run_m(Params const& p, int* exercised)
{
    if (p.cvk == 0) return run_case<M, pika::condition_variable, false>(p, exercised);
    if (p.cvk == 1) return run_case<M, pika::condition_variable_any, false>(p, exercised);
    return run_case<M, pika::condition_variable_any, true>(p, exercised);
}

static Params gen_case(std::uint64_t seed, int idx)
{
    Rng g(seed * 7919 + std::uint64_t(idx) * 104729 + 13);
    Params p{};
    p.cvk = g.below(3);
    p.form = p.cvk == 0 ? g.below(2) : g.below(4);
    p.waiter_os = g.chance(1, 3);
    p.notifier_os = g.chance(1, 2);
    // the late scenarios are the point of this harness: half of the cases
    int r = g.below(16);
    int t = r < 2 ? T_NEVER : r < 4 ? T_EARLY_NOTIFY : r < 6 ? T_EARLY_SILENT : r < 10 ? T_LATE_NOTIFY : r < 12 ? T_LATE_SILENT : r < 13 ? T_LATE_FALSE :
        r < 14                                                                                                                        ? T_LATE_STOP :
                                                                                                                                        T_FLIP;
    if (t == T_LATE_STOP && p.form < 2) t = T_LATE_NOTIFY;
    if (p.waiter_os && (t == T_EARLY_NOTIFY || t == T_FLIP)) t = (t == T_FLIP) ? T_LATE_FALSE : T_EARLY_SILENT;    // F14: no notify while an OS waiter sleeps
    p.timing = t;
    p.mk = (!p.waiter_os && !p.notifier_os) ? g.below(3) : g.below(2);
    p.dur_ms = (t == T_EARLY_NOTIFY || t == T_EARLY_SILENT || t == T_FLIP) ? 15 + g.below(20) : (t == T_NEVER ? 3 + g.below(8) : 8 + g.below(10));
    p.notify_under_lock = g.chance(1, 2);
    p.notify_one = g.chance(1, 3);
    return p;
}

static void rt_case(std::uint64_t seed, int idx)
{
    Params p = gen_case(seed, idx);
    g_case = idx;
    std::printf("IN TP %d kind=timed_pred timing=%s cv=%s form=%s lock=%s mutex=%s waiter=%s notifier=%s dur_ms=%d notify=%s%s\n", idx, TIMING[p.timing],
        p.cvk == 0 ? "condition_variable" : "condition_variable_any", FORM[p.form], p.cvk == 2 ? "BasicLockable" : "unique_lock",
        p.mk == 0 ? "std::mutex" : p.mk == 1 ? "spinlock" : "pika::mutex", p.waiter_os ? "os_thread" : "task", p.notifier_os ? "os_thread" : "task", p.dur_ms,
        p.notify_one ? "one" : "all", p.notify_under_lock ? "_under_lock" : "_after_unlock");
    std::fflush(stdout);
    int exercised = 0;
    Outcome o = p.mk == 0 ? run_m<std::mutex>(p, &exercised) : p.mk == 1 ? run_m<spinlock>(p, &exercised) : run_m<pika::mutex>(p, &exercised);
    std::printf("OUT TP %d ok=%d exercised=%d what=%s detail=%s\n", idx, o.ok ? 1 : 0, exercised, o.ok ? "-" : o.what.c_str(), o.ok ? "-" : o.detail.c_str());
    std::fflush(stdout);
}

// ------------------------------------------------------------------ mode SEQ
// one thread, scripted predicate, nobody notifies: every detail-level timed wait times out
template <typename CV>
static void seq_body(int form, std::string const& script, int deadline_us, bool* ret, int* unowned, bool* owns)
{
    using PM = probe_mutex<std::mutex>;
    PM mu;
    CV cv;
    pika::stop_source ss;
    std::unique_lock<PM> lk(mu);
    int n = 0;
    auto pred = [&] {
        bool v = script[std::size_t(n < int(script.size()) ? n : int(script.size()) - 1)] == '1';
        ++n;
        if (!mu.mine()) ++*unowned;
        tr_add('P', v ? '1' : '0');
        return v;
    };
    auto const d = std::chrono::microseconds(deadline_us);    // <= 0: already passed
    auto const abs = clk::now() + d;
    if constexpr (std::is_same_v<CV, pika::condition_variable_any>)
    {
        if (form == 0) *ret = cv.wait_for(lk, d, pred);
        else if (form == 1) *ret = cv.wait_until(lk, abs, pred);
        else if (form == 2) *ret = cv.wait_for(lk, ss.get_token(), d, pred);
        else *ret = cv.wait_until(lk, ss.get_token(), abs, pred);
    }
    else
    {
        if (form == 0) *ret = cv.wait_for(lk, d, pred);
        else *ret = cv.wait_until(lk, abs, pred);
    }
    *owns = lk.owns_lock() && mu.mine();
}

static void seq_case(std::uint64_t seed, int idx)
{
    Rng g(seed * 6151 + std::uint64_t(idx) * 92821 + 5);
    int cvk = g.below(2);
    int form = cvk == 0 ? g.below(2) : g.below(4);
    bool os = g.chance(1, 2);
    int k = 1 + g.below(4);
    std::string script;
    for (int i = 0; i < k; ++i) script += g.chance(1, 2) ? '1' : '0';
    if (g.chance(1, 2)) script = (g.chance(1, 2) ? "01" : "00") + script.substr(0, 1);    // the interesting shapes
    int deadline_us = g.chance(1, 2) ? -1000 * g.below(3) : 1000 * (1 + g.below(3));
    g_case = idx;
    // model input: class (which on-timeout expression of the header), script, outcomes of the inner waits (all time out)
    char const* cls = cvk == 0 ? "cv" : form < 2 ? "cva" : "cvs";
    std::printf("IN TPRED %d %s %s %s runner=%s form=%s deadline_us=%d\n", idx, cls, script.c_str(), "tttt", os ? "os_thread" : "task", FORM[form],
        deadline_us);
    std::fflush(stdout);
    bool ret = false, owns = false;
    int unowned = 0;
    std::atomic<bool> done{false};
    g_tr_len.store(0);
    g_tr_on.store(true, std::memory_order_release);
    run_thread(os, [&] {
        if (cvk == 0) seq_body<pika::condition_variable>(form, script, deadline_us, &ret, &unowned, &owns);
        else seq_body<pika::condition_variable_any>(form, script, deadline_us, &ret, &unowned, &owns);
        ++g_heartbeat;
        done.store(true, std::memory_order_release);
    });
    if (!wait_true([&] { return done.load(std::memory_order_acquire); }, 30000))
    {
        std::printf("OUT TPRED %d trace=%s ret=? hang=1\n", idx, tr_get().c_str());
        std::fflush(stdout);
        _exit(0);
    }
    g_tr_on.store(false, std::memory_order_release);
    std::printf("OUT TPRED %d trace=%s ret=%d\n", idx, tr_get().c_str(), int(ret));
    if (!owns || unowned)
        std::printf("MON TPRED %d what=%s detail=scripted timed predicate wait (%s %s, script %s): owns lock on return=%d, predicate evaluations without the "
                    "lock=%d\n",
            idx, !owns ? "lock_not_owned" : "pred_without_lock", cls, FORM[form], script.c_str(), int(owns), unowned);
    std::fflush(stdout);
}

static std::uint64_t g_seed = 1;
static int g_n = 100, g_one = -1;
static bool g_seq = false;

int pika_main()
{
    if (g_one >= 0) (g_seq ? seq_case : rt_case)(g_seed, g_one);
    else
        for (int i = 0; i < g_n; ++i) (g_seq ? seq_case : rt_case)(g_seed, i);
    std::printf("SUMMARY mode=%s cases=%d\n", g_seq ? "seq" : "rt", g_one >= 0 ? 1 : g_n);
    std::fflush(stdout);
    pika::finalize();
    return 0;
}

int main(int argc, char** argv)
{
    int a = 1;
    if (argc > 1 && std::string(argv[1]) == "one")
    {
        g_seed = argc > 2 ? std::strtoull(argv[2], nullptr, 10) : 1;
        g_one = argc > 3 ? std::atoi(argv[3]) : 0;
        a = 4;
    }
    else
    {
        g_seed = argc > 1 ? std::strtoull(argv[1], nullptr, 10) : 1;
        g_n = argc > 2 ? std::atoi(argv[2]) : 100;
        a = 3;
    }
    g_seq = argc > a && std::string(argv[a]) == "seq";
    setvbuf(stdout, nullptr, _IOLBF, 0);
    pika::verif::hook.store(&hookfn, std::memory_order_release);
    std::thread([] {
        long last = -1;
        int idle = 0;
        for (;;)
        {
            std::this_thread::sleep_for(std::chrono::seconds(1));
            long h = g_heartbeat.load() + 1000000L * g_case.load();
            if (h == last) ++idle;
            else idle = 0;
            last = h;
            if (idle >= 60)
            {
                std::printf("OUT %s %d ok=0 what=no_return trace=%s detail=hang: no progress for 60 s\n", g_seq ? "TPRED" : "TP", g_case.load(), tr_get().c_str());
                std::fflush(stdout);
                _exit(0);
            }
        }
    }).detach();
    char a0[] = "c07_tpred";
    char a1[] = "--pika:threads=4";
    char* av[] = {a0, a1, nullptr};
    int ac = 2;
    pika::init_params ip;
    return pika::init(pika_main, ac, av, ip);
}
