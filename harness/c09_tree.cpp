// C09 LOCKSTEP harness: the real pika::barrier<Completion> (tree barrier_algorithm_base::arrive,
// phase byte, expected, expected_adjustment, completion) on plain std::threads.  The controller
// chooses the interleaving of the ticket CAS steps (hooks 900 START, 901 CAS1, 902 CAS2 in
// barrier.cpp) and the start node of every arrival; the extracted model replays the schedule
// and must predict every step's (site, round, node) and the thread that runs the completion.
// A case = several phases; every phase runs T fresh threads whose ops (arrive(n) /
// arrive_and_drop) add up to the phase's expected count.  Global thread id = phase*16 + i.
// Monitors (independent of the model): the completion function runs exactly once per phase and
// only after all expected arrivals of the phase have started; no livelock.
#include "common/ctl.hpp"

#include <pika/synchronization/barrier.hpp>

#include <atomic>
#include <cinttypes>
#include <sstream>
#include <string>
#include <thread>
#include <unistd.h>
#include <vector>

namespace {
    std::atomic<int> g_completions{0};
    std::atomic<int> g_started{0};          // arrivals started in the current phase (hook 900)
    int g_started_at_completion = -1;
    int g_completer = -1;

    struct completion
    {
        void operator()() noexcept
        {
            ++g_completions;
            g_started_at_completion = g_started.load();
            g_completer = vctl::t_id;
        }
    };
}    // namespace

int main(int argc, char** argv)
{
    std::uint64_t seed = argc > 1 ? std::strtoull(argv[1], nullptr, 10) : 1;
    int ncases = argc > 2 ? std::atoi(argv[2]) : 100;
    vctl::Rng rng(seed);
    for (int cs = 0; cs < ncases; ++cs)
    {
        int E = 1 + (int) rng.below(9);
        int P = 1 + (int) rng.below(5);
        if (rng.chance(1, 60))    // the phase byte wraps after 128 phases
        {
            E = 2 + (int) rng.below(2);
            P = 131;
        }
        int const E0 = E;
        pika::barrier<completion> bar(E, completion{});
        std::ostringstream progs, sched, steps, wins;
        bool first_step = true, first_prog = true, first_win = true;
        bool failed = false;
        for (int ph = 0; ph < P && !failed; ++ph)
        {
            // distribute E arrivals over T threads; some single arrivals are arrive_and_drop
            int T = 1 + (int) rng.below(std::min(E, 6));
            std::vector<int> n(T, 1);
            for (int k = T; k < E; ++k) ++n[rng.below(T)];
            if (rng.chance(1, 3)) { /* more participants than that: one thread per arrival */ }
            std::vector<bool> drop(T, false);
            int drops = 0;
            for (int i = 0; i < T; ++i)
                if (n[i] == 1 && E - drops > 1 && P < 100 && rng.chance(1, 4))
                {
                    drop[i] = true;
                    ++drops;
                }
            for (int i = 0; i < T; ++i)
            {
                progs << (first_prog ? "" : ",") << (ph * 16 + i) << ":" << (drop[i] ? std::string("d") : "a" + std::to_string(n[i]));
                first_prog = false;
            }
            g_started = 0;
            g_started_at_completion = -1;
            g_completer = -1;
            int const compl_before = g_completions.load();
            vctl::Controller ctl(T, 900, 902);
            std::vector<std::thread> th;
            for (int i = 0; i < T; ++i)
                th.emplace_back([&, i] {
                    ctl.begin(i);
                    if (drop[i])
                        bar.arrive_and_drop();
                    else
                        (void) bar.arrive(n[i]);
                    ctl.end();
                });
            if (!ctl.quiesce()) { std::printf("HARNESS-ERROR quiesce-start case=%d\n", cs); return 3; }
            ctl.release_all_parked();
            int nsteps = 0;
            int last = -1;
            for (;;)
            {
                if (!ctl.quiesce())
                {
                    std::printf("MONITOR tree:stuck case=%d phase=%d E=%d (a thread neither parks nor ends)\n", cs, ph, E);
                    std::fflush(stdout);
                    std::_Exit(0);
                }
                auto p = ctl.parked();
                if (p.empty()) break;
                int t = p[rng.below(p.size())];
                if (last >= 0 && rng.chance(1, 3))
                    for (int x : p)
                        if (x == last) t = x;
                last = t;
                int site = ctl.site_of(t);
                std::uint64_t a, b;
                void const* obj;
                {
                    std::lock_guard l(ctl.m);
                    a = ctl.s[t].a;
                    b = ctl.s[t].b;
                    obj = ctl.s[t].obj;
                }
                std::uint64_t start = 0;
                if (site == 900)
                {
                    // the thread is parked inside the hook: choose its start node (any hash value)
                    start = rng.below((std::uint64_t)(E + 1) / 2);
                    if (E >= 1) *const_cast<std::size_t*>(static_cast<std::size_t const*>(obj)) = (std::size_t) start;
                    ++g_started;
                    steps << (first_step ? "" : ",") << "900.0.0";
                }
                else
                    steps << (first_step ? "" : ",") << site << "." << a << "." << b;
                sched << (first_step ? "" : ",") << (ph * 16 + t) << "." << start;
                first_step = false;
                ctl.release(t);
                if (++nsteps > 400 * (E + 1))
                {
                    std::printf("MONITOR tree:livelock case=%d phase=%d E=%d steps=%d (arrivals keep scanning)\n", cs, ph, E, nsteps);
                    std::fflush(stdout);
                    std::_Exit(0);
                }
            }
            for (auto& x : th) x.join();
            int const c = g_completions.load() - compl_before;
            if (c != 1)
            {
                std::printf("MONITOR barrier:completion_count case=%d phase=%d E=%d completions=%d (expected exactly 1)\n", cs, ph, E, c);
                failed = true;
            }
            else if (g_started_at_completion != E)
            {
                std::printf("MONITOR barrier:completion_before_all_arrived case=%d phase=%d E=%d started=%d\n", cs, ph, E,
                    g_started_at_completion);
                failed = true;
            }
            wins << (first_win ? "" : ",") << ph << ":" << (g_completer >= 0 ? ph * 16 + g_completer : -1);
            first_win = false;
            E -= drops;
        }
        std::printf("IN BAR %d %d %d %s %s\n", cs, E0, P, progs.str().c_str(), sched.str().empty() ? "-" : sched.str().c_str());
        std::printf("OUT BAR %d steps=%s wins=%s bad=0 final_expected=%d\n", cs, steps.str().empty() ? "-" : steps.str().c_str(),
            wins.str().c_str(), E);
        std::fflush(stdout);
        if (failed) { std::fflush(stdout); std::_Exit(0); }
    }
    return 0;
}
