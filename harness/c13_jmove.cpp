// C13 harness, scenario "jthread handle moves".
//
// Property text: "Destroying a jthread requests stop and joins."  A pika::jthread is a movable handle: the
// object that is finally destroyed is in general NOT the object that was constructed.  The thread function
// receives a stop_token of the stop state the jthread was constructed with; whatever happens to the handle
// afterwards (move construction, move assignment into an empty jthread, push_back into a vector incl.
// reallocation, swap with an empty or with another running jthread, return by value, move to the heap), the
// destruction of the FINAL owner must request stop on THAT stop state and join THAT thread:
//   * the thread function observes stop_possible() == true on its token when it starts,
//   * it sees stop_requested() after the final owner's destructor has begun, and the destructor returns
//     (watchdog 10 s; on expiry the function is released through a give-up flag so that the run continues),
//   * the destructor does not return before the function finished,
//   * nothing requests stop EARLIER: destroying a moved-from handle, or the other handle of a swap, must
//     not stop this thread (checked at deterministic points: token of the live owner right before it dies;
//     after the other swapped thread has been joined),
//   * handle state (sequential spec, compared in tools/props/c13.py): the moved-from handle is not
//     joinable, has get_id() == id() and a stop source without state; the new owner is joinable, reports
//     the id the thread had at construction and its token equals the token taken before the move.
// The handle is moved IMMEDIATELY after construction (no statement in between: with --pika:threads=1 the
// creator always wins, the new thread has not executed anything yet) or LATER (after the function started).
// The function waits for stop by polling + yield, in condition_variable_any::wait(lock, token, pred), or
// through a stop_callback.
//
// usage: c13_jmove <workers> <seed> <n> [only-index]
#include <pika/condition_variable.hpp>
#include <pika/execution.hpp>
#include <pika/init.hpp>
#include <pika/mutex.hpp>
#include <pika/modules/synchronization.hpp>
#include <pika/thread.hpp>

#include <atomic>
#include <chrono>
#include <cstdint>
#include <cstdio>
#include <cstdlib>
#include <memory>
#include <mutex>
#include <optional>
#include <string>
#include <thread>
#include <unistd.h>
#include <utility>
#include <vector>

using namespace std::chrono_literals;
using clk = std::chrono::steady_clock;
namespace ex = pika::execution::experimental;
namespace tt = pika::this_thread::experimental;

struct Rng
{
    std::uint64_t x;
    explicit Rng(std::uint64_t seed) : x(seed * 0x9E3779B97F4A7C15ull + 0x7654321ull) {}
    std::uint64_t next()
    {
        std::uint64_t z = (x += 0x9E3779B97F4A7C15ull);
        z = (z ^ (z >> 30)) * 0xBF58476D1CE4E5B9ull;
        z = (z ^ (z >> 27)) * 0x94D049BB133111EBull;
        return z ^ (z >> 31);
    }
    std::uint64_t below(std::uint64_t n) { return n ? next() % n : 0; }
    bool chance(unsigned num, unsigned den) { return below(den) < num; }
};
static std::uint64_t mix_seed(std::uint64_t z)
{
    z = (z ^ (z >> 30)) * 0xBF58476D1CE4E5B9ull + 0x632BE59BD9B4E019ull;
    z = (z ^ (z >> 27)) * 0x94D049BB133111EBull;
    return z ^ (z >> 31);
}
static void spin_us(int us)
{
    auto t0 = clk::now();
    while (clk::now() - t0 < std::chrono::microseconds(us)) {}
}

static std::atomic<long> g_beat{0};
static std::atomic<int> g_case{-1};
static std::atomic<bool> g_done{false};

// what one thread function observed
struct Rec
{
    std::atomic<bool> started{false}, finished{false}, giveup{false};
    std::atomic<int> possible{-1};    // stop_possible() of the token at the first statement of the function
    std::atomic<int> saw{-1};         // stop_requested() when the function left its wait
    std::atomic<bool> dying{false};   // set right before the final owner's destruction begins
    std::atomic<int> early{0};        // the function saw the stop request while dying was still false
    std::atomic<int> fin_at_ret{-1};  // finished, read right after the final owner's destructor returned
    pika::mutex m;
    pika::condition_variable_any cv;
};

// the thread function: style 0 poll + yield, 1 interruptible cv wait, 2 stop_callback + poll
static auto make_fn(std::shared_ptr<Rec> r, int style)
{
    return [r, style](pika::stop_token st) {
        r->possible = st.stop_possible() ? 1 : 0;
        r->started = true;
        if (style == 1)
        {
            std::unique_lock<pika::mutex> lk(r->m);
            r->cv.wait(lk, st, [&] { return r->giveup.load(); });
        }
        else if (style == 2)
        {
            std::atomic<bool> cbran{false};
            pika::stop_callback cb(st, [&] { cbran = true; });
            while (!cbran.load() && !r->giveup.load()) pika::this_thread::yield();
        }
        else
        {
            while (!st.stop_requested() && !r->giveup.load()) pika::this_thread::yield();
        }
        bool s = st.stop_requested();
        if (s && !r->dying.load()) r->early = 1;
        r->saw = s ? 1 : 0;
        r->finished = true;
    };
}

struct Api
{
    std::string bad;    // violated clauses of the sequential handle spec, comma separated
    void need(bool c, char const* what) { if (!c) { if (!bad.empty()) bad += ','; bad += what; } }
};

static void check_empty(Api& api, pika::jthread& x, char const* tag)
{
    api.need(!x.joinable(), (std::string(tag) + "_joinable").c_str());
    api.need(x.get_id() == pika::jthread::id(), (std::string(tag) + "_id").c_str());
    api.need(!x.get_stop_source().stop_possible(), (std::string(tag) + "_source_has_state").c_str());
    api.need(!x.get_stop_token().stop_possible(), (std::string(tag) + "_token_possible").c_str());
}
static void check_owner(Api& api, pika::jthread& x, pika::jthread::id id0, pika::stop_token const& tok0, char const* tag)
{
    api.need(x.joinable(), (std::string(tag) + "_not_joinable").c_str());
    api.need(x.get_id() == id0, (std::string(tag) + "_id").c_str());
    api.need(x.get_stop_token() == tok0, (std::string(tag) + "_token_differs").c_str());
    api.need(x.get_stop_token().stop_possible(), (std::string(tag) + "_token_not_possible").c_str());
    api.need(!x.get_stop_token().stop_requested(), (std::string(tag) + "_stop_requested_before_destruction").c_str());
}

static char const* const KIND[] = {"none", "move_ctor", "move_assign_empty", "vector_push", "swap_empty", "swap_running", "return_value", "heap_chain"};
static constexpr int NKIND = 8;

struct CaseResult
{
    Api api;
    int second_stopped_early = -1;    // swap_running: the other thread's token requested after the first owner died
};

static pika::jthread make_and_return(std::shared_ptr<Rec> r, int style, bool later)
{
    pika::jthread t(make_fn(r, style));
    if (later) while (!r->started.load()) pika::this_thread::yield();
    return t;
}

// mark the record and destroy the final owner (scope exit of the caller does the destruction)
#define DYING(rec) do { (rec)->dying = true; } while (0)

static void act(int kind, bool later, int style, int sub, std::shared_ptr<Rec> r0, std::shared_ptr<Rec> r1, CaseResult& res)
{
    auto settle = [&](std::shared_ptr<Rec> const& r) {
        if (later) { while (!r->started.load()) pika::this_thread::yield(); if (sub & 4) spin_us(50); }
    };
    Api& api = res.api;
    switch (kind)
    {
    case 0:
    {
        pika::jthread a(make_fn(r0, style));
        settle(r0);
        api.need(a.joinable(), "fresh_not_joinable");
        api.need(!a.get_stop_token().stop_requested(), "owner_stop_requested_before_destruction");
        DYING(r0);
        break;
    }
    case 1:
    {
        if (sub & 1)
        {
            // the moved-from object dies first
            std::optional<pika::jthread> a;
            a.emplace(make_fn(r0, style));
            if (!later)
            {
                pika::jthread b(std::move(*a));
                a.reset();
                api.need(b.joinable(), "owner_not_joinable");
                api.need(!b.get_stop_token().stop_requested(), "owner_stop_requested_before_destruction");
                DYING(r0);
            }
            else
            {
                settle(r0);
                auto id0 = a->get_id();
                auto tok0 = a->get_stop_token();
                pika::jthread b(std::move(*a));
                check_empty(api, *a, "from");
                a.reset();
                check_owner(api, b, id0, tok0, "owner");
                DYING(r0);
            }
        }
        else
        {
            pika::jthread a(make_fn(r0, style));
            if (!later)
            {
                pika::jthread b(std::move(a));
                check_empty(api, a, "from");
                api.need(b.joinable(), "owner_not_joinable");
                api.need(!b.get_stop_token().stop_requested(), "owner_stop_requested_before_destruction");
                DYING(r0);
            }
            else
            {
                settle(r0);
                auto id0 = a.get_id();
                auto tok0 = a.get_stop_token();
                pika::jthread b(std::move(a));
                check_empty(api, a, "from");
                check_owner(api, b, id0, tok0, "owner");
                DYING(r0);
            }
        }
        break;
    }
    case 2:
    {
        pika::jthread b;
        check_empty(api, b, "default");
        {
            pika::jthread a(make_fn(r0, style));
            if (!later) { b = std::move(a); check_empty(api, a, "from"); }
            else
            {
                settle(r0);
                auto id0 = a.get_id();
                auto tok0 = a.get_stop_token();
                b = std::move(a);
                check_empty(api, a, "from");
                check_owner(api, b, id0, tok0, "owner");
            }
        }    // the moved-from object dies here
        api.need(b.joinable(), "owner_not_joinable");
        api.need(!b.get_stop_token().stop_requested(), "owner_stop_requested_before_destruction");
        DYING(r0);
        break;
    }
    case 3:
    {
        std::vector<pika::jthread> v;
        if (sub & 1) v.reserve(1);
        if (!later && (sub & 2)) v.push_back(pika::jthread(make_fn(r0, style)));    // a temporary, moved at once
        else
        {
            pika::jthread a(make_fn(r0, style));
            settle(r0);
            v.push_back(std::move(a));
            check_empty(api, a, "from");
        }
        auto id0 = v[0].get_id();
        auto tok0 = v[0].get_stop_token();
        for (int i = 0, e = 1 + (sub >> 3) % 3; i < e; ++i) v.emplace_back();    // reallocation moves the running handle again
        check_owner(api, v[0], id0, tok0, "owner");
        DYING(r0);
        break;
    }
    case 4:
    {
        pika::jthread b;
        {
            pika::jthread a(make_fn(r0, style));
            pika::jthread::id id0;
            pika::stop_token tok0;
            if (later) { settle(r0); id0 = a.get_id(); tok0 = a.get_stop_token(); }
            switch (sub & 3)
            {
            case 0: a.swap(b); break;
            case 1: b.swap(a); break;
            case 2: swap(a, b); break;
            default: std::swap(a, b); break;
            }
            check_empty(api, a, "from");
            if (later) check_owner(api, b, id0, tok0, "owner");
        }
        api.need(b.joinable(), "owner_not_joinable");
        api.need(!b.get_stop_token().stop_requested(), "owner_stop_requested_before_destruction");
        DYING(r0);
        break;
    }
    case 5:
    {
        // two running jthreads exchange their handles: a ends up owning thread 1, b owning thread 0
        std::optional<pika::jthread> a, b;
        a.emplace(make_fn(r0, style));
        b.emplace(make_fn(r1, style));
        pika::jthread::id id0, id1;
        pika::stop_token tok0, tok1;
        if (later) { settle(r0); settle(r1); id0 = a->get_id(); id1 = b->get_id(); tok0 = a->get_stop_token(); tok1 = b->get_stop_token(); }
        if (sub & 1) a->swap(*b); else swap(*b, *a);
        if (later) { check_owner(api, *b, id0, tok0, "owner"); check_owner(api, *a, id1, tok1, "other"); }
        api.need(!b->get_stop_token().stop_requested(), "owner_stop_requested_before_destruction");
        DYING(r0);
        b.reset();    // destroys the owner of thread 0: joins thread 0 only
        r0->fin_at_ret = r0->finished.load() ? 1 : 0;
        // deterministic point: thread 0 has been joined; thread 1 must not have been asked to stop
        res.second_stopped_early = (a->get_stop_token().stop_requested() || r1->saw.load() == 1) ? 1 : 0;
        api.need(a->joinable(), "other_not_joinable_after_first_destruction");
        DYING(r1);
        a.reset();
        r1->fin_at_ret = r1->finished.load() ? 1 : 0;
        return;
    }
    case 6:
    {
        pika::jthread b = make_and_return(r0, style, later);
        if (sub & 1) settle(r0);
        api.need(b.joinable(), "owner_not_joinable");
        api.need(b.get_stop_token().stop_possible(), "owner_token_not_possible");
        api.need(!b.get_stop_token().stop_requested(), "owner_stop_requested_before_destruction");
        DYING(r0);
        break;
    }
    default:
    {
        // a -> b (move ctor) -> heap (move ctor) -> c (move assign into empty)
        pika::jthread c;
        {
            pika::jthread a(make_fn(r0, style));
            pika::jthread::id id0;
            pika::stop_token tok0;
            if (later) { settle(r0); id0 = a.get_id(); tok0 = a.get_stop_token(); }
            pika::jthread b(std::move(a));
            auto p = std::make_unique<pika::jthread>(std::move(b));
            if (sub & 1) pika::this_thread::yield();
            c = std::move(*p);
            check_empty(api, a, "from");
            check_empty(api, b, "from2");
            check_empty(api, *p, "from3");
            if (later) check_owner(api, c, id0, tok0, "owner");
        }
        api.need(c.joinable(), "owner_not_joinable");
        api.need(!c.get_stop_token().stop_requested(), "owner_stop_requested_before_destruction");
        DYING(r0);
        break;
    }
    }
    // `break` left the case block: the handles declared there, the final owner last, have been destroyed
    r0->fin_at_ret = r0->finished.load() ? 1 : 0;
}

static std::uint64_t g_seed = 1;
static int g_n = 100, g_only = -1, g_workers = 4;

static void all_cases()
{
    int nhung = 0;
    for (int cs = 0; cs < g_n; ++cs)
    {
        Rng rng(mix_seed(g_seed + 0x100000001b3ull * (std::uint64_t) cs));
        int kind = (int) rng.below(NKIND);
        bool later = rng.chance(1, 3);
        int style = (int) rng.below(3);
        int sub = (int) rng.below(64);
        if (g_only >= 0 && cs != g_only) continue;
        g_case = cs;
        ++g_beat;
        std::printf("IN JM %d workers=%d kind=%s when=%s style=%s sub=%d\n", cs, g_workers, KIND[kind], later ? "later" : "immediate",
            style == 0 ? "poll" : style == 1 ? "cvwait" : "callback", sub);
        std::fflush(stdout);
        auto r0 = std::make_shared<Rec>();
        auto r1 = std::make_shared<Rec>();
        auto res = std::make_shared<CaseResult>();
        std::atomic<bool> actor_done{false};
        pika::thread actor([&, res] { act(kind, later, style, sub, r0, r1, *res); actor_done = true; });
        // watchdog: the destructor of the final owner must return
        auto t0 = clk::now();
        bool hung = false;
        while (!actor_done.load())
        {
            pika::this_thread::yield();
            if (clk::now() - t0 > 10s)
            {
                hung = true;
                // release the thread functions so that the run can continue
                for (auto& r : {r0, r1})
                {
                    { std::unique_lock<pika::mutex> lk(r->m); r->giveup = true; }
                    r->cv.notify_all();
                }
                auto t1 = clk::now();
                while (!actor_done.load() && clk::now() - t1 < 20s) pika::this_thread::yield();
                break;
            }
        }
        if (!actor_done.load())
        {
            std::printf("OUT JM %d dtor_returned=0 released=0 possible=%d saw=%d\n", cs, r0->possible.load(), r0->saw.load());
            std::fflush(stdout);
            _exit(0);
        }
        actor.join();
        std::printf("OUT JM %d dtor_returned=%d possible=%d saw=%d early=%d finished_at_return=%d", cs, hung ? 0 : 1, r0->possible.load(),
            r0->saw.load(), r0->early.load(), r0->fin_at_ret.load());
        if (kind == 5)
            std::printf(" possible2=%d saw2=%d early2=%d finished_at_return2=%d other_stopped_early=%d", r1->possible.load(), r1->saw.load(),
                r1->early.load(), r1->fin_at_ret.load(), res->second_stopped_early);
        std::printf(" api=%s\n", res->api.bad.empty() ? "ok" : res->api.bad.c_str());
        std::fflush(stdout);
        // every destructor that does not return costs the 10 s watchdog: two such cases are enough
        if (hung && ++nhung >= 2) { std::printf("NOTE JM stopped after %d cases whose destructor did not return\n", nhung); std::fflush(stdout); break; }
    }
}

int main(int argc, char** argv)
{
    g_workers = argc > 1 ? std::atoi(argv[1]) : 4;
    g_seed = mix_seed(argc > 2 ? std::strtoull(argv[2], nullptr, 10) : 1);
    g_n = argc > 3 ? std::atoi(argv[3]) : 100;
    g_only = argc > 4 ? std::atoi(argv[4]) : -1;
    std::thread([] {
        long last = -1;
        int idle = 0;
        while (!g_done)
        {
            std::this_thread::sleep_for(1s);
            long b = g_beat.load();
            if (b == last) ++idle; else idle = 0;
            last = b;
            if (idle >= 60) { std::printf("OUT JM %d dtor_returned=0 released=0 hang=1\n", g_case.load()); std::fflush(stdout); _exit(0); }
        }
    }).detach();
    std::string wa = "--pika:threads=" + std::to_string(g_workers);
    char* av[] = {argv[0], wa.data(), nullptr};
    int ac = 2;
    pika::start(ac, av);
    ex::thread_pool_scheduler sched{};
    tt::sync_wait(ex::schedule(sched) | ex::then([&] { all_cases(); }));
    pika::finalize();
    int rc = pika::stop();
    g_done = true;
    std::printf("END JM rc=%d\n", rc);
    std::fflush(stdout);
    return 0;
}
