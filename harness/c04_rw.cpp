// C04 LOCKSTEP harness: the real async_rw_mutex (non-void and void specialisations) driven by
// plain std::threads.  A controller thread hands out commands (request read/readwrite, start a
// sender with a holding / an inline-dropping receiver, drop a sender unstarted, destroy a
// connected operation state unstarted, copy a read sender / wrapper, use the value, release a
// wrapper, destroy the mutex) to idle worker threads and decides which parked thread passes
// its hook (401 head load, 402 CAS, 403 exchange in done(), 404 continuation).  Every shared_ptr control block of
// the mutex lives in a quarantine allocator: freed blocks are zeroed and kept until the end of
// the case, so a write to a destroyed shared state is detected (waf) instead of corrupting
// memory.  Per case one IN line (mode, threads, executed schedule) and one OUT line (site
// reached after every schedule entry, the event log, live blocks, never-granted accesses).
#include "common/ctl.hpp"

#include <pika/execution.hpp>
#include <pika/execution/async_rw_mutex.hpp>

#include <csignal>
#include <cstring>
#include <deque>
#include <memory>
#include <mutex>
#include <optional>
#include <sstream>
#include <string>
#include <thread>
#include <unistd.h>
#include <vector>

namespace ex = pika::execution::experimental;

// ---------------------------------------------------------------- quarantine allocator
struct Arena
{
    std::mutex m;
    std::vector<std::pair<void*, std::size_t>> freed;
    long live = 0;
    long check_and_clear()    // number of freed blocks written to after the free
    {
        long bad = 0;
        for (auto& b : freed)
        {
            auto* p = static_cast<unsigned char*>(b.first);
            for (std::size_t i = 0; i < b.second; ++i)
                if (p[i])
                {
                    ++bad;
                    break;
                }
            std::free(b.first);
        }
        freed.clear();
        return bad;
    }
};
static Arena g_arena;

template <typename T>
struct QAlloc
{
    using value_type = T;
    QAlloc() = default;
    template <typename U>
    QAlloc(QAlloc<U> const&) noexcept
    {
    }
    T* allocate(std::size_t n)
    {
        std::lock_guard l(g_arena.m);
        ++g_arena.live;
        return static_cast<T*>(std::calloc(n, sizeof(T)));
    }
    void deallocate(T* p, std::size_t n) noexcept
    {
        std::lock_guard l(g_arena.m);
        --g_arena.live;
        std::memset(static_cast<void*>(p), 0, n * sizeof(T));
        g_arena.freed.emplace_back(p, n * sizeof(T));
    }
    template <typename U>
    bool operator==(QAlloc<U> const&) const noexcept
    {
        return true;
    }
    template <typename U>
    bool operator!=(QAlloc<U> const&) const noexcept
    {
        return false;
    }
};

// ---------------------------------------------------------------- event log
struct Ev
{
    int step;
    char type;    // g grant, u use, r wrapper destroyed, v value destroyed
    int acc;
    int val;
};
static std::vector<Ev> g_ev;
static int g_step = 0;
static void logev(char type, int acc, int val = 0) { g_ev.push_back(Ev{g_step, type, acc, val}); }

struct Val
{
    int ver = 0;
    bool owner = false;
    Val() = default;
    explicit Val(bool o)
      : owner(o)
    {
    }
    Val(Val&& o) noexcept
      : ver(o.ver)
      , owner(o.owner)
    {
        o.owner = false;
    }
    Val& operator=(Val&&) = delete;
    ~Val()
    {
        if (owner) logev('v', -1);
    }
};

// what is printed when the real code crashes under a mutation
static std::string g_in_prefix, g_sched_str;
static int g_case = 0;
static void crash_handler(int sig)
{
    std::printf("%s %s\nOUT RW %d crash=%d\n", g_in_prefix.c_str(),
        g_sched_str.empty() ? "-" : g_sched_str.c_str(), g_case, sig);
    std::fflush(stdout);
    _exit(5);
}

enum St
{
    PENDING,     // request in progress
    SENDER,      // sender available
    STARTED,     // connected + started, not yet granted
    LIVE,        // wrapper held
    RELEASED,    // wrapper destroyed
    DROPPED,     // operation state destroyed unstarted
    SILENT       // sender destroyed (start_detached): grant not observable
};

struct HolderBase
{
    virtual ~HolderBase() = default;
    virtual void start() = 0;
};
template <typename S, typename R>
struct Holder : HolderBase
{
    using Op = decltype(ex::connect(std::declval<S&&>(), std::declval<R>()));
    Op op;
    Holder(S&& s, R r)
      : op(ex::connect(std::move(s), std::move(r)))
    {
    }
    void start() override { ex::start(op); }
};

struct Cmd
{
    char op = 0;    // q s t D o c r u x Q(uit)
    int a = -1, b = -1;
    char kind = 'R';
};

template <typename M, bool IsVoid>
struct Case
{
    using SR = decltype(std::declval<M&>().read());
    using SW = decltype(std::declval<M&>().readwrite());
    using WR = typename M::read_access_type;
    using WW = typename M::readwrite_access_type;

    struct Acc
    {
        char kind = 'R';
        int st = PENDING;
        bool autorel = false, use = false;
        std::optional<SR> sr;
        std::optional<SW> sw;
        std::optional<WR> wr;
        std::optional<WW> ww;
        std::unique_ptr<HolderBase> op;
    };

    std::optional<M> mtx;
    Val ext;    // the externally managed resource of the void mutex
    std::deque<Acc> accs;
    bool err = false;

    template <typename W>
    struct Rec
    {
        PIKA_STDEXEC_RECEIVER_CONCEPT
        Case* c;
        int a;
        void set_value(W w) && noexcept { c->on_grant(a, std::move(w)); }
        void set_error(std::exception_ptr) && noexcept { c->err = true; }
        void set_stopped() && noexcept { c->err = true; }
        constexpr ex::empty_env get_env() const& noexcept { return {}; }
    };

    template <typename W>
    void use(int a, W& w)
    {
        if constexpr (std::is_same_v<W, WW>)
        {
            Val* v;
            if constexpr (IsVoid) v = &ext; else v = &w.get();
            int seen = v->ver;
            logev('u', a, seen);
            v->ver = seen + 1;
        }
        else
        {
            Val const* v;
            if constexpr (IsVoid) v = &ext; else v = &w.get();
            logev('u', a, v->ver);
        }
    }

    template <typename W>
    void on_grant(int a, W w)
    {
        Acc& x = accs[a];
        logev('g', a);
        x.st = LIVE;
        if (x.use) use(a, w);
        if (x.autorel)
        {
            logev('r', a);
            x.st = RELEASED;
            return;    // w destroyed here, inside set_value
        }
        if constexpr (std::is_same_v<W, WW>) x.ww.emplace(std::move(w)); else x.wr.emplace(std::move(w));
    }

    void exec(Cmd const& c)
    {
        switch (c.op)
        {
        case 'q':
        {
            Acc& x = accs[c.a];
            if (c.kind == 'R') x.sr.emplace(mtx->read()); else x.sw.emplace(mtx->readwrite());
            x.st = SENDER;
            break;
        }
        case 's':
        case 't':
        {
            Acc& x = accs[c.a];
            x.autorel = x.use = (c.op == 't');
            x.st = STARTED;
            if (x.kind == 'R')
            {
                x.op.reset(new Holder<SR, Rec<WR>>(std::move(*x.sr), Rec<WR>{this, c.a}));
                x.sr.reset();
            }
            else
            {
                x.op.reset(new Holder<SW, Rec<WW>>(std::move(*x.sw), Rec<WW>{this, c.a}));
                x.sw.reset();
            }
            x.op->start();
            break;
        }
        case 'D':
        {
            Acc& x = accs[c.a];
            x.st = SILENT;
            x.sr.reset();    // ~sender: start_detached
            x.sw.reset();
            break;
        }
        case 'o':
        {
            Acc& x = accs[c.a];
            x.st = DROPPED;
            if (x.kind == 'R')
            {
                {
                    Holder<SR, Rec<WR>> h(std::move(*x.sr), Rec<WR>{this, c.a});
                }
                x.sr.reset();
            }
            else
            {
                {
                    Holder<SW, Rec<WW>> h(std::move(*x.sw), Rec<WW>{this, c.a});
                }
                x.sw.reset();
            }
            break;
        }
        case 'c':
        {
            Acc& x = accs[c.a];
            Acc& y = accs[c.b];
            if (x.sr) y.sr.emplace(*x.sr); else if (x.wr) y.wr.emplace(*x.wr);
            y.st = x.st;
            break;
        }
        case 'r':
        {
            Acc& x = accs[c.a];
            logev('r', c.a);
            x.st = RELEASED;
            x.wr.reset();
            x.ww.reset();
            break;
        }
        case 'u':
        {
            Acc& x = accs[c.a];
            if (x.kind == 'R') use(c.a, *x.wr); else use(c.a, *x.ww);
            break;
        }
        case 'x': mtx.reset(); break;
        }
    }

    // returns: 0 ok, 4 hang
    int run(int cs, char mode, std::uint64_t seed, int maxreq)
    {
        vctl::Rng rng(seed);
        int T = 2 + (int) rng.below(3);
        int nreq = 1 + (int) rng.below(maxreq);
        std::string reqs;
        int style = (int) rng.below(4);
        for (int i = 0; i < nreq; ++i)
            reqs.push_back(style == 0 ? (rng.chance(1, 2) ? 'R' : 'W') :
                    style == 1                        ? (rng.chance(3, 4) ? 'R' : 'W') :
                    style == 2                        ? (rng.chance(1, 4) ? 'R' : 'W') :
                                                        (i % 3 == 1 ? 'W' : 'R'));
        g_ev.clear();
        g_step = 0;
        g_case = cs;
        {
            std::ostringstream p;
            p << "IN RW " << cs << " " << mode << " " << T;
            g_in_prefix = p.str();
            g_sched_str.clear();
        }
        if constexpr (IsVoid) mtx.emplace(); else mtx.emplace(Val(true));
        std::vector<Cmd> slot(T);
        vctl::Controller ctl(T, 400, 404);
        std::vector<std::thread> th;
        for (int t = 0; t < T; ++t)
            th.emplace_back([&, t] {
                ctl.begin(t);
                for (;;)
                {
                    pika::verif::point(400, nullptr, 0, 0);
                    Cmd c = slot[t];
                    if (c.op == 'Q') break;
                    exec(c);
                }
                ctl.end();
            });
        auto fail = [&](char const* what) {
            std::printf("HARNESS-ERROR %s case=%d\n", what, cs);
            std::fflush(stdout);
            _exit(3);
        };
        if (!ctl.quiesce()) fail("quiesce-start");
        ctl.release_all_parked();
        std::vector<int> sites;
        int next_req = 0, copies = 0, rq = -1;
        bool alive = true;
        int budget = 8 + (int) rng.below(90);
        int maxsteps = 1500;
        bool hang = false;
        int step = 0;
        for (;; ++step)
        {
            if (!ctl.quiesce()) fail("quiesce");
            if (step >= maxsteps)
            {
                hang = true;
                break;
            }
            auto P = ctl.parked();
            std::vector<int> idle, mid;
            for (int t : P) (ctl.site_of(t) == 400 ? idle : mid).push_back(t);
            if (rq >= 0 && ctl.site_of(rq) == 400) rq = -1;
            bool drain = step >= budget;
            // enabled commands
            std::vector<std::pair<Cmd, int>> cand;
            auto add = [&](char op, int a, int w, char kind = 'R', int b = -1) {
                Cmd c;
                c.op = op;
                c.a = a;
                c.b = b;
                c.kind = kind;
                cand.emplace_back(c, w);
            };
            if (!idle.empty())
            {
                if (!drain && alive && rq < 0 && next_req < nreq) add('q', -1, 5, reqs[next_req]);
                for (int a = 0; a < (int) accs.size(); ++a)
                {
                    Acc& x = accs[a];
                    if (x.st == SENDER)
                    {
                        add('s', a, 3);
                        add('t', a, 2);
                        if (!drain)
                        {
                            add('D', a, 1);
                            if (rng.chance(1, 6)) add('o', a, 1);
                            if (x.kind == 'R' && copies < 3) add('c', a, 1);
                        }
                    }
                    else if (x.st == LIVE)
                    {
                        add('r', a, drain ? 4 : 2);
                        if (!drain)
                        {
                            add('u', a, 2);
                            if (x.kind == 'R' && copies < 3) add('c', a, 1);
                        }
                    }
                }
                if (alive && rq < 0 && (drain || next_req >= nreq || rng.chance(1, 40))) add('x', -1, 1);
            }
            if (cand.empty() && mid.empty()) break;
            bool do_cmd = !cand.empty() && (mid.empty() || rng.chance(1, 2));
            int t;
            std::ostringstream ent;
            if (do_cmd)
            {
                t = idle[rng.below(idle.size())];
                int tot = 0;
                for (auto& c : cand) tot += c.second;
                int r = (int) rng.below(tot);
                Cmd c;
                for (auto& x : cand)
                {
                    if (r < x.second)
                    {
                        c = x.first;
                        break;
                    }
                    r -= x.second;
                }
                ent << t << ":" << c.op;
                if (c.op == 'q')
                {
                    accs.emplace_back();
                    c.a = (int) accs.size() - 1;
                    accs[c.a].kind = c.kind;
                    ++next_req;
                    rq = t;
                    ent << c.kind;
                }
                else if (c.op == 'x')
                {
                    alive = false;
                    rq = t;
                }
                else
                {
                    ent << c.a;
                    if (c.op == 'c')
                    {
                        accs.emplace_back();
                        c.b = (int) accs.size() - 1;
                        accs[c.b].kind = accs[c.a].kind;
                        ++copies;
                    }
                }
                slot[t] = c;
            }
            else
            {
                t = mid[rng.below(mid.size())];
                // bias towards letting the same thread run on
                ent << t << ":.";
            }
            if (!g_sched_str.empty()) g_sched_str += ",";
            g_sched_str += ent.str();
            g_step = step;
            ctl.release(t);
            if (!ctl.quiesce()) fail("quiesce-step");
            sites.push_back(ctl.site_of(t) - 400);
        }
        std::ostringstream out;
        out << "OUT RW " << cs << " sites=";
        for (std::size_t i = 0; i < sites.size(); ++i) out << (i ? "," : "") << sites[i];
        if (sites.empty()) out << "-";
        if (hang)
        {
            std::printf("%s %s\n%s hang=1\n", g_in_prefix.c_str(), g_sched_str.c_str(), out.str().c_str());
            std::fflush(stdout);
            _exit(4);
        }
        // stop the workers (all idle at 400)
        for (int t = 0; t < T; ++t) slot[t].op = 'Q';
        ctl.release_all_parked();
        for (auto& x : th) x.join();
        // never-granted accesses keep their operation state (and everything it references) alive
        std::string ung;
        for (int a = 0; a < (int) accs.size(); ++a)
            if (accs[a].st == STARTED)
            {
                ung += (ung.empty() ? "" : ",") + std::to_string(a);
                (void) accs[a].op.release();
            }
        long live = g_arena.live;
        accs.clear();
        long waf = g_arena.check_and_clear();
        out << " ev=";
        bool first = true;
        for (auto& e : g_ev)
        {
            out << (first ? "" : ";") << e.step << ":" << e.type;
            if (e.type != 'v') out << e.acc;
            if (e.type == 'u') out << ":" << e.val;
            first = false;
        }
        if (first) out << "-";
        out << " live=" << live << " ungranted=" << (ung.empty() ? "-" : ung) << " bad=" << (waf || err ? 1 : 0);
        std::printf("%s %s\n%s\n", g_in_prefix.c_str(), g_sched_str.empty() ? "-" : g_sched_str.c_str(),
            out.str().c_str());
        std::fflush(stdout);
        return 0;
    }
};

int main(int argc, char** argv)
{
    std::uint64_t seed = argc > 1 ? std::strtoull(argv[1], nullptr, 10) : 1;
    int ncases = argc > 2 ? std::atoi(argv[2]) : 100;
    int first = argc > 3 ? std::atoi(argv[3]) : 0;
    int maxreq = argc > 4 ? std::atoi(argv[4]) : 12;
    std::signal(SIGSEGV, crash_handler);
    std::signal(SIGABRT, crash_handler);
    std::signal(SIGBUS, crash_handler);
    for (int cs = first; cs < ncases; ++cs)
    {
        std::uint64_t s = seed * 1000003ull + (std::uint64_t) cs;
        if (cs % 4 == 3)
        {
            Case<ex::async_rw_mutex<void, void, QAlloc<int>>, true> c;
            c.run(cs, 'V', s, maxreq);
        }
        else
        {
            Case<ex::async_rw_mutex<Val, Val, QAlloc<int>>, false> c;
            c.run(cs, 'T', s, maxreq);
        }
    }
    return 0;
}
