// C15 PROC/DIFF harness: starts the REAL pika runtime (one process = one case) under the
// topology given by the environment (HWLOC_XMLFILE / HWLOC_SYNTHETIC, or the real machine)
// and prints, from inside the running runtime, what every worker was given:
//   OUT BIND <id> ok pm=<logical process mask> n=<workers> w=<mask>:<pu>:<pool>|... pools=<name>:<offset>:<count>|... [os=...] [in=...]
//   OUT BIND <id> err=<class> [pm=<logical process mask>] msg=<canonical message>
// usage: c15_bind <id> <poolspec> <probe> [pika options...]
//        c15_bind RESTART <id> <poolspec> <probe> [pika options...] @@ <id> <poolspec> <probe> [...] @@ ...   (several starts in ONE process)
//   poolspec  "-"  or  "a.b.c;d.e"  : extra pool k (named p1, p2, ...) takes the exposed PUs at the
//             given positions of the partitioner's socket/core/pu enumeration (rp.sockets())
//   probe     0: partitioner data only
//             1: additionally pthread_getaffinity_np of every worker OS thread (real machine)
//             2: additionally one non-yielding task per worker reporting (global worker number,
//                pool name, sched_getaffinity) from inside
#include <pika/execution.hpp>
#include <pika/init.hpp>
#include <pika/modules/resource_partitioner.hpp>
#include <pika/runtime.hpp>
#include <pika/thread.hpp>
#include <pika/topology/topology.hpp>

#include <hwloc.h>
#include <pthread.h>
#include <sched.h>

#include <atomic>
#include <chrono>
#include <cstdio>
#include <cstdlib>
#include <sstream>
#include <string>
#include <thread>
#include <vector>

namespace ex = pika::execution::experimental;
namespace tt = pika::this_thread::experimental;

static std::string id;

static std::string mask_hex(pika::threads::detail::mask_cref_type m)
{
    // canonical: hexadecimal, no leading zeros, independent of the mask's bit width
    std::size_t n = pika::threads::detail::mask_size(m);
    std::string s;
    int d = 0;
    bool any = false;
    std::size_t top = ((n + 3) / 4) * 4;
    for (std::size_t i = top; i-- > 0;)
    {
        d = d * 2 + ((i < n && pika::threads::detail::test(m, i)) ? 1 : 0);
        if (i % 4 == 0)
        {
            if (d != 0 || any)
            {
                s.push_back("0123456789abcdef"[d]);
                any = true;
            }
            d = 0;
        }
    }
    return any ? s : "0";
}

static std::string cpuset_hex(cpu_set_t const& cs)
{
    std::string s;
    bool any = false;
    int d = 0;
    for (int i = 256; i-- > 0;)
    {
        d = d * 2 + (CPU_ISSET(i, &cs) ? 1 : 0);
        if (i % 4 == 0)
        {
            if (d != 0 || any)
            {
                s.push_back("0123456789abcdef"[d]);
                any = true;
            }
            d = 0;
        }
    }
    return any ? s : "0";
}

static std::string classify(std::string const& w)
{
    auto has = [&](char const* s) { return w.find(s) != std::string::npos; };
    if (has("is larger than number of processing units available in process mask")) return "oversub_mask";
    if (has("is larger than number of available processing units")) return "oversub_hw";
    if (has("does not match the number of threads to bind")) return "count_mismatch";
    if (has("has already been set")) return "already_set";
    if (has("has bits set past the hardware concurrency")) return "mask_past_hw";
    if (has("CPU mask is empty")) return "mask_empty";
    if (has("has no threads assigned")) return "default_pool_empty";
    if (has("Pools empty of resources")) return "empty_pool";
    if (has("can be assigned only")) return "pu_taken";
    if (has("provided on the command-line")) return "too_many_pool_threads";
    if (has("has thread occupancy 0")) return "occupancy0";
    if (has("must be greater than 0")) return "zero_threads";
    return "other";
}

// the process mask pika works with from set_cpubind_mask_main_thread on (LOGICAL indices): the result of
// the OS-index -> logical-index conversion of --pika:process-mask (or of hwloc_get_cpubind)
static std::string process_mask_hex()
{
    return mask_hex(pika::threads::detail::get_topology().get_cpubind_mask_main_thread());
}

static void report_error(std::string const& w)
{
    std::string c = w;
    for (auto& ch : c)
        if (ch == '\n' || ch == ' ') ch = '_';
    if (c.size() > 300) c.resize(300);
    std::string cls = classify(w);
    // a rejected --pika:process-mask was never stored: nothing to compare
    std::string pm = (cls == "mask_past_hw" || cls == "mask_empty") ? std::string() : " pm=" + process_mask_hex();
    std::printf("OUT BIND %s err=%s%s msg=%s\n", id.c_str(), cls.c_str(), pm.c_str(), c.c_str());
    std::fflush(stdout);
}

// "TOPO": print the machine as hwloc shows it to pika (same flags as topology::topology):
//   OUT TOPO topo=<pus of core>,..|.. osidx=<os index of logical PU 0>,..
static int print_topology()
{
    hwloc_topology_t t;
    if (hwloc_topology_init(&t)) return 2;
    hwloc_topology_set_flags(t, HWLOC_TOPOLOGY_FLAG_INCLUDE_DISALLOWED);
    if (hwloc_topology_load(t)) return 2;
    std::string topo, os;
    int ns = hwloc_get_nbobjs_by_type(t, HWLOC_OBJ_PACKAGE);
    int nc = hwloc_get_nbobjs_by_type(t, HWLOC_OBJ_CORE);
    int np = hwloc_get_nbobjs_by_type(t, HWLOC_OBJ_PU);
    for (int s = 0; s < ns; ++s)
    {
        hwloc_obj_t so = hwloc_get_obj_by_type(t, HWLOC_OBJ_PACKAGE, unsigned(s));
        std::string cs;
        for (int c = 0; c < nc; ++c)
        {
            hwloc_obj_t co = hwloc_get_obj_by_type(t, HWLOC_OBJ_CORE, unsigned(c));
            if (!hwloc_bitmap_isincluded(co->cpuset, so->cpuset)) continue;
            int k = 0;
            for (int u = 0; u < np; ++u)
                if (hwloc_bitmap_isincluded(hwloc_get_obj_by_type(t, HWLOC_OBJ_PU, unsigned(u))->cpuset, co->cpuset)) ++k;
            cs += (cs.empty() ? "" : ",") + std::to_string(k);
        }
        topo += (topo.empty() ? "" : "|") + cs;
    }
    for (int u = 0; u < np; ++u)
        os += (os.empty() ? "" : ",") + std::to_string(hwloc_get_obj_by_type(t, HWLOC_OBJ_PU, unsigned(u))->os_index);
    std::printf("OUT TOPO topo=%s osidx=%s sockets=%d cores=%d pus=%d\n", topo.c_str(), os.c_str(), ns, nc, np);
    return 0;
}

// watchdog: a hang of the real code must become a reported line, not a hung check (20 s per start of the runtime)
static std::atomic<long long> g_deadline_ms{0};
static long long now_ms()
{
    return (long long) std::chrono::duration_cast<std::chrono::milliseconds>(std::chrono::steady_clock::now().time_since_epoch()).count();
}

// one start of the runtime: start, report, finalize, stop.  Returns false when the start was refused.
static bool run_case(char* argv0, std::string const& cid, std::string const& poolspec, int probe, std::vector<std::string> const& opts)
{
    id = cid;
    g_deadline_ms = now_ms() + 20000;
    std::vector<std::vector<std::size_t>> pools;
    if (poolspec != "-")
    {
        std::stringstream ss(poolspec);
        std::string part;
        while (std::getline(ss, part, ';'))
        {
            std::vector<std::size_t> pos;
            std::stringstream s2(part);
            std::string x;
            while (std::getline(s2, x, '.'))
                if (!x.empty()) pos.push_back(std::stoul(x));
            pools.push_back(pos);
        }
    }

    std::vector<std::string> optcopy(opts);
    std::vector<char*> av;
    av.push_back(argv0);
    for (auto& o : optcopy) av.push_back(o.data());
    av.push_back(nullptr);

    pika::init_params p;
    std::string exposed_str;
    p.rp_callback = [&](pika::resource::partitioner& rp, pika::program_options::variables_map const&) {
        // the PUs the partitioner exposes, in its own enumeration order
        std::vector<pika::resource::pu const*> exposed;
        for (auto const& s : rp.sockets())
            for (auto const& c : s.cores())
                for (auto const& u : c.pus()) exposed.push_back(&u);
        for (auto* u : exposed) exposed_str += (exposed_str.empty() ? "" : ".") + std::to_string(u->id());
        for (std::size_t k = 0; k < pools.size(); ++k)
        {
            std::string name = "p" + std::to_string(k + 1);
            rp.create_thread_pool(name);
            for (std::size_t pos : pools[k])
                if (pos < exposed.size()) rp.add_resource(*exposed[pos], name);
        }
    };

    try
    {
        pika::start(int(av.size() - 1), av.data(), p);
    }
    catch (std::exception const& e)
    {
        report_error(e.what());
        return false;
    }
    catch (...)
    {
        report_error("unknown exception");
        return false;
    }

    try
    {
        auto& rp = pika::resource::get_partitioner();
        std::size_t n = pika::get_num_worker_threads();
        std::size_t npools = pika::resource::get_num_thread_pools();
        std::ostringstream o;
        o << "OUT BIND " << id << " ok pm=" << process_mask_hex() << " n=" << n << " exposed=" << (exposed_str.empty() ? "-" : exposed_str)
          << " w=";
        // pool of a worker: the pool whose [offset, offset+count) contains its global number
        std::vector<std::size_t> off(npools), cnt(npools);
        for (std::size_t q = 0; q < npools; ++q)
        {
            auto& tp = pika::resource::get_thread_pool(q);
            off[q] = tp.get_thread_offset();
            cnt[q] = tp.get_os_thread_count();
        }
        for (std::size_t i = 0; i < n; ++i)
        {
            std::string owner;
            for (std::size_t q = 0; q < npools; ++q)
                if (i >= off[q] && i < off[q] + cnt[q]) owner += (owner.empty() ? "" : "+") + std::to_string(q);
            if (owner.empty()) owner = "none";
            o << (i ? "|" : "") << mask_hex(rp.get_pu_mask(i)) << ":" << rp.get_pu_num(i) << ":" << owner;
        }
        o << " pools=";
        for (std::size_t q = 0; q < npools; ++q)
            o << (q ? "|" : "") << pika::resource::get_pool_name(q) << ":" << off[q] << ":" << cnt[q];
        if (probe >= 1)
        {
            o << " os=";
            for (std::size_t q = 0; q < npools; ++q)
            {
                auto& tp = pika::resource::get_thread_pool(q);
                for (std::size_t i = 0; i < cnt[q]; ++i)
                {
                    cpu_set_t cs;
                    CPU_ZERO(&cs);
                    std::thread& th = tp.get_os_thread_handle(off[q] + i);
                    int rc = pthread_getaffinity_np(th.native_handle(), sizeof(cs), &cs);
                    o << ((q || i) ? "|" : "") << (rc == 0 ? cpuset_hex(cs) : std::string("fail"));
                }
            }
        }
        if (probe >= 2)
        {
            // one non-yielding task per worker of every pool: each worker can hold only one, so all
            // workers check in; each reports its own view
            std::vector<std::string> seen(n);
            std::atomic<std::size_t> arrived{0};
            std::atomic<bool> giveup{false};
            std::vector<ex::unique_any_sender<>> snd;
            auto t0 = std::chrono::steady_clock::now();
            for (std::size_t q = 0; q < npools; ++q)
            {
                auto sched = ex::thread_pool_scheduler{&pika::resource::get_thread_pool(q)};
                std::atomic<std::size_t>* pool_arrived = new std::atomic<std::size_t>(0);
                std::size_t want = cnt[q];
                for (std::size_t i = 0; i < cnt[q]; ++i)
                {
                    snd.push_back(ex::ensure_started(ex::schedule(sched) | ex::then([&, pool_arrived, want, t0] {
                        std::size_t g = pika::get_worker_thread_num();
                        cpu_set_t cs;
                        CPU_ZERO(&cs);
                        sched_getaffinity(0, sizeof(cs), &cs);
                        std::string s = pika::this_thread::get_pool()->get_pool_name() + "/" +
                            std::to_string(pika::get_local_worker_thread_num()) + "/" + cpuset_hex(cs);
                        if (g < seen.size()) seen[g] += (seen[g].empty() ? "" : "+") + s;
                        ++*pool_arrived;
                        ++arrived;
                        while (pool_arrived->load() < want && !giveup.load())
                        {
                            if (std::chrono::steady_clock::now() - t0 > std::chrono::seconds(8)) giveup = true;
                        }
                    })));
                }
            }
            for (auto& s : snd) tt::sync_wait(std::move(s));
            o << " in=";
            for (std::size_t i = 0; i < n; ++i) o << (i ? "|" : "") << (seen[i].empty() ? "-" : seen[i]);
            if (giveup) o << " probe_timeout=1";
        }
        std::printf("%s\n", o.str().c_str());
        std::fflush(stdout);
    }
    catch (std::exception const& e)
    {
        report_error(std::string("after start: ") + e.what());
    }
    pika::finalize();
    pika::stop();
    return true;
}

int main(int argc, char** argv)
{
    if (argc >= 2 && std::string(argv[1]) == "TOPO") return print_topology();
    std::thread([] {
        for (;;)
        {
            std::this_thread::sleep_for(std::chrono::milliseconds(100));
            long long d = g_deadline_ms.load();
            if (d != 0 && now_ms() > d)
            {
                std::printf("OUT BIND %s err=hang msg=watchdog\n", id.c_str());
                std::fflush(stdout);
                std::_Exit(3);
            }
        }
    }).detach();
    if (argc >= 2 && std::string(argv[1]) == "RESTART")
    {
        // c15_bind RESTART <id> <poolspec> <probe> [pika options...] @@ <id> <poolspec> <probe> [pika options...] @@ ...
        // several starts of the runtime in ONE process (start / report / finalize / stop each), one OUT BIND line per
        // start.  A refused start ends the sequence (the lines of the later starts are then missing).
        int i = 2;
        while (i + 2 < argc)
        {
            std::string cid = argv[i], ps = argv[i + 1];
            int probe = std::atoi(argv[i + 2]);
            i += 3;
            std::vector<std::string> opts;
            for (; i < argc && std::string(argv[i]) != "@@"; ++i) opts.push_back(argv[i]);
            if (i < argc) ++i;
            if (!run_case(argv[0], cid, ps, probe, opts)) break;
        }
        g_deadline_ms = 0;
        return 0;
    }
    if (argc < 4) return 2;
    std::vector<std::string> opts;
    for (int i = 4; i < argc; ++i) opts.push_back(argv[i]);
    run_case(argv[0], argv[1], argv[2], std::atoi(argv[3]), opts);
    return 0;
}
