// C11 TRACE harness: the REAL bulk_receiver::set_value of thread_pool_scheduler_bulk.hpp — chunk
// computation, init_queue, the spawn loop (queue.empty() / inline finish() / register_work), the
// local worker's own part, every spawned task_function, the tasks_remaining countdown and the
// completion of the receiver — running on a REAL pool of the runtime.
//
// The verification hooks sit BEFORE the atomic accesses (queue LOAD 1701, queue CAS 1702, the spawn
// loop's queue.empty() 1108, --tasks_remaining 1105, exception_thrown.exchange 1106, the exception
// store 1107), so their order alone would not be the order of the accesses.  The hook function
// therefore passes a token: a thread takes the token at a hook, logs the event, and keeps the token
// until its next hook (1109, the end of finish(), releases it).  Every atomic access of the bulk
// operation thus happens while its thread holds the token: the logged order IS the order of the
// accesses; which thread gets the token next is decided by the OS scheduler, the pika scheduler
// and a seeded perturbation.  f logs its entry and exit the same way.
//
// The logged order (one model thread = one task_function, identified by its worker_thread) is the
// schedule that the extracted model (Model/Bulk.v, lock_trace) replays: for every logged event the
// model must be parked at the same site (= the event is enabled in the model), and it must predict
// the order of the calls of f, the thrown indices, the order of the decrements, and the completion
// (value / which exception, with the number of calls entered and left at that moment).
// Monitors on the implementation's log are evaluated by tools/props/c11.py (lock_monitor).
//
// usage: c11_trace <seed> <ncases> <W> [<start_id> [<D>]]
// D > 0: the bulk operation runs on a SECOND pool "bulk" with W PUs created through the resource partitioner behind a
// default pool with D PUs (global worker numbers D .. D+W-1, pool-local 0 .. W-1); case ids are then "<W>p<D>-<c>".
#include <pika/execution.hpp>
#include <pika/init.hpp>
#include <pika/runtime.hpp>
#include <pika/thread.hpp>

#include <atomic>
#include <chrono>
#include <cinttypes>
#include <cstdint>
#include <cstdio>
#include <cstdlib>
#include <exception>
#include <map>
#include <mutex>
#include <sstream>
#include <string>
#include <thread>
#include <vector>

#include <sys/syscall.h>
#include <unistd.h>

#if !defined(PIKA_VERIF)
#error "harnesses must be compiled with -DPIKA_VERIF"
#endif

namespace ex = pika::execution::experimental;

struct Rng
{
    std::uint64_t x;
    explicit Rng(std::uint64_t seed)
      : x(seed * 0x9E3779B97F4A7C15ull + 0x1234567ull)
    {
    }
    std::uint64_t next()
    {
        std::uint64_t z = (x += 0x9E3779B97F4A7C15ull);
        z = (z ^ (z >> 30)) * 0xBF58476D1CE4E5B9ull;
        z = (z ^ (z >> 27)) * 0x94D049BB133111EBull;
        return z ^ (z >> 31);
    }
    std::uint64_t below(std::uint64_t n) { return n ? next() % n : 0; }
};

struct bulk_exc
{
    std::uint64_t i;
};

// ------------------------------------------------------------------ the token and the log
struct Ev
{
    std::uint64_t os;
    int site;           // 1101 1105 1106 1107 1108 1109 1701 1702, 3 = entry of f, 4 = exit of f, 8 = receiver signalled
    std::uint64_t a;    // worker_thread (1105, 1108), index (3, 4), local worker (1101)
    std::string txt;    // signal text
};
static std::mutex g_token;
static thread_local bool t_holding = false;
static thread_local std::uint64_t t_rng = 0;
static std::vector<Ev> g_ev;                  // written only while holding the token
static std::atomic<bool> g_active{false};
static std::atomic<std::uint64_t> g_pert{0};
static std::atomic<int> g_done{0};
static int g_ncalls = 0, g_nexits = 0;        // under the token
static std::vector<std::uint64_t> g_throwset;
static int g_throwmode = 0;                   // 0 none, 1 all, 2 set

static void event(int site, std::uint64_t a, char const* txt = nullptr)
{
    if (t_holding)
    {
        g_token.unlock();
        t_holding = false;
    }
    std::uint64_t p = g_pert.load(std::memory_order_relaxed);
    if (p)
    {
        // seeded perturbation before competing for the token: lets other threads overtake
        if (!t_rng) t_rng = p ^ (std::uint64_t(::syscall(SYS_gettid)) * 0x9E3779B97F4A7C15ull);
        t_rng ^= t_rng << 13;
        t_rng ^= t_rng >> 7;
        t_rng ^= t_rng << 17;
        unsigned k = unsigned(t_rng % 16);
        if (k < 4) std::this_thread::yield();
        else if (k < 8)
            for (volatile unsigned i = 0; i < (t_rng >> 8) % 2000; ++i) {}
    }
    g_token.lock();
    t_holding = true;
    g_ev.push_back(Ev{std::uint64_t(::syscall(SYS_gettid)), site, a, txt ? txt : ""});
    if (site == 1109)
    {
        g_token.unlock();
        t_holding = false;
    }
}

static void hook_fn(int site, void const*, std::uint64_t a, std::uint64_t)
{
    if (!g_active.load(std::memory_order_acquire)) return;
    switch (site)
    {
    case 1101: event(site, std::uint64_t(pika::get_local_worker_thread_num())); break;
    case 1105:
    case 1106:
    case 1107:
    case 1108:
    case 1109: event(site, a); break;
    case 1701:
    case 1702: event(site, 0); break;
    default: break;
    }
}

static bool throws(std::uint64_t i)
{
    if (g_throwmode == 1) return true;
    if (g_throwmode == 2)
        for (auto x : g_throwset)
            if (x == i) return true;
    return false;
}

static void signalled(std::string const& kind)
{
    // runs inside finish(), i.e. while the finishing thread holds the token
    std::string s = kind + ":" + std::to_string(g_ncalls) + ":" + std::to_string(g_nexits);
    g_ev.push_back(Ev{std::uint64_t(::syscall(SYS_gettid)), 8, 0, s});
    g_done.fetch_add(1);
}

struct rcv
{
    PIKA_STDEXEC_RECEIVER_CONCEPT
    void set_value(int v) && noexcept { signalled(v == 7 ? "V" : "Vbad"); }
    void set_error(std::exception_ptr ep) && noexcept
    {
        std::string p = "Eother";
        try
        {
            if (ep) std::rethrow_exception(ep);
            p = "Enone";
        }
        catch (bulk_exc const& e)
        {
            p = "E" + std::to_string(e.i);
        }
        catch (...)
        {
        }
        signalled(p);
    }
    template <class E>
    void set_error(E&&) && noexcept
    {
        signalled("Eother");
    }
    void set_stopped() && noexcept { signalled("S"); }
    constexpr ex::empty_env get_env() const noexcept { return {}; }
};

struct body
{
    void operator()(int i, int& v) const
    {
        event(3, std::uint64_t(i));
        ++g_ncalls;
        if (v != 7) std::abort();
        event(4, std::uint64_t(i));
        ++g_nexits;
        if (throws(std::uint64_t(i))) throw bulk_exc{std::uint64_t(i)};
    }
};

static int site_code(int site)
{
    switch (site)
    {
    case 1701: return 1;
    case 1702: return 2;
    case 3: return 3;
    case 4: return 4;
    case 1105: return 5;
    case 1106: return 6;
    case 1107: return 7;
    case 1108: return 9;
    case 1101: return 11;
    default: return -1;
    }
}

template <class T>
static std::string join(std::vector<T> const& v)
{
    if (v.empty()) return "-";
    std::ostringstream o;
    for (std::size_t i = 0; i < v.size(); ++i) o << (i ? "," : "") << v[i];
    return o.str();
}

int main(int argc, char** argv)
{
    if (argc < 4) return 2;
    std::uint64_t seed = std::strtoull(argv[1], nullptr, 10);
    int ncases = std::atoi(argv[2]);
    int W = std::atoi(argv[3]);
    int start = argc > 4 ? std::atoi(argv[4]) : 0;
    static int D = 0, WW = 0;
    D = argc > 5 ? std::atoi(argv[5]) : 0;
    WW = W;

    std::string a0 = argv[0], a1 = "--pika:threads=" + std::to_string(W + D);
    std::vector<char*> av = {a0.data(), a1.data(), nullptr};
    pika::init_params ip;
    if (D > 0)
        ip.rp_callback = [](pika::resource::partitioner& rp, pika::program_options::variables_map const&) {
            rp.create_thread_pool("bulk", pika::resource::scheduling_policy::local_priority_fifo);
            int n = 0, used = 0;
            for (auto const& s : rp.sockets())
                for (auto const& c : s.cores())
                    for (auto const& p : c.pus())
                    {
                        if (n >= D && used < WW)
                        {
                            rp.add_resource(p, "bulk");
                            ++used;
                        }
                        ++n;
                    }
        };
    pika::start(2, av.data(), ip);
    pika::verif::hook.store(&hook_fn);
    auto* pool = &pika::resource::get_thread_pool(D > 0 ? "bulk" : "default");
    std::string const idp = D > 0 ? std::to_string(W) + "p" + std::to_string(D) : std::to_string(W);
    if (int(pool->get_os_thread_count()) != W)
    {
        std::printf("TIEFAIL pool has %zu threads\n", pool->get_os_thread_count());
        std::fflush(stdout);
        std::_Exit(3);
    }

    for (int c = start; c < ncases; ++c)
    {
        Rng r(seed * 7919u + std::uint64_t(W) * 1000003u + std::uint64_t(c));
        int n;
        switch (r.below(6))
        {
        case 0: n = 1 + int(r.below(std::uint64_t(W))); break;
        case 1: n = 8 * W + int(r.below(5)) - 2; break;
        case 2: n = 1 + int(r.below(200)); break;
        default: n = 1 + int(r.below(40)); break;
        }
        if (n < 1) n = 1;
        g_throwset.clear();
        std::string spec = "none";
        int tm = int(r.below(8));
        if (tm == 0)
        {
            g_throwmode = 1;
            spec = "all";
        }
        else if (tm <= 3)
        {
            g_throwmode = 2;
            int k = 1 + int(r.below(3));
            std::ostringstream o;
            o << "set:";
            for (int j = 0; j < k; ++j)
            {
                std::uint64_t x = r.below(std::uint64_t(n) + 2);
                g_throwset.push_back(x);
                o << (j ? "." : "") << std::hex << x;
            }
            spec = o.str();
        }
        else
            g_throwmode = 0;
        bool hinted = r.below(2) == 0;
        int hint = int(r.below(std::uint64_t(W)));
        g_ev.clear();
        g_ev.reserve(1 << 14);
        g_ncalls = g_nexits = 0;
        g_done = 0;
        g_pert = (r.below(4) == 0) ? 0 : (r.next() | 1);

        ex::thread_pool_scheduler sched{pool};
        if (hinted) sched = ex::with_hint(sched, pika::execution::thread_schedule_hint(std::int16_t(hint)));
        std::printf("CASE %d W=%d n=%d spec=%s hint=%d\n", c, W, n, spec.c_str(), hinted ? hint : -1);
        std::fflush(stdout);
        g_active.store(true, std::memory_order_release);
        {
            auto os = ex::connect(ex::transfer_just(sched, 7) | ex::bulk(n, body{}), rcv{});
            ex::start(os);
            auto t0 = std::chrono::steady_clock::now();
            bool hung = false;
            while (g_done.load() < 1)
            {
                std::this_thread::sleep_for(std::chrono::microseconds(50));
                if (std::chrono::steady_clock::now() - t0 > std::chrono::seconds(20))
                {
                    hung = true;
                    break;
                }
            }
            if (hung)
            {
                std::printf("HUNG %d\n", c);
                std::fflush(stdout);
                std::_Exit(7);
            }
            // all task_functions must have left finish() (1109) before the operation state goes away
            t0 = std::chrono::steady_clock::now();
            for (;;)
            {
                int ends = 0;
                {
                    std::lock_guard<std::mutex> l(g_token);
                    for (auto const& e : g_ev)
                        if (e.site == 1109) ++ends;
                }
                if (ends >= W) break;
                std::this_thread::sleep_for(std::chrono::microseconds(50));
                if (std::chrono::steady_clock::now() - t0 > std::chrono::seconds(20))
                {
                    std::printf("HUNG %d (a task_function never finished)\n", c);
                    std::fflush(stdout);
                    std::_Exit(7);
                }
            }
            // give a possible second (wrong) completion a moment to show up
            std::this_thread::sleep_for(std::chrono::microseconds(200));
        }
        g_active.store(false, std::memory_order_release);
        std::vector<Ev> evs;
        {
            std::lock_guard<std::mutex> l(g_token);
            evs = g_ev;
        }

        // ---- attribute the events to model threads (= worker_thread of the task_function)
        // every OS thread's events form segments that end with 1109; the worker_thread of a segment
        // is given by its last 1105 ... except on the thread that ran set_value, where everything from
        // 1101 to the end of its own finish() belongs to the local worker
        int local = -1;
        std::uint64_t sv_os = 0;
        for (auto const& e : evs)
            if (e.site == 1101)
            {
                local = int(e.a);
                sv_os = e.os;
                break;
            }
        std::vector<int> thr(evs.size(), -1);
        std::vector<char> first(evs.size(), 0);    // first event of a spawned task_function
        bool bad = local < 0;
        {
            std::map<std::uint64_t, std::vector<std::size_t>> open;    // OS thread -> indices of the current segment
            bool sv_done = false;
            for (std::size_t i = 0; i < evs.size() && !bad; ++i)
            {
                auto const& e = evs[i];
                bool on_sv = e.os == sv_os && !sv_done;
                if (on_sv)
                {
                    thr[i] = local;
                    if (e.site == 1109 && int(e.a) == local) sv_done = true;
                    continue;
                }
                open[e.os].push_back(i);
                if (e.site == 1109)
                {
                    auto& seg = open[e.os];
                    for (std::size_t j : seg) thr[j] = int(e.a);
                    first[seg.front()] = 1;
                    seg.clear();
                }
            }
            for (auto const& kv : open)
                if (!kv.second.empty()) bad = true;
        }
        std::vector<int> sched_v, sites, fin;
        std::vector<std::uint64_t> calls, exits, thrown;
        std::vector<std::string> sigs;
        for (std::size_t i = 0; i < evs.size(); ++i)
        {
            auto const& e = evs[i];
            if (e.site == 8)
            {
                sigs.push_back(e.txt);
                continue;
            }
            if (e.site == 1109) continue;
            if (first[i])
            {
                sched_v.push_back(thr[i]);    // the start of a spawned task: model step BIdle -> BPop
                sites.push_back(10);
            }
            sched_v.push_back(thr[i]);
            sites.push_back(site_code(e.site));
            if (e.site == 3) calls.push_back(e.a);
            if (e.site == 4)
            {
                exits.push_back(e.a);
                if (throws(e.a)) thrown.push_back(e.a);
            }
            if (e.site == 1105) fin.push_back(int(e.a));
        }
        if (bad)
        {
            std::printf("TIEFAIL case %d: events could not be attributed to task_functions\n", c);
            std::fflush(stdout);
            continue;
        }
        std::string sg;
        for (std::size_t i = 0; i < sigs.size(); ++i) sg += (i ? "|" : "") + sigs[i];
        if (sg.empty()) sg = "-";
        std::printf("IN TR %s-%d %d %d 32 %d %s %s\n", idp.c_str(), c, W, n, local, spec.c_str(), join(sched_v).c_str());
        std::printf("OUT TR %s-%d sites=%s calls=%s exits=%s thrown=%s sigs=%s fin=%s rem=%d\n",
            idp.c_str(), c, join(sites).c_str(), join(calls).c_str(), join(exits).c_str(), join(thrown).c_str(), sg.c_str(), join(fin).c_str(),
            W - int(fin.size()));
        std::fflush(stdout);
    }
    pika::verif::hook.store(nullptr);
    std::printf("END %d\n", ncases);
    std::fflush(stdout);
    pika::finalize();
    pika::stop();
    return 0;
}
