// C09 parameter harness: every API parameter of latch / barrier / call_once that selects a
// different code path is varied on the running pika runtime (4 workers), with STRAGGLERS, and
// the property is evaluated on per-phase ledgers that do not depend on any model:
//
//   barrier  wait(token, busy_wait_timeout) / arrive_and_wait(busy_wait_timeout) with the timeout
//            zero / negative (no busy wait), 1 ns, SHORTER than the arrival skew (the busy wait
//            times out and has to fall back to the blocking wait), LONGER than the skew, mixed per
//            participant and phase; arrive(n) with n > 1; arrive_and_drop in the middle of a run
//            (the dropper leaves, or keeps part of its weight); expected count 1; the default
//            completion function; a second wait with a copy of the token; participants on pika
//            tasks and on OS threads, more participants than workers, several phases.
//            ledger: arrived[k] += n BEFORE arriving at phase k, left[k]++ AFTER the wait of phase
//            k returned, done[k] = 1/2 at entry/exit of the completion function.
//            monitors: early_departure (arrived[k] < expected[k] when leaving phase k),
//            release_before_completion, completion_before_all_arrived, completion_after_release,
//            completion_twice, completion_count, stuck (watchdog).
//   latch    count_down(n) with n = 0 / 1 / > 1, arrive_and_wait(n) with n = 0 / 1 / > 1, wait,
//            polling try_wait; the last decrement comes late.  ledger: pending -= n BEFORE each
//            call; monitors: early_return (wait / arrive_and_wait returned or try_wait() == true
//            while pending > 0), stuck.
//   once     call_once(flag, f, args...) with forwarded arguments (value, reference_wrapper,
//            move-only) and with a member function pointer, late callers, throwing first runs.
//
// A straggler of phase k waits until every other participant of the phase has announced that it
// is about to arrive, then waits `skew` more (6..30 ms) and only then arrives.  No monitor depends
// on timing: on correct code arrived[k] == expected[k] holds at every departure whatever the
// machine load; the delays only decide which code path (busy wait succeeded / timed out) is taken.
//
//   c09_params all <seed> <scale>            all families
//   c09_params one <family> <seed> <index>   one case again (the replay of a hit)
// Output: STAT lines per case, `MONITOR <signature> replay=<family>,<seed>,<index> <detail>` per
// hit, DONE at the end.  A hang of the real code becomes `MONITOR <kind>:stuck:<class>` (watchdog).
#include "common/ctl.hpp"

#include <pika/barrier.hpp>
#include <pika/execution.hpp>
#include <pika/init.hpp>
#include <pika/latch.hpp>
#include <pika/synchronization/once.hpp>
#include <pika/thread.hpp>
#include <pika/threading_base/thread_data.hpp>

#include <atomic>
#include <chrono>
#include <cstdio>
#include <cstring>
#include <functional>
#include <memory>
#include <mutex>
#include <sstream>
#include <stdexcept>
#include <string>
#include <thread>
#include <vector>

using namespace std::chrono_literals;
using clk = std::chrono::steady_clock;
namespace ex = pika::execution::experimental;
namespace tt = pika::this_thread::experimental;

namespace {
    // ------------------------------------------------------------------ reporting / watchdog
    std::atomic<std::uint64_t> g_progress{0};
    std::atomic<bool> g_done{false};
    std::atomic<int> g_monitor_hits{0};
    std::mutex g_case_m;
    std::string g_kind = "startup", g_class = "none", g_replay = "-";
    std::function<std::string()> g_dump;

    void tick() { g_progress.fetch_add(1, std::memory_order_relaxed); }

    void monitor(std::string const& sig, std::string const& replay, std::string const& detail)
    {
        if (g_monitor_hits++ < 30)
        {
            std::printf("MONITOR %s replay=%s %s\n", sig.c_str(), replay.c_str(), detail.c_str());
            std::fflush(stdout);
        }
    }

    void set_case(std::string kind, std::string cls, std::string replay, std::function<std::string()> dump)
    {
        std::lock_guard l(g_case_m);
        g_kind = std::move(kind);
        g_class = std::move(cls);
        g_replay = std::move(replay);
        g_dump = std::move(dump);
        tick();
    }

    void watchdog(int limit_ms)
    {
        std::uint64_t last = g_progress.load();
        auto since = clk::now();
        while (!g_done.load())
        {
            std::this_thread::sleep_for(50ms);
            std::uint64_t now = g_progress.load();
            if (now != last)
            {
                last = now;
                since = clk::now();
            }
            else if (clk::now() - since > std::chrono::milliseconds(limit_ms))
            {
                std::lock_guard l(g_case_m);
                std::string st = g_dump ? g_dump() : std::string();
                std::printf("MONITOR %s:stuck:%s replay=%s no progress for %d ms (a participant never returned) %s\n",
                    g_kind.c_str(), g_class.c_str(), g_replay.c_str(), limit_ms, st.c_str());
                std::fflush(stdout);
                std::_Exit(0);
            }
        }
    }

    ex::thread_pool_scheduler* g_sched = nullptr;
    template <typename F>
    void spawn_task(F f)
    {
        ex::start_detached(ex::schedule(*g_sched) | ex::then(std::move(f)));
    }

    // delays: a pika task yields (keeps the worker available), an OS thread sleeps
    void delay_until(bool on_pika, clk::time_point t)
    {
        if (on_pika)
            while (clk::now() < t) pika::this_thread::yield();
        else
            std::this_thread::sleep_until(t);
    }
    void wait_count(bool on_pika, std::atomic<int>& c, int target)
    {
        while (c.load() < target)
        {
            if (on_pika)
                pika::this_thread::yield();
            else
                std::this_thread::sleep_for(50us);
        }
    }

    // runs body(i) for i in [0,P): on a pika task or on an OS thread; returns when all finished
    template <typename Body>
    void run_participants(int P, std::vector<char> const& os, Body body)
    {
        std::atomic<int> finished{0};
        std::vector<std::thread> ths;
        for (int i = 0; i < P; ++i)
        {
            if (os[i])
                ths.emplace_back([&, i] {
                    body(i, false);
                    ++finished;
                });
            else
                spawn_task([&, i] {
                    body(i, true);
                    ++finished;
                });
        }
        while (finished.load() < P) std::this_thread::sleep_for(100us);
        for (auto& t : ths) t.join();
    }

    std::uint64_t case_seed(std::uint64_t seed, int fam, int idx)
    {
        return seed * 1000003ull + static_cast<std::uint64_t>(fam) * 10007ull + static_cast<std::uint64_t>(idx) + 17;
    }

    // ------------------------------------------------------------------ barrier
    enum Fam
    {
        F_BUSY_LT = 0,
        F_BUSY_GT,
        F_BUSY_MIXED,
        F_ARRIVE_N,
        F_DROP,
        F_ONE,
        F_DEFCOMP,
        F_LATCH,
        F_ONCE,
        F_WPATH,
        F_COUNT
    };
    char const* const fam_name[F_COUNT] = {"busy_lt_skew", "busy_gt_skew", "busy_mixed", "arrive_n", "drop_midrun",
        "expected_one", "default_completion", "latch_n", "once_args", "wait_path"};

    enum TO
    {
        TO_ZERO = 0,
        TO_NEG,
        TO_TINY,
        TO_LT,
        TO_GT
    };
    char const* const to_name[] = {"busy_wait_timeout_zero", "busy_wait_timeout_negative", "busy_wait_timeout_tiny",
        "busy_wait_timeout_lt_skew", "busy_wait_timeout_gt_skew"};

    enum Op
    {
        OP_AW = 0,        // arrive_and_wait(timeout)
        OP_A_W,           // tok = arrive(n); wait(tok, timeout)
        OP_DROP_LEAVE,    // arrive_and_drop(); the participant leaves (weight 1)
        OP_DROP_KEEP      // arrive_and_drop(); tok = arrive(n - 1); wait(tok, timeout); weight n - 1 afterwards
    };

    struct Step
    {
        int op = OP_AW;
        int n = 1;    // arrivals issued by this participant in this phase (0 = not active)
        int to = TO_ZERO;
        double timeout = 0.0;
        bool straggler = false;
        int skew_us = 0;
        bool rewait = false;
    };

    struct Plan
    {
        int fam = 0, P = 0, K = 0;
        bool defcomp = false;
        std::vector<char> os;
        std::vector<std::vector<Step>> st;    // [participant][phase]
        std::vector<int> expected, nonstragglers;
        std::string text;
    };

    double timeout_of(int to, vctl::Rng& rng)
    {
        switch (to)
        {
        case TO_ZERO: return 0.0;
        case TO_NEG: return -1.0;
        case TO_TINY: return 1e-9;
        case TO_LT: return 1e-6 * static_cast<double>(100 + rng.below(1900));    // 0.1 .. 2 ms
        default: return 5.0;                                                     // never expected to expire
        }
    }

    Plan make_plan(int fam, vctl::Rng& rng)
    {
        Plan pl;
        pl.fam = fam;
        pl.defcomp = fam == F_DEFCOMP;
        int P, K;
        std::vector<int> weight;
        switch (fam)
        {
        case F_BUSY_GT:
        {
            int pk = 1 + (int) rng.below(3), po = (int) rng.below(4);
            if (pk + po < 2) po = 1;
            P = pk + po;
            K = 2 + (int) rng.below(2);
            pl.os.assign(P, 0);
            for (int i = pk; i < P; ++i) pl.os[i] = 1;
            break;
        }
        case F_ONE:
            P = 1;
            K = 3 + (int) rng.below(38);
            pl.os.assign(1, rng.chance(1, 3));
            break;
        case F_ARRIVE_N:
            P = 2 + (int) rng.below(5);
            K = 2 + (int) rng.below(3);
            break;
        case F_DROP:
            P = 3 + (int) rng.below(6);
            K = 3 + (int) rng.below(3);
            break;
        default:
            P = 2 + (int) rng.below(9);    // up to 10 participants on 4 workers
            K = 2 + (int) rng.below(3);
            break;
        }
        if (pl.os.empty())
        {
            pl.os.assign(P, 0);
            for (int i = 0; i < P; ++i) pl.os[i] = rng.chance(1, 4);
        }
        int npika = 0;
        for (int i = 0; i < P; ++i) npika += !pl.os[i];
        // a busy wait does not give up its worker: a timeout longer than the skew is used only when
        // the pika-task participants cannot occupy all 4 workers
        bool const allow_gt = npika <= 3;
        weight.assign(P, 1);
        if (fam == F_ARRIVE_N || fam == F_DROP || fam == F_ONE)
        {
            bool any = false;
            for (int i = 0; i < P; ++i)
            {
                weight[i] = 1 + (int) rng.below(fam == F_ONE ? 5 : 4);
                any = any || weight[i] > 1;
            }
            if (!any && fam != F_ONE) weight[rng.below(P)] = 2 + (int) rng.below(3);
        }
        std::vector<int> drop_at(P, -1), drop_keep(P, 0);
        if (fam == F_DROP)
        {
            bool any = false;
            for (int i = 1; i < P; ++i)    // participant 0 never drops
                if (rng.chance(1, 2) || (i == P - 1 && !any))
                {
                    drop_at[i] = (int) rng.below(K - 1);    // never in the last phase
                    drop_keep[i] = rng.chance(1, 2);
                    // a participant that keeps part of its weight has weight >= 2; one that leaves by
                    // arrive_and_drop (one unit) has weight 1 from the start
                    if (drop_keep[i])
                    {
                        if (weight[i] < 2) weight[i] = 2;
                    }
                    else
                        weight[i] = 1;
                    any = true;
                }
        }
        pl.P = P;
        pl.K = K;
        pl.st.assign(P, std::vector<Step>(K));
        pl.expected.assign(K, 0);
        pl.nonstragglers.assign(K, 0);
        for (int k = 0; k < K; ++k)
        {
            std::vector<int> active;
            for (int i = 0; i < P; ++i)
                if (weight[i] > 0) active.push_back(i);
            int nstr = 0;
            if (active.size() >= 2 && fam != F_ONE)
            {
                nstr = 1 + (rng.chance(1, 4) ? 1 : 0);
                if (nstr > (int) active.size() - 1) nstr = (int) active.size() - 1;
            }
            std::vector<char> is_str(P, 0);
            for (int s = 0; s < nstr;)
            {
                int i = active[rng.below(active.size())];
                if (!is_str[i])
                {
                    is_str[i] = 1;
                    ++s;
                }
            }
            for (int i : active)
            {
                Step& s = pl.st[i][k];
                s.n = weight[i];
                s.straggler = is_str[i];
                s.skew_us = 6000 + (int) rng.below(24000);
                switch (fam)
                {
                case F_BUSY_LT:
                case F_DEFCOMP: s.to = TO_LT; break;
                case F_BUSY_GT: s.to = TO_GT; break;
                case F_BUSY_MIXED:
                case F_ONE:
                {
                    int c = (int) rng.below(allow_gt ? 5 : 4);
                    s.to = c;
                    break;
                }
                case F_ARRIVE_N:
                {
                    int const c[] = {TO_ZERO, TO_LT, TO_LT, TO_TINY};
                    s.to = c[rng.below(4)];
                    break;
                }
                default: s.to = rng.chance(1, 2) ? TO_LT : TO_ZERO; break;
                }
                s.timeout = timeout_of(s.to, rng);
                if (k == drop_at[i])
                {
                    s.op = drop_keep[i] ? OP_DROP_KEEP : OP_DROP_LEAVE;
                }
                else if (s.n > 1)
                    s.op = OP_A_W;
                else
                    s.op = rng.chance(1, 2) ? OP_AW : OP_A_W;
                s.rewait = (s.op == OP_A_W || s.op == OP_DROP_KEEP) && rng.chance(1, 3);
            }
            for (int i : active)
            {
                pl.expected[k] += pl.st[i][k].n;
                if (!pl.st[i][k].straggler) ++pl.nonstragglers[k];
            }
            for (int i : active)
            {
                if (pl.st[i][k].op == OP_DROP_LEAVE)
                    weight[i] = 0;
                else if (pl.st[i][k].op == OP_DROP_KEEP)
                    weight[i] = pl.st[i][k].n - 1;
            }
        }
        std::ostringstream o;
        o << "P=" << P << " K=" << K << " expected=";
        for (int k = 0; k < K; ++k) o << (k ? "," : "") << pl.expected[k];
        pl.text = o.str();
        return pl;
    }

    struct Ledger
    {
        int K = 0;
        bool defcomp = false;
        std::vector<int> expected;
        std::unique_ptr<std::atomic<int>[]> arrived, left, done, entered;
        std::atomic<int> completions{0}, bad{0};
        std::string fam, replay;
    };

    struct LedgerCompletion
    {
        Ledger* s;
        void operator()() noexcept
        {
            int k = s->completions.load();
            if (k >= s->K)
            {
                if (s->bad++ == 0)
                    monitor("barrier:completion_count:" + s->fam, s->replay,
                        "the completion function runs for the " + std::to_string(k + 1) + "th time, the run has " +
                            std::to_string(s->K) + " phases");
                return;
            }
            int a = s->arrived[k].load(), l = s->left[k].load(), d = 0;
            if (a != s->expected[k] && s->bad++ == 0)
                monitor("barrier:completion_before_all_arrived:" + s->fam, s->replay,
                    "phase=" + std::to_string(k) + " arrived=" + std::to_string(a) + " expected=" + std::to_string(s->expected[k]));
            if (l != 0 && s->bad++ == 0)
                monitor("barrier:completion_after_release:" + s->fam, s->replay,
                    "phase=" + std::to_string(k) + ": " + std::to_string(l) + " participants had left when the completion function started");
            if (!s->done[k].compare_exchange_strong(d, 1) && s->bad++ == 0)
                monitor("barrier:completion_twice:" + s->fam, s->replay, "phase=" + std::to_string(k));
            auto t0 = clk::now();    // widen the window between the completion and the publication of the new phase
            while (clk::now() - t0 < 5us) {}
            s->done[k].store(2);
            s->completions.fetch_add(1);
            tick();
        }
    };

    char const* op_name(Step const& s)
    {
        switch (s.op)
        {
        case OP_AW: return "arrive_and_wait";
        case OP_A_W: return s.n > 1 ? "wait_after_arrive_n" : "wait";
        case OP_DROP_KEEP: return "wait_after_drop";
        default: return "arrive_and_drop";
        }
    }

    struct BarStats
    {
        std::atomic<int> waits[5], timed_out[5], rewaits{0};
        BarStats()
        {
            for (auto& x : waits) x = 0;
            for (auto& x : timed_out) x = 0;
        }
    };

    template <typename Bar>
    void participant(Bar& bar, Ledger& L, Plan const& pl, BarStats& stats, int i, bool on_pika)
    {
        using dsec = std::chrono::duration<double>;
        for (int k = 0; k < pl.K; ++k)
        {
            Step const& s = pl.st[i][k];
            if (s.n == 0) return;
            if (s.straggler)
            {
                wait_count(on_pika, L.entered[k], pl.nonstragglers[k]);
                delay_until(on_pika, clk::now() + std::chrono::microseconds(s.skew_us));
            }
            else
                L.entered[k].fetch_add(1);
            L.arrived[k].fetch_add(s.n);    // BEFORE arriving
            auto t0 = clk::now();
            bool waited = true;
            switch (s.op)
            {
            case OP_AW: bar.arrive_and_wait(dsec(s.timeout)); break;
            case OP_A_W:
            {
                auto tok = bar.arrive(s.n);
                auto copy = tok;
                t0 = clk::now();
                bar.wait(std::move(tok), dsec(s.timeout));
                if (s.rewait)
                {
                    // the token's phase has completed: a second wait returns at once, whatever the timeout
                    bar.wait(std::move(copy), dsec(s.timeout));
                    ++stats.rewaits;
                }
                break;
            }
            case OP_DROP_KEEP:
            {
                bar.arrive_and_drop();
                auto tok = bar.arrive(s.n - 1);
                auto copy = tok;
                t0 = clk::now();
                bar.wait(std::move(tok), dsec(s.timeout));
                if (s.rewait)
                {
                    bar.wait(std::move(copy), dsec(s.timeout));
                    ++stats.rewaits;
                }
                break;
            }
            default:
                bar.arrive_and_drop();
                waited = false;
                break;
            }
            if (!waited)
            {
                tick();
                return;
            }
            double el = std::chrono::duration<double>(clk::now() - t0).count();
            int a = L.arrived[k].load(), d = L.done[k].load();
            if (a < L.expected[k] && L.bad++ == 0)
                monitor(std::string("barrier:early_departure:") + op_name(s) + ":" + to_name[s.to], L.replay,
                    "participant " + std::to_string(i) + (on_pika ? " (pika task)" : " (OS thread)") + " left phase " +
                        std::to_string(k) + " after " + std::to_string(el * 1e3) + " ms with " + std::to_string(a) + " of " +
                        std::to_string(L.expected[k]) + " arrivals issued; busy_wait_timeout=" + std::to_string(s.timeout) +
                        " s; " + pl.text);
            if (!L.defcomp && d != 2 && L.bad++ == 0)
                monitor(std::string("barrier:release_before_completion:") + op_name(s) + ":" + to_name[s.to], L.replay,
                    "participant " + std::to_string(i) + " left phase " + std::to_string(k) +
                        " while the completion function " + (d == 0 ? "had not started" : "was still running") +
                        "; busy_wait_timeout=" + std::to_string(s.timeout) + " s; " + pl.text);
            L.left[k].fetch_add(1);
            ++stats.waits[s.to];
            if (s.timeout > 0.0 && el > s.timeout) ++stats.timed_out[s.to];
            tick();
        }
    }

    void barrier_case(int fam, std::uint64_t seed, int idx)
    {
        vctl::Rng rng(case_seed(seed, fam, idx));
        Plan pl = make_plan(fam, rng);
        Ledger L;
        L.K = pl.K;
        L.defcomp = pl.defcomp;
        L.expected = pl.expected;
        L.fam = fam_name[fam];
        L.replay = std::string(fam_name[fam]) + "," + std::to_string(seed) + "," + std::to_string(idx);
        auto mk = [&] {
            auto p = std::unique_ptr<std::atomic<int>[]>(new std::atomic<int>[pl.K]);
            for (int k = 0; k < pl.K; ++k) p[k] = 0;
            return p;
        };
        L.arrived = mk();
        L.left = mk();
        L.done = mk();
        L.entered = mk();
        set_case("barrier", L.fam, L.replay, [&L, &pl] {
            std::ostringstream o;
            o << pl.text << " completions=" << L.completions.load() << " arrived/left per phase:";
            for (int k = 0; k < pl.K; ++k) o << " " << L.arrived[k].load() << "/" << L.left[k].load();
            return o.str();
        });
        BarStats stats;
        if (pl.defcomp)
        {
            pika::barrier<> bar(pl.expected[0]);
            run_participants(pl.P, pl.os, [&](int i, bool on_pika) { participant(bar, L, pl, stats, i, on_pika); });
        }
        else
        {
            pika::barrier<LedgerCompletion> bar(pl.expected[0], LedgerCompletion{&L});
            run_participants(pl.P, pl.os, [&](int i, bool on_pika) { participant(bar, L, pl, stats, i, on_pika); });
            if (L.completions.load() != pl.K && L.bad++ == 0)
                monitor("barrier:completion_count:" + L.fam, L.replay,
                    std::to_string(L.completions.load()) + " completions for " + std::to_string(pl.K) + " phases; " + pl.text);
        }
        set_case("between_cases", "none", L.replay, nullptr);
        int nos = 0, nmax = 1, drops = 0;
        for (int i = 0; i < pl.P; ++i)
        {
            nos += pl.os[i];
            for (int k = 0; k < pl.K; ++k)
            {
                if (pl.st[i][k].n > nmax) nmax = pl.st[i][k].n;
                if (pl.st[i][k].n > 0 && (pl.st[i][k].op == OP_DROP_KEEP || pl.st[i][k].op == OP_DROP_LEAVE)) ++drops;
            }
        }
        std::printf("STAT barrier fam=%s idx=%d P=%d os=%d K=%d nmax=%d drops=%d rewaits=%d", fam_name[fam], idx, pl.P, nos,
            pl.K, nmax, drops, stats.rewaits.load());
        char const* const shortn[] = {"zero", "neg", "tiny", "lt", "gt"};
        for (int c = 0; c < 5; ++c) std::printf(" w_%s=%d", shortn[c], stats.waits[c].load());
        std::printf(" lt_timed_out=%d tiny_timed_out=%d gt_timed_out=%d ok=%d\n", stats.timed_out[TO_LT].load(),
            stats.timed_out[TO_TINY].load(), stats.timed_out[TO_GT].load(), L.bad.load() == 0);
        std::fflush(stdout);
    }

    // ------------------------------------------------------------------ latch
    char const* const focus_name[] = {"count_down_n_gt1", "count_down_n_zero", "arrive_and_wait_n_gt1",
        "arrive_and_wait_n_zero", "try_wait_poll", "mixed"};

    struct LOp
    {
        int kind;    // 0 wait, 1 try_wait poll, 2 arrive_and_wait(n), 3 count_down(n)
        int n;
        bool straggler;
    };

    void latch_case(std::uint64_t seed, int idx)
    {
        vctl::Rng rng(case_seed(seed, F_LATCH, idx));
        int focus = idx % 6;
        std::vector<LOp> ops;
        int W = 1 + (int) rng.below(6);
        for (int i = 0; i < W; ++i) ops.push_back({0, 0, false});
        auto cd = [&](int n) { ops.push_back({3, n, false}); };
        auto aw = [&](int n) { ops.push_back({2, n, false}); };
        switch (focus)
        {
        case 0:
            for (int i = 0, m = 1 + (int) rng.below(3); i < m; ++i) cd(2 + (int) rng.below(4));
            for (int i = 0, m = (int) rng.below(3); i < m; ++i) aw(1);
            break;
        case 1:
            for (int i = 0, m = 1 + (int) rng.below(2); i < m; ++i) cd(0);
            for (int i = 0, m = 1 + (int) rng.below(3); i < m; ++i) cd(1 + (int) rng.below(2));
            break;
        case 2:
            for (int i = 0, m = 1 + (int) rng.below(3); i < m; ++i) aw(2 + (int) rng.below(2));
            for (int i = 0, m = (int) rng.below(3); i < m; ++i) cd(1);
            break;
        case 3:
            for (int i = 0, m = 1 + (int) rng.below(2); i < m; ++i) aw(0);
            for (int i = 0, m = 1 + (int) rng.below(3); i < m; ++i) cd(1 + (int) rng.below(3));
            break;
        case 4:
            for (int i = 0, m = 2 + (int) rng.below(3); i < m; ++i) ops.push_back({1, 0, false});
            for (int i = 0, m = 1 + (int) rng.below(3); i < m; ++i) cd(1 + (int) rng.below(3));
            break;
        default:
            for (int i = 0, m = (int) rng.below(3); i < m; ++i) ops.push_back({1, 0, false});
            for (int i = 0, m = (int) rng.below(4); i < m; ++i) cd((int) rng.below(5));
            for (int i = 0, m = (int) rng.below(4); i < m; ++i) aw((int) rng.below(4));
            break;
        }
        int C = 0;
        std::vector<int> decs;
        for (int i = 0; i < (int) ops.size(); ++i)
        {
            C += ops[i].n;
            if (ops[i].n >= 1) decs.push_back(i);
        }
        int nstr = 0;
        if (!decs.empty())
        {
            ops[decs[rng.below(decs.size())]].straggler = true;    // the count reaches zero late
            nstr = 1;
        }
        int const P = (int) ops.size();
        for (int i = P - 1; i > 0; --i) std::swap(ops[i], ops[rng.below(i + 1)]);
        std::vector<char> os(P, 0);
        for (int i = 0; i < P; ++i) os[i] = rng.chance(1, 4);
        int const skew_us = 3000 + (int) rng.below(12000);
        std::string const fam = focus_name[focus];
        std::string const replay = std::string(fam_name[F_LATCH]) + "," + std::to_string(seed) + "," + std::to_string(idx);
        pika::latch L(C);
        std::atomic<int> pending{C}, entered{0}, returned{0}, bad{0};
        set_case("latch", fam, replay, [&] {
            return "count=" + std::to_string(C) + " participants=" + std::to_string(P) + " decrements still to be issued=" +
                std::to_string(pending.load()) + " calls returned=" + std::to_string(returned.load());
        });
        auto check = [&](char const* what, int i, int n) {
            int p = pending.load();
            if (p != 0 && bad++ == 0)
                monitor(std::string("latch:early_return:") + what + ":" + fam, replay,
                    std::string(what) + (std::strcmp(what, "arrive_and_wait") == 0 ? "(" + std::to_string(n) + ")" : "") +
                        " of participant " + std::to_string(i) + " returned while " + std::to_string(p) + " of " +
                        std::to_string(C) + " decrements had not been issued");
        };
        run_participants(P, os, [&](int i, bool on_pika) {
            LOp const& o = ops[i];
            if (o.straggler)
            {
                wait_count(on_pika, entered, P - nstr);
                delay_until(on_pika, clk::now() + std::chrono::microseconds(skew_us));
            }
            else
                entered.fetch_add(1);
            switch (o.kind)
            {
            case 0:
                L.wait();
                check("wait", i, 0);
                break;
            case 1:
                while (!L.try_wait())
                {
                    if (on_pika)
                        pika::this_thread::yield();
                    else
                        std::this_thread::sleep_for(20us);
                }
                check("try_wait", i, 0);
                break;
            case 2:
                pending.fetch_sub(o.n);    // BEFORE the call
                L.arrive_and_wait(o.n);
                check("arrive_and_wait", i, o.n);
                break;
            default:
                pending.fetch_sub(o.n);
                L.count_down(o.n);
                break;
            }
            ++returned;
            tick();
        });
        if (!L.try_wait() && bad++ == 0)
            monitor("latch:early_return:try_wait_false_at_end:" + fam, replay,
                "all " + std::to_string(C) + " decrements were issued and every call returned but try_wait() is false");
        set_case("between_cases", "none", replay, nullptr);
        std::printf("STAT latch focus=%s idx=%d C=%d P=%d ok=%d\n", fam.c_str(), idx, C, P, bad.load() == 0);
        std::fflush(stdout);
    }

    // ------------------------------------------------------------------ call_once with arguments
    struct OnceObj
    {
        std::atomic<int> runs{0}, successes{0}, in_body{0}, bad_arg{0};
        std::atomic<bool> finished{false};
        int F = 0;
        void body(int id, std::atomic<int>& ctr, std::unique_ptr<int> p)
        {
            if (in_body.fetch_add(1) != 0) ++bad_arg;    // overlap is reported through the counts below
            int r = runs.fetch_add(1);
            if (!p || *p != id) ++bad_arg;
            ctr.fetch_add(1);
            for (int k = 0; k < 3; ++k)
                if (pika::threads::detail::get_self_id() != pika::threads::detail::invalid_thread_id) pika::this_thread::yield();
            if (r < F)
            {
                in_body.fetch_sub(1);
                throw std::runtime_error("once body");
            }
            finished = true;
            ++successes;
            in_body.fetch_sub(1);
        }
    };

    void once_case(std::uint64_t seed, int idx)
    {
        vctl::Rng rng(case_seed(seed, F_ONCE, idx));
        bool const member = idx % 2;
        std::string const cls = member ? "member_function_pointer" : "forwarded_arguments";
        std::string const replay = std::string(fam_name[F_ONCE]) + "," + std::to_string(seed) + "," + std::to_string(idx);
        int const M = 3 + (int) rng.below(7);
        OnceObj obj;
        obj.F = (int) rng.below(3);
        if (obj.F > M - 1) obj.F = M - 1;
        std::vector<char> os(M, 0), late(M, 0);
        for (int i = 0; i < M; ++i) os[i] = rng.chance(1, 4);
        int nlate = 1 + (int) rng.below(2);
        for (int s = 0; s < nlate; ++s) late[1 + rng.below(M - 1)] = 1;
        nlate = 0;
        for (int i = 0; i < M; ++i) nlate += late[i];
        int const skew_us = 2000 + (int) rng.below(6000);
        pika::once_flag flag;
        std::atomic<int> ctr{0}, entered{0}, returned{0}, thrown{0}, bad{0};
        set_case("once", cls, replay, [&] {
            return "callers=" + std::to_string(M) + " throwing_runs=" + std::to_string(obj.F) + " runs=" +
                std::to_string(obj.runs.load()) + " returned=" + std::to_string(returned.load()) + " rethrown=" +
                std::to_string(thrown.load());
        });
        run_participants(M, os, [&](int i, bool on_pika) {
            if (late[i])
            {
                wait_count(on_pika, entered, M - nlate);
                delay_until(on_pika, clk::now() + std::chrono::microseconds(skew_us));
            }
            else
                entered.fetch_add(1);
            try
            {
                if (member)
                    pika::call_once(flag, &OnceObj::body, &obj, i, std::ref(ctr), std::make_unique<int>(i));
                else
                    pika::call_once(
                        flag,
                        [&obj](int id, std::atomic<int>& c, std::unique_ptr<int> p) { obj.body(id, c, std::move(p)); }, i,
                        std::ref(ctr), std::make_unique<int>(i));
                if (!obj.finished.load() && bad++ == 0)
                    monitor("once:returned_before_finished:" + cls, replay,
                        "call_once of caller " + std::to_string(i) + " returned before the callable finished");
                ++returned;
            }
            catch (std::runtime_error const&)
            {
                ++thrown;
            }
            tick();
        });
        if ((obj.successes.load() != 1 || obj.runs.load() != obj.F + 1 || thrown.load() != obj.F ||
                returned.load() != M - obj.F || ctr.load() != obj.F + 1) &&
            bad++ == 0)
            monitor("once:counts:" + cls, replay,
                "callers=" + std::to_string(M) + " throwing_runs=" + std::to_string(obj.F) + ": runs=" +
                    std::to_string(obj.runs.load()) + " successes=" + std::to_string(obj.successes.load()) + " rethrown=" +
                    std::to_string(thrown.load()) + " returned=" + std::to_string(returned.load()) + " counter=" +
                    std::to_string(ctr.load()));
        if (obj.bad_arg.load() != 0 && bad++ == 0)
            monitor("once:arguments:" + cls, replay,
                "the callable saw overlapping runs or arguments other than the ones its caller passed (" +
                    std::to_string(obj.bad_arg.load()) + " times)");
        set_case("between_cases", "none", replay, nullptr);
        std::printf("STAT once cls=%s idx=%d callers=%d throws=%d late=%d ok=%d\n", cls.c_str(), idx, M, obj.F, nlate,
            bad.load() == 0);
        std::fflush(stdout);
    }

    // ------------------------------------------------------------------ which path does wait() take?
    // Correspondence with Model/BarrierTree.v (BSpin / BPoll): OS threads, hooks 906 (wait entered,
    // a = 1 with a busy wait), 907 (blocking wait entered, a = 1 after a timed-out busy wait), 908
    // (wait returns, a = 1 from the busy wait).  The order is enforced by hand-shakes, not by time:
    //   type A waiter: busy_wait_timeout 0.3..2 ms; the straggler arrives only after the waiter
    //                  passed 907 (its timer has expired)           -> 906.1 907.1 908.0
    //   type B waiter: busy_wait_timeout 100 s; the straggler arrives after the waiter passed 906
    //                                                                 -> 906.1 908.1
    //   type C waiter: timeout 0 / -1; straggler after 907           -> 906.0 907.0 908.0
    // and a second wait on a copy of the (now stale) token returns at once on the path its timeout
    // selects.  The model replays the same order (R<t> = run thread t until it polls in vain or has
    // finished, X<t> = the timer of t's busy wait expires) and predicts every thread's trace.
    struct WpThread
    {
        std::vector<std::string> trace;
        std::atomic<int> seen906{0}, seen907{0}, finished{0};
    };
    thread_local WpThread* t_wp = nullptr;
    void wp_hook(int site, void const*, std::uint64_t a, std::uint64_t)
    {
        if (site < 906 || site > 908 || !t_wp) return;
        t_wp->trace.push_back(std::to_string(site) + "." + std::to_string(a));
        if (site == 906) t_wp->seen906.fetch_add(1);
        if (site == 907) t_wp->seen907.fetch_add(1);
    }

    void wpath_case(std::uint64_t seed, int idx)
    {
        using dsec = std::chrono::duration<double>;
        vctl::Rng rng(case_seed(seed, F_WPATH, idx));
        std::string const replay = std::string(fam_name[F_WPATH]) + "," + std::to_string(seed) + "," + std::to_string(idx);
        int const m = 1 + (int) rng.below(3);    // waiters; thread m is the straggler
        int const T = m + 1;
        struct Spec
        {
            int type;       // 0 A, 1 B, 2 C
            bool split;     // arrive() + wait(token, t) instead of arrive_and_wait(t)
            double timeout;
            int rewait;     // 0 none, 1 busy (100 s), 2 zero
        };
        std::vector<Spec> sp(T);
        for (int i = 0; i < T; ++i)
        {
            sp[i].type = i == m ? 1 + (int) rng.below(2) : (int) rng.below(3);
            sp[i].split = rng.chance(1, 2);
            sp[i].timeout = sp[i].type == 0 ? 1e-6 * (300 + rng.below(1700)) : sp[i].type == 1 ? 100.0 : rng.chance(1, 2) ? 0.0 : -1.0;
            sp[i].rewait = sp[i].split ? (int) rng.below(3) : 0;
        }
        std::vector<WpThread> th(T);
        std::atomic<int> arrived{0}, bad{0};
        std::atomic<bool> handshake_timeout{false};
        pika::barrier<> bar(T);
        set_case("barrier", "wait_path", replay, [&] {
            std::string o = "threads=" + std::to_string(T) + " traces:";
            for (int i = 0; i < T; ++i) o += " t" + std::to_string(i) + "(" + std::to_string(th[i].seen906.load()) + "," + std::to_string(th[i].seen907.load()) + ")";
            return o;
        });
        auto body = [&](int i) {
            t_wp = &th[i];
            Spec const& x = sp[i];
            if (i == m)
            {
                auto const deadline = clk::now() + 10s;
                for (int w = 0; w < m; ++w)
                    while (!th[w].finished.load() && (sp[w].type == 1 ? th[w].seen906.load() : th[w].seen907.load()) == 0)
                    {
                        if (clk::now() > deadline)
                        {
                            handshake_timeout = true;
                            break;
                        }
                        std::this_thread::sleep_for(50us);
                    }
                std::this_thread::sleep_for(std::chrono::microseconds(300 + 40 * (idx % 50)));
            }
            arrived.fetch_add(1);
            if (x.split)
            {
                auto tok = bar.arrive();
                auto copy = tok;
                bar.wait(std::move(tok), dsec(x.timeout));
                if (arrived.load() < T && bad++ == 0)
                    monitor(std::string("barrier:early_departure:wait:wait_path_type_") + "ABC"[x.type], replay,
                        "thread " + std::to_string(i) + " left the phase with " + std::to_string(arrived.load()) + " of " +
                            std::to_string(T) + " arrivals issued; busy_wait_timeout=" + std::to_string(x.timeout) + " s");
                if (x.rewait) bar.wait(std::move(copy), dsec(x.rewait == 1 ? 100.0 : 0.0));
            }
            else
            {
                bar.arrive_and_wait(dsec(x.timeout));
                if (arrived.load() < T && bad++ == 0)
                    monitor(std::string("barrier:early_departure:arrive_and_wait:wait_path_type_") + "ABC"[x.type], replay,
                        "thread " + std::to_string(i) + " left the phase with " + std::to_string(arrived.load()) + " of " +
                            std::to_string(T) + " arrivals issued; busy_wait_timeout=" + std::to_string(x.timeout) + " s");
            }
            th[i].finished = 1;
            t_wp = nullptr;
            tick();
        };
        std::vector<std::thread> ths;
        for (int i = 0; i < T; ++i) ths.emplace_back(body, i);
        for (auto& t : ths) t.join();
        set_case("between_cases", "none", replay, nullptr);
        // IN line: programs and the enforced order
        std::ostringstream progs, sched, obs;
        for (int i = 0; i < T; ++i)
        {
            bool busy = sp[i].type != 2;
            if (i) progs << ";";
            if (sp[i].split)
            {
                progs << "a," << (busy ? "w1" : "w0");
                if (sp[i].rewait) progs << "," << (sp[i].rewait == 1 ? "w1" : "w0");
            }
            else
                progs << (busy ? "aw1" : "aw0");
        }
        for (int w = 0; w < m; ++w)
        {
            sched << "R" << w << ",";
            if (sp[w].type == 0) sched << "X" << w << ",";
        }
        sched << "R" << m;
        for (int w = 0; w < m; ++w) sched << ",R" << w;
        for (int i = 0; i < T; ++i)
        {
            obs << " t" << i << "=";
            if (th[i].trace.empty()) obs << "-";
            for (std::size_t k = 0; k < th[i].trace.size(); ++k) obs << (k ? "," : "") << th[i].trace[k];
        }
        std::string id = std::to_string(seed) + "." + std::to_string(idx);
        std::printf("IN WPATH %s %d %s %s\n", id.c_str(), T, progs.str().c_str(), sched.str().c_str());
        std::printf("OUT WPATH %s%s%s\n", id.c_str(), obs.str().c_str(), handshake_timeout.load() ? " handshake_timeout=1" : "");
        int na = 0, nb = 0, nc = 0;
        for (int w = 0; w < m; ++w) (sp[w].type == 0 ? na : sp[w].type == 1 ? nb : nc)++;
        std::printf("STAT wait_path idx=%d threads=%d typeA=%d typeB=%d typeC=%d ok=%d\n", idx, T, na, nb, nc, bad.load() == 0);
        std::fflush(stdout);
    }

    int fam_of(char const* s)
    {
        for (int f = 0; f < F_COUNT; ++f)
            if (std::strcmp(s, fam_name[f]) == 0) return f;
        return -1;
    }
    void run_case(int fam, std::uint64_t seed, int idx)
    {
        if (fam == F_LATCH)
            latch_case(seed, idx);
        else if (fam == F_ONCE)
            once_case(seed, idx);
        else if (fam == F_WPATH)
        {
            pika::verif::hook.store(&wp_hook, std::memory_order_release);
            wpath_case(seed, idx);
            pika::verif::hook.store(nullptr, std::memory_order_release);
        }
        else
            barrier_case(fam, seed, idx);
    }
}    // namespace

int main(int argc, char** argv)
{
    std::string mode = argc > 1 ? argv[1] : "all";
    std::thread wd(watchdog, 20000);
    char* av[] = {argv[0], (char*) "--pika:threads=4", nullptr};
    int ac = 2;
    pika::start(ac, av);
    {
        ex::thread_pool_scheduler sched{};
        g_sched = &sched;
        if (mode == "one" && argc > 4)
        {
            int fam = fam_of(argv[2]);
            if (fam < 0)
            {
                std::printf("unknown family %s\n", argv[2]);
                std::_Exit(2);
            }
            run_case(fam, std::strtoull(argv[3], nullptr, 10), std::atoi(argv[4]));
        }
        else
        {
            std::uint64_t seed = argc > 2 ? std::strtoull(argv[2], nullptr, 10) : 1;
            int scale = argc > 3 ? std::atoi(argv[3]) : 1;
            // cases per family (barrier phases with a straggler cost its skew: 6..30 ms each)
            int const per[F_COUNT] = {10, 6, 10, 8, 10, 6, 5, 60, 30, 120};
            for (int f = 0; f < F_COUNT; ++f)
                for (int i = 0; i < per[f] * scale; ++i) run_case(f, seed, i);
        }
        g_sched = nullptr;
    }
    set_case("shutdown", "none", "-", nullptr);
    pika::finalize();
    int rc = pika::stop();
    g_done = true;
    wd.join();
    std::printf("DONE rc=%d monitor_hits=%d\n", rc, g_monitor_hits.load());
    std::fflush(stdout);
    return 0;
}
