// C09 free-running stress twin of harness/c09_tree.cpp / c09_latch.cpp (see harness/common/stress_util.hpp for
// the why): pika::barrier and pika::latch on plain std::threads (no runtime: barrier::wait polls through
// yield_while, latch::wait suspends the default agent), threads released from one spin barrier with swept
// offsets, no controller, no hook installed, model-independent monitors.
//
// barrier trials: E in 2..6 participant threads, P in 1..8 phases (rarely 130+: the 8-bit phase counter wraps),
//   pika::barrier<Completion> with a counting completion function.  Per phase a participant draws its style:
//   arrive_and_wait(), arrive() + spin + wait(token), or — once, not in the last phase it takes part in —
//   arrive_and_drop() (it leaves; later phases expect one participant less).  Harness ledger: arrived[k] is
//   incremented BEFORE the participant arrives at phase k, left[k] AFTER it came back from the wait of phase k,
//   done[k] is set by the completion function.
//     left_early               a participant left phase k while arrived[k] < expected[k]
//     completion_early         the completion function of phase k ran while arrived[k] < expected[k]
//     released_before_completion  a participant left phase k before the completion function of phase k returned
//     completion_after_release the completion function of phase k started after somebody had left phase k
//     completion_count         completion ran != once per phase (twice for one phase / phases without / extra)
//     hang                     no progress for 20 s (participants wait forever: lost arrival / lost wake-up)
// latch trials: latch(C), C in 1..12; D count_down threads splitting C into count_down(n) calls, waiters that
//   wait(), poll try_wait(), or arrive_and_wait(n) (their n is part of C).  Ledger: pending (= C) is decreased
//   by n BEFORE count_down(n) / arrive_and_wait(n) is called.
//     wait_returned_early      wait()/arrive_and_wait() returned while pending > 0
//     try_wait_early           try_wait() returned true while pending > 0
//     not_released             all count_downs returned, try_wait() still false
//     hang                     wait() never returns
//
//   c09_stress <seed> <trials> <budget_ms>
#include "common/stress_util.hpp"

#include <pika/synchronization/barrier.hpp>
#include <pika/synchronization/latch.hpp>

#include <memory>
#include <optional>
#include <sstream>
#include <string>

namespace bar {
    static constexpr int MAXP = 140;
    struct Tr;
    struct Comp
    {
        Tr* t;
        void operator()() noexcept;
    };
    struct Tr
    {
        std::optional<pika::barrier<Comp>> b;
        int E = 0, P = 0;
        int expected[MAXP];
        std::atomic<int> arrived[MAXP], left[MAXP], done[MAXP];
        std::atomic<int> completions{0};
        std::atomic<int> bad_left_early{0}, bad_comp_early{0}, bad_rel_before{0}, bad_comp_after{0}, bad_comp_twice{0};
        std::atomic<int> bad_phase{-1};
        // per participant: style per phase: 'w' arrive_and_wait, 's' arrive+wait split, 'd' arrive_and_drop (last), '-' gone
        char style[6][MAXP];
        int gap[6];
        std::atomic<int> at_phase[6], at_state[6];    // progress, for the hang report

        void leave(int k)
        {
            if (arrived[k].load() < expected[k])
            {
                bad_left_early.fetch_add(1);
                bad_phase.store(k);
            }
            if (done[k].load() != 2)
            {
                bad_rel_before.fetch_add(1);
                bad_phase.store(k);
            }
            left[k].fetch_add(1);
        }
        static void role_fn(void* p, int r)
        {
            Tr* t = static_cast<Tr*>(p);
            for (int k = 0; k < t->P; ++k)
            {
                char st = t->style[r][k];
                if (st == '-') break;
                t->at_phase[r].store(k);
                t->at_state[r].store(1);
                t->arrived[k].fetch_add(1);
                if (st == 'w')
                {
                    t->b->arrive_and_wait();
                    t->leave(k);
                }
                else if (st == 's')
                {
                    auto tok = t->b->arrive();
                    t->at_state[r].store(2);
                    stw::spin(t->gap[r]);
                    t->b->wait(std::move(tok));
                    t->leave(k);
                }
                else
                {
                    t->b->arrive_and_drop();
                    t->at_state[r].store(3);
                    break;
                }
                t->at_state[r].store(0);
            }
            t->at_state[r].store(4);
        }
        std::string describe() const
        {
            std::ostringstream o;
            o << "E=" << E << " P=" << P << " styles=";
            int show = P < 12 ? P : 12;
            for (int r = 0; r < E; ++r)
            {
                o << (r ? ";" : "");
                for (int k = 0; k < show; ++k) o << style[r][k];
            }
            o << " completions=" << completions.load() << " progress=";
            for (int r = 0; r < E; ++r) o << (r ? "," : "") << at_phase[r].load() << ":" << at_state[r].load();
            {
                // where is everybody?  (used by the hang report)
                int k = -1, nwaiting = 0;
                for (int r = 0; r < E; ++r)
                    if (at_state[r].load() == 1 || at_state[r].load() == 2)
                    {
                        ++nwaiting;
                        if (k < 0 || at_phase[r].load() < k) k = at_phase[r].load();
                    }
                if (nwaiting && k >= 0 && k < P && arrived[k].load() >= expected[k] && done[k].load() == 0)
                    o << " diagnosis=all_" << expected[k] << "_participants_of_phase_" << k << "_arrived_but_the_phase_never_completed";
                else if (nwaiting && k >= 0 && k < P)
                    o << " diagnosis=phase_" << k << "_arrived_" << arrived[k].load() << "_of_" << expected[k] << "_done_" << done[k].load();
            }
            int bp = bad_phase.load();
            if (bp >= 0) o << " phase=" << bp << " arrived=" << arrived[bp].load() << "/" << expected[bp] << " left=" << left[bp].load() << " done=" << done[bp].load();
            return o.str();
        }
        void run(stw::Pool& Pl, std::uint64_t trial, vctl::Rng& rng)
        {
            E = 2 + (int) rng.below(5);
            bool lng = rng.chance(1, 150);
            P = lng ? 129 + (int) rng.below(8) : 1 + (int) rng.below(8);
            bool drops = rng.chance(1, 2) && P >= 2;
            int mode = (int) rng.below(3);    // 0 all arrive_and_wait, 1 all split, 2 mixed
            for (int k = 0; k < P; ++k)
            {
                expected[k] = 0;
                arrived[k].store(0);
                left[k].store(0);
                done[k].store(0);
            }
            int ndrop = 0;
            for (int r = 0; r < E; ++r)
            {
                at_phase[r].store(-1);
                at_state[r].store(0);
                gap[r] = stw::sweep(rng, 8);
                // participant 0 never drops: somebody has to stay to the end
                int dropat = (drops && r > 0 && rng.chance(1, 2)) ? (int) rng.below((std::uint64_t) P - 1) : -1;
                if (dropat >= 0) ++ndrop;
                for (int k = 0; k < P; ++k)
                {
                    if (dropat >= 0 && k > dropat) style[r][k] = '-';
                    else if (k == dropat) style[r][k] = 'd';
                    else style[r][k] = mode == 0 ? 'w' : mode == 1 ? 's' : (rng.chance(1, 2) ? 'w' : 's');
                    if (style[r][k] != '-') ++expected[k];
                }
            }
            {
                char c[40];
                std::snprintf(c, sizeof c, "barrier/%s/%s/%s", mode == 0 ? "arrive_and_wait" : mode == 1 ? "arrive+wait" : "mixed", ndrop ? "drop" : "nodrop",
                    lng ? "P129+" : "P1-8");
                stw::set_class(c);
            }
            b.emplace(E, Comp{this});
            stw::Task tasks[6];
            for (int r = 0; r < E; ++r) tasks[r] = stw::Task{&role_fn, this, r, stw::sweep(rng, 9)};
            Pl.run(trial + 1, tasks, E, (int) rng.below((std::uint64_t) E));
            // ---- verdict
            std::string d = describe();
            if (bad_left_early.load()) stw::bad("left_early", "a participant left a phase before all participants of that phase had arrived %s", d.c_str());
            if (bad_comp_early.load()) stw::bad("completion_early", "the completion function ran before all participants of the phase had arrived %s", d.c_str());
            if (bad_comp_twice.load()) stw::bad("completion_count", "the completion function ran twice for one phase %s", d.c_str());
            if (bad_comp_after.load()) stw::bad("completion_after_release", "the completion function of a phase started after a participant had already left that phase %s", d.c_str());
            if (bad_rel_before.load()) stw::bad("released_before_completion", "a participant left a phase before the completion function of that phase had returned %s", d.c_str());
            if (completions.load() != P) stw::bad("completion_count", "%d phases, the completion function ran %d times %s", P, completions.load(), d.c_str());
            for (int k = 0; k < P; ++k)
                if (done[k].load() != 2) stw::bad("completion_count", "phase %d has no completed completion function %s", k, d.c_str());
            b.reset();
        }
    };
    inline void Comp::operator()() noexcept
    {
        int k = t->completions.fetch_add(1);
        if (k >= t->P)
        {
            t->bad_comp_twice.fetch_add(1);
            return;
        }
        if (t->done[k].exchange(1) != 0) t->bad_comp_twice.fetch_add(1);
        if (t->arrived[k].load() < t->expected[k])
        {
            t->bad_comp_early.fetch_add(1);
            t->bad_phase.store(k);
        }
        if (t->left[k].load() != 0)
        {
            t->bad_comp_after.fetch_add(1);
            t->bad_phase.store(k);
        }
        t->done[k].store(2);
    }
    static std::atomic<Tr*> g_cur{nullptr};
}    // namespace bar

namespace lat {
    struct Tr
    {
        std::optional<pika::latch> l;
        int C = 0, nth = 0;
        std::atomic<long> pending{0};
        std::atomic<int> bad_wait{0}, bad_try{0};
        // role: kind 'c' count_down list, 'w' wait, 't' try_wait poll, 'a' arrive_and_wait(n)
        char kind[6];
        int n[6][6];
        int nn[6];
        std::atomic<int> at_state[6];
        static void role_fn(void* p, int r)
        {
            Tr* t = static_cast<Tr*>(p);
            t->at_state[r].store(1);
            switch (t->kind[r])
            {
            case 'c':
                for (int i = 0; i < t->nn[r]; ++i)
                {
                    t->pending.fetch_sub(t->n[r][i]);
                    t->l->count_down(t->n[r][i]);
                }
                break;
            case 'w':
                t->l->wait();
                if (t->pending.load() != 0) t->bad_wait.fetch_add(1);
                break;
            case 'a':
                t->pending.fetch_sub(t->n[r][0]);
                t->l->arrive_and_wait(t->n[r][0]);
                if (t->pending.load() != 0) t->bad_wait.fetch_add(1);
                break;
            case 't':
                for (unsigned long k = 0;; ++k)
                {
                    if (t->l->try_wait())
                    {
                        if (t->pending.load() != 0) t->bad_try.fetch_add(1);
                        break;
                    }
                    if (k > 2000) std::this_thread::yield();
                }
                break;
            }
            t->at_state[r].store(2);
        }
        std::string describe() const
        {
            std::ostringstream o;
            o << "C=" << C << " roles=";
            for (int r = 0; r < nth; ++r)
            {
                o << (r ? ";" : "") << kind[r];
                for (int i = 0; i < nn[r]; ++i) o << (i ? "," : "") << n[r][i];
                o << ":" << at_state[r].load();
            }
            o << " pending=" << pending.load();
            return o.str();
        }
        void run(stw::Pool& Pl, std::uint64_t trial, vctl::Rng& rng)
        {
            nth = 2 + (int) rng.below(5);
            int nc = 1 + (int) rng.below((std::uint64_t) nth - 1);    // count_down roles (>= 1), the rest wait
            C = 0;
            int nwait = 0, narr = 0;
            for (int r = 0; r < nth; ++r)
            {
                at_state[r].store(0);
                nn[r] = 0;
                if (r < nc)
                {
                    kind[r] = 'c';
                    nn[r] = 1 + (int) rng.below(4);
                    for (int i = 0; i < nn[r]; ++i)
                    {
                        n[r][i] = rng.chance(1, 8) ? 0 : 1 + (int) rng.below(3);
                        C += n[r][i];
                    }
                }
                else
                {
                    std::uint64_t k = rng.below(4);
                    kind[r] = k < 2 ? 'w' : k == 2 ? 't' : 'a';
                    if (kind[r] == 'a')
                    {
                        nn[r] = 1;
                        n[r][0] = 1 + (int) rng.below(2);
                        C += n[r][0];
                        ++narr;
                    }
                    else
                        ++nwait;
                }
            }
            if (C == 0)
            {
                n[0][0] = 1;
                C = 1;
            }
            {
                char c[40];
                std::snprintf(c, sizeof c, "latch/D%d/%s", nc, narr ? "arrive_and_wait" : "wait");
                stw::set_class(c);
            }
            pending.store(C);
            l.emplace(C);
            stw::Task tasks[6];
            for (int r = 0; r < nth; ++r) tasks[r] = stw::Task{&role_fn, this, r, stw::sweep(rng, kind[r] == 'c' ? 9 : 7)};
            Pl.run(trial + 1, tasks, nth, (int) rng.below((std::uint64_t) nth));
            std::string d = describe();
            if (bad_wait.load()) stw::bad("wait_returned_early", "wait()/arrive_and_wait() returned while the count was still above zero %s", d.c_str());
            if (bad_try.load()) stw::bad("try_wait_early", "try_wait() returned true while the count was still above zero %s", d.c_str());
            if (!l->try_wait()) stw::bad("not_released", "every count_down has returned but try_wait() is false %s", d.c_str());
            l->wait();    // must return at once
            l.reset();
        }
    };
    static std::atomic<Tr*> g_cur{nullptr};
}    // namespace lat

static void hang_describe(char* buf, std::size_t n)
{
    bar::Tr* b = bar::g_cur.load();
    lat::Tr* l = lat::g_cur.load();
    std::string s = b ? b->describe() : l ? l->describe() : std::string();
    std::snprintf(buf, n, "%s", s.c_str());
}

int main(int argc, char** argv)
{
    std::uint64_t seed = argc > 1 ? std::strtoull(argv[1], nullptr, 10) : 1;
    std::uint64_t ntrials = argc > 2 ? std::strtoull(argv[2], nullptr, 10) : 100000;
    long budget = argc > 3 ? std::atol(argv[3]) : 10000;
    long hang_ms = argc > 4 ? std::atol(argv[4]) : 20000;
    stw::g_hang_describe.store(&hang_describe);
    return stw::run_forked(
        "BLS", seed, ntrials, budget,
        [](stw::Pool& P, std::uint64_t tr, vctl::Rng& rng) {
            if (rng.chance(2, 3))
            {
                auto t = std::make_unique<bar::Tr>();
                lat::g_cur = nullptr;
                bar::g_cur = t.get();
                t->run(P, tr, rng);
                bar::g_cur = nullptr;
            }
            else
            {
                auto t = std::make_unique<lat::Tr>();
                bar::g_cur = nullptr;
                lat::g_cur = t.get();
                t->run(P, tr, rng);
                lat::g_cur = nullptr;
            }
        },
        6, hang_ms, 16);
}
