// C14 free-running stress twin of harness/c14_lockstep.cpp (see harness/common/stress_util.hpp for the why).
//
// Per trial: one fresh stop_source (+ one copy per requesting thread, made before the race), one token, M in 0..5
// stop_callbacks registered up front by the main thread, then released from ONE spin barrier with swept offsets:
//   * K in 2..4 REQUESTER threads each call request_stop() (some destroy a callback / churn tokens afterwards),
//   * optionally a DESTROYER thread destroying some of the registered callbacks (racing their execution),
//   * optionally a REGISTRAR thread constructing L in 1..2 further callbacks during the race (each either runs
//     inside its constructor or is queued) and possibly destroying them again at once,
//   * token / source copy+drop churn on the same atomic word (reference counts share state_ with the flags).
// Callback bodies spin a swept time; kind SELF destroys its own stop_callback from inside the callback.
// Monitors (the property itself; hold for every interleaving of correct code):
//   request_stop:two_winners / no_winner    not exactly one of the K calls returned true
//   request_stop:not_sticky                 stop_requested() false right after a request_stop() call returned
//   stop_requested:false_afterwards         token / source / fresh token do not report the request at the end
//   callback:twice                          a callback ran more than once
//   callback:lost                           all request_stop() calls have returned, the callback is registered
//                                           (not destroyed by anybody) and never ran
//   callback:after_dtor                     a callback started or was still running after its destructor returned
//   dtor:returned_during_run                a destructor (other thread) returned while the callback was running
//   callback:before_flag                    a running callback saw stop_requested() == false
//   callback:ctor_not_immediate             stop already visible before the constructor, callback not run by it
//   self_deregistration                     a SELF callback did not end up destroyed after exactly one run
//   (hang of a destructor / request_stop -> DIED ... hang; crash -> DIED ... segv|abort)
//
//   c14_stress <seed> <trials> <budget_ms>
#include "common/stress_util.hpp"

#include <pika/synchronization/stop_token.hpp>

#include <memory>
#include <optional>
#include <sstream>
#include <string>

enum Kind
{
    PLAIN = 0,    // registered up front, destroyed by the main thread after the race
    SELF = 1,     // registered up front, destroys itself from inside the callback
    DESTR = 2,    // registered up front, destroyed by a racing thread
    LATE = 3,     // registered during the race, destroyed by the main thread after the race
    LATED = 4     // registered during the race and destroyed again by the registrar
};

struct Tr;
struct Slot;
struct Fn
{
    Slot* s;
    void operator()() const noexcept;
};
struct Slot
{
    Tr* t = nullptr;
    int kind = PLAIN;
    int body_delay = 0;
    std::atomic<int> runs{0}, running{0}, dtor_done{0}, ctor_done{0};
    std::atomic<int> bad_after_dtor{0}, bad_during{0}, bad_flag{0}, ctor_late{0};
    std::optional<pika::stop_callback<Fn>> cb;
};
struct Op
{
    char op = 0;    // Q request_stop, D destroy callback, C construct callback, T token churn, S source churn
    int slot = -1;
    int delay = 0;
};
struct Role
{
    Op ops[12];
    int n = 0;
    int res_true = 0, res_false = 0, bad_visible = 0;
    std::optional<pika::stop_source> src;
    void add(char op, int slot, int delay)
    {
        if (n < 12) ops[n++] = Op{op, slot, delay};
    }
};
struct Tr
{
    std::optional<pika::stop_source> src;
    std::optional<pika::stop_token> tok;
    Slot slots[8];
    int nslots = 0;
    Role roles[6];
    int nroles = 0;

    void destroy(Slot& s)
    {
        s.cb.reset();
        s.dtor_done.store(1);
        if (s.running.load() != 0) s.bad_during.fetch_add(1);
    }
    static void role_fn(void* p, int r)
    {
        Tr* t = static_cast<Tr*>(p);
        Role& R = t->roles[r];
        for (int i = 0; i < R.n; ++i)
        {
            Op const& o = R.ops[i];
            stw::spin(o.delay);
            switch (o.op)
            {
            case 'Q':
            {
                bool b = R.src->request_stop();
                ++(b ? R.res_true : R.res_false);
                if (!t->tok->stop_requested() || !R.src->stop_requested()) ++R.bad_visible;
                break;
            }
            case 'D': t->destroy(t->slots[o.slot]); break;
            case 'C':
            {
                Slot& s = t->slots[o.slot];
                bool pre = t->tok->stop_requested();
                s.cb.emplace(*t->tok, Fn{&s});
                s.ctor_done.store(1);
                if (pre && s.runs.load() != 1) s.ctor_late.fetch_add(1);
                break;
            }
            case 'T':
            {
                pika::stop_token c = *t->tok;
                pika::stop_token c2 = c;
                if (!c2.stop_possible()) ++R.bad_visible;
                break;
            }
            case 'S':
            {
                pika::stop_source s2 = *t->src;
                pika::stop_token c = s2.get_token();
                if (!c.stop_possible()) ++R.bad_visible;
                break;
            }
            }
        }
    }
    std::string describe(stw::Task const* tasks) const
    {
        std::ostringstream o;
        o << "slots=";
        static char const* const KN[5] = {"plain", "self", "destr", "late", "lated"};
        for (int i = 0; i < nslots; ++i)
            o << (i ? "," : "") << KN[slots[i].kind] << ":runs" << slots[i].runs.load() << ":d" << slots[i].body_delay;
        o << " roles=";
        for (int r = 0; r < nroles; ++r)
        {
            o << (r ? ";" : "") << "@" << tasks[r].delay << ":";
            for (int i = 0; i < roles[r].n; ++i)
            {
                o << (i ? "," : "") << roles[r].ops[i].op;
                if (roles[r].ops[i].slot >= 0) o << roles[r].ops[i].slot;
            }
            o << "=" << roles[r].res_true << "t" << roles[r].res_false << "f";
        }
        return o.str();
    }
    void run(stw::Pool& P, std::uint64_t trial, vctl::Rng& rng)
    {
        int K = 2 + (int) rng.below(3);
        int M = rng.chance(1, 4) ? 0 : (int) rng.below(6);
        bool have_destr = false;
        for (int i = 0; i < M; ++i)
        {
            Slot& s = slots[nslots++];
            s.t = this;
            s.body_delay = stw::sweep(rng, 9);
            std::uint64_t k = rng.below(8);
            s.kind = k < 3 ? PLAIN : k < 5 ? SELF : DESTR;
            have_destr = have_destr || s.kind == DESTR;
        }
        int L = rng.chance(1, 2) ? 0 : 1 + (int) rng.below(2);
        for (int i = 0; i < L; ++i)
        {
            Slot& s = slots[nslots++];
            s.t = this;
            s.body_delay = stw::sweep(rng, 8);
            s.kind = rng.chance(1, 2) ? LATE : LATED;
        }
        {
            char c[40];
            std::snprintf(c, sizeof c, "os/K%d/%s/%s", K, M == 0 ? "M0" : M <= 2 ? "M1-2" : "M3-5", L ? "L+" : "L0");
            stw::set_class(c);
        }
        src.emplace();
        tok.emplace(src->get_token());
        for (int i = 0; i < M; ++i)
        {
            slots[i].cb.emplace(*tok, Fn{&slots[i]});
            slots[i].ctor_done.store(1);
        }
        // roles: requesters
        nroles = K;
        for (int r = 0; r < K; ++r)
        {
            roles[r].src.emplace(*src);
            if (rng.chance(1, 5)) roles[r].add(rng.chance(1, 2) ? 'T' : 'S', -1, 0);
            roles[r].add('Q', -1, 0);
            if (rng.chance(1, 8)) roles[r].add('Q', -1, stw::sweep(rng, 6));
        }
        // who destroys the DESTR callbacks: a dedicated thread or the requesters after their request
        int dr = -1;
        if (have_destr && nroles < 6 && rng.chance(2, 3)) dr = nroles++;
        for (int i = 0; i < M; ++i)
            if (slots[i].kind == DESTR)
            {
                int r = dr >= 0 && rng.chance(3, 4) ? dr : (int) rng.below((std::uint64_t) K);
                roles[r].add('D', i, stw::sweep(rng, 7));
            }
        if (L)
        {
            int rr = nroles < 6 ? nroles++ : (dr >= 0 ? dr : 0);
            for (int i = M; i < M + L; ++i)
            {
                roles[rr].add('C', i, stw::sweep(rng, 7));
                if (slots[i].kind == LATED) roles[rr].add('D', i, stw::sweep(rng, 7));
            }
        }
        if (nroles < 6 && rng.chance(1, 6))
        {
            int r = nroles++;
            for (int i = 0; i < 4; ++i) roles[r].add(rng.chance(1, 2) ? 'T' : 'S', -1, stw::sweep(rng, 5));
        }
        stw::Task tasks[6];
        for (int r = 0; r < nroles; ++r) tasks[r] = stw::Task{&role_fn, this, r, stw::sweep(rng, 9)};
        // ---- the race
        P.run(trial + 1, tasks, nroles, (int) rng.below((std::uint64_t) nroles));
        // ---- verdict
        int nt = 0, nf = 0, nv = 0;
        for (int r = 0; r < nroles; ++r)
        {
            nt += roles[r].res_true;
            nf += roles[r].res_false;
            nv += roles[r].bad_visible;
        }
        std::string d = describe(tasks);
        if (nt > 1) stw::bad("request_stop:two_winners", "%d concurrent request_stop() calls returned true %s", nt, d.c_str());
        if (nt == 0) stw::bad("request_stop:no_winner", "%d request_stop() calls returned, none returned true %s", nf, d.c_str());
        if (nv) stw::bad("request_stop:not_sticky", "stop_requested()/stop_possible() was false after request_stop() had returned on that thread %s", d.c_str());
        if (!tok->stop_requested() || !tok->stop_possible() || !src->stop_requested() || !src->get_token().stop_requested())
            stw::bad("stop_requested:false_afterwards", "token/source do not report the stop request after all request_stop() calls returned %s", d.c_str());
        for (int i = 0; i < nslots; ++i)
        {
            Slot& s = slots[i];
            int runs = s.runs.load();
            if (runs > 1) stw::bad("callback:twice", "callback %d ran %d times %s", i, runs, d.c_str());
            if (s.bad_after_dtor.load()) stw::bad("callback:after_dtor", "callback %d started or was still running after its destructor had returned %s", i, d.c_str());
            if (s.bad_during.load()) stw::bad("dtor:returned_during_run:os_threads", "the destructor of callback %d returned on another thread while the callback was running %s", i, d.c_str());
            if (s.bad_flag.load()) stw::bad("callback:before_flag", "callback %d ran while stop_requested() was false %s", i, d.c_str());
            if (s.ctor_late.load()) stw::bad("callback:ctor_not_immediate", "stop was already requested before callback %d was constructed, but the constructor did not run it %s", i, d.c_str());
            if ((s.kind == PLAIN || s.kind == LATE || s.kind == SELF) && s.ctor_done.load() && runs == 0)
                stw::bad("callback:lost", "every request_stop() has returned, callback %d is registered and alive but never ran %s", i, d.c_str());
            if (s.kind == SELF && (s.cb.has_value() || s.dtor_done.load() != 1))
                stw::bad("self_deregistration", "callback %d destroys itself from inside but is still alive %s", i, d.c_str());
        }
        // ---- tear down (these destructors must return as well: watchdog)
        for (int i = 0; i < nslots; ++i)
            if (slots[i].cb.has_value()) destroy(slots[i]);
        for (int i = 0; i < nslots; ++i)
            if (slots[i].runs.load() > 1 || slots[i].bad_during.load())
                stw::bad("callback:twice", "callback %d ran again during tear-down %s", i, d.c_str());
    }
};

void Fn::operator()() const noexcept
{
    Slot* sl = s;    // `this` may be destroyed below
    Tr* t = sl->t;
    if (sl->dtor_done.load() != 0) sl->bad_after_dtor.fetch_add(1);
    sl->running.store(1);
    sl->runs.fetch_add(1);
    if (!t->tok->stop_requested()) sl->bad_flag.fetch_add(1);
    stw::spin(sl->body_delay);
    if (sl->kind == SELF)
    {
        sl->running.store(0);
        sl->cb.reset();    // deregisters from inside the callback; *this is gone
        sl->dtor_done.store(1);
        return;
    }
    if (sl->dtor_done.load() != 0) sl->bad_after_dtor.fetch_add(1);
    sl->running.store(0);
}

int main(int argc, char** argv)
{
    std::uint64_t seed = argc > 1 ? std::strtoull(argv[1], nullptr, 10) : 1;
    std::uint64_t ntrials = argc > 2 ? std::strtoull(argv[2], nullptr, 10) : 100000;
    long budget = argc > 3 ? std::atol(argv[3]) : 10000;
    return stw::run_forked("STS", seed, ntrials, budget, [](stw::Pool& P, std::uint64_t tr, vctl::Rng& rng) {
        auto t = std::make_unique<Tr>();
        t->run(P, tr, rng);
    }, 6, 20000);
}
