// C14 LOCKSTEP harness: the REAL pika::stop_source / stop_token / stop_callback on plain
// std::threads; every atomic access of stop_state (sites 1401..1423, see stop_token.cpp/.hpp)
// and the start of every harness-level operation (site 1400) is a parking point, the controller
// chooses the interleaving, the extracted Coq model (Model/StopState.v) replays it.
//
// usage: c14_lockstep <seed> <first-case> <ncases> [replay-line]
// IN  LS <id> T=<threads> C=<callbacks> w0=<hex initial word> srcs=<0/1 per thread>
//        progs=<ops of t0>|<ops of t1>|...  bodies=<ops of cb0>|...  sched=<t,t,...>
//   ops (separated by '.'; '-' = none): Q request_stop, A<c> construct callback c, R<c> destroy
//   callback c, t copy token, u drop token copy, s copy source, v drop source
// OUT LS <id> sites=<site-1400 per step> req=<results per thread>|... runs=<per cb> inctor=<per cb>
//        ctor=<per cb> dtor=<per cb> bad=<run-after-dtor><dtor-during-run> freq=<final requested>
//        fposs=<final stop_possible> stuck=<0/1>
// Monitors evaluated here on the implementation (printed as viol=...; independent of the model).
#include "common/ctl.hpp"

#include <pika/synchronization/stop_token.hpp>

#include <unistd.h>
#include <atomic>
#include <cinttypes>
#include <sstream>
#include <string>
#include <thread>
#include <vector>

struct H;
struct Body
{
    H* h;
    int c;
    void operator()() const;
};
using CB = pika::stop_callback<Body>;

struct Op
{
    char k;
    int c;
};

static thread_local std::vector<int> t_exec;    // callbacks this thread is executing (innermost last)

struct H
{
    int T = 0, C = 0;
    std::vector<std::vector<Op>> progs, bodies;
    std::vector<int> srcs;
    pika::stop_token token;
    std::vector<std::vector<pika::stop_source>> mysrc;
    std::vector<std::vector<pika::stop_token>> mytok;
    std::vector<CB*> cbptr;
    std::vector<int> ctor, dtor, runs, inctor, running, prereq;
    std::vector<std::vector<int>> req;
    bool bad_a = false, bad_d = false;
    std::vector<std::string> viol;

    void enter(int c)
    {
        int t = vctl::t_id;
        runs[c]++;
        if (runs[c] > 1) viol.push_back("callback_twice");
        t_exec.push_back(c);
        running[c] = t;
        if (dtor[c] == 2)
        {
            bad_a = true;
            viol.push_back("run_after_dtor");
        }
        inctor[c] = (ctor[c] == 1) ? 1 : 0;
    }
    void run_ops(std::vector<Op> const& ops)
    {
        int t = vctl::t_id;
        for (Op o : ops)
        {
            pika::verif::point(1400);
            switch (o.k)
            {
            case 'Q':
                if (!mysrc[t].empty()) req[t].push_back(mysrc[t].back().request_stop() ? 1 : 0);
                break;
            case 'A':
                if (ctor[o.c] == 0)
                {
                    ctor[o.c] = 1;
                    prereq[o.c] = token.stop_requested() ? 1 : 0;
                    cbptr[o.c] = new CB(token, Body{this, o.c});
                    ctor[o.c] = 2;
                    if (prereq[o.c] && runs[o.c] != 1) viol.push_back("ctor_not_immediate");
                }
                break;
            case 'R':
                if (ctor[o.c] == 2 && dtor[o.c] == 0)
                {
                    dtor[o.c] = 1;
                    delete cbptr[o.c];
                    cbptr[o.c] = nullptr;
                    if (running[o.c] >= 0 && running[o.c] != t)
                    {
                        bad_d = true;
                        viol.push_back("dtor_during_run");
                    }
                    dtor[o.c] = 2;
                }
                break;
            case 't': mytok[t].push_back(token); break;
            case 'u':
                if (!mytok[t].empty()) mytok[t].pop_back();
                break;
            case 's':
                if (!mysrc[t].empty()) mysrc[t].push_back(mysrc[t].back());
                break;
            case 'v':
                if (!mysrc[t].empty()) mysrc[t].pop_back();
                break;
            }
        }
    }
};

void Body::operator()() const
{
    H* hh = h;
    int cc = c;    // the object may destroy itself below: no member access afterwards
    hh->enter(cc);
    hh->run_ops(hh->bodies[cc]);
}

static H* g_h = nullptr;
// controller hook + bookkeeping after the "callback returned" points
static void hookfn(int site, void const* obj, std::uint64_t a, std::uint64_t b)
{
    vctl::Controller::hookfn(site, obj, a, b);
    if ((site == 1416 || site == 1410) && vctl::t_id >= 0 && g_h && !t_exec.empty())
    {
        int c = t_exec.back();
        t_exec.pop_back();
        g_h->running[c] = -1;
    }
}

static std::string opstr(std::vector<Op> const& v)
{
    if (v.empty()) return "-";
    std::ostringstream o;
    for (size_t i = 0; i < v.size(); ++i)
    {
        o << (i ? "." : "") << v[i].k;
        if (v[i].k == 'A' || v[i].k == 'R') o << v[i].c;
    }
    return o.str();
}
static std::vector<Op> parse_ops(std::string const& s)
{
    std::vector<Op> v;
    if (s == "-" || s.empty()) return v;
    std::stringstream ss(s);
    std::string it;
    while (std::getline(ss, it, '.'))
    {
        Op o{it[0], 0};
        if (it.size() > 1) o.c = std::atoi(it.c_str() + 1);
        v.push_back(o);
    }
    return v;
}
static std::vector<std::string> split(std::string const& s, char d)
{
    std::vector<std::string> r;
    std::stringstream ss(s);
    std::string it;
    while (std::getline(ss, it, d)) r.push_back(it);
    if (!s.empty() && s.back() == d) r.push_back("");
    return r;
}
template <typename V>
static std::string join(V const& v, char const* sep = ",")
{
    std::ostringstream o;
    bool f = true;
    for (auto const& x : v)
    {
        o << (f ? "" : sep) << x;
        f = false;
    }
    return o.str();
}

static std::atomic<long> g_case_started{0};
static std::atomic<int> g_case_id{-1};
static std::string g_in_line;

static void gen_case(vctl::Rng& rng, H& h)
{
    h.T = 2 + (int) rng.below(3);
    h.C = (int) rng.below(5);
    h.progs.assign(h.T, {});
    h.bodies.assign(h.C, {});
    h.srcs.assign(h.T, 0);
    for (int t = 0; t < h.T; ++t) h.srcs[t] = rng.chance(2, 3) ? 1 : 0;
    if (!rng.chance(1, 8)) h.srcs[rng.below(h.T)] = 1;
    int flavour = (int) rng.below(6);
    auto pick_cb = [&] { return (int) rng.below(h.C ? h.C : 1); };
    for (int t = 0; t < h.T; ++t)
    {
        int n = 1 + (int) rng.below(4);
        for (int i = 0; i < n; ++i)
        {
            unsigned r = (unsigned) rng.below(100);
            Op o{'Q', 0};
            if (flavour == 0 && r < 70) o = {'Q', 0};    // many racing requesters
            else if (h.C && r < 30) o = {'A', pick_cb()};
            else if (h.C && r < 50) o = {'R', pick_cb()};
            else if (r < 75) o = {'Q', 0};
            else if (r < 82) o = {'t', 0};
            else if (r < 87) o = {'u', 0};
            else if (r < 93) o = {'s', 0};
            else o = {'v', 0};
            h.progs[t].push_back(o);
        }
    }
    // make sure most callbacks are constructed by somebody, early
    for (int c = 0; c < h.C; ++c)
        if (rng.chance(3, 4))
        {
            auto& p = h.progs[rng.below(h.T)];
            p.insert(p.begin() + rng.below(p.size() + 1 > 2 ? 2 : p.size() + 1), Op{'A', c});
        }
    for (int c = 0; c < h.C; ++c)
    {
        int n = (int) rng.below(3);
        for (int i = 0; i < n; ++i)
        {
            unsigned r = (unsigned) rng.below(100);
            if (r < 35) h.bodies[c].push_back({'R', c});    // deregister itself from inside
            else if (r < 60) h.bodies[c].push_back({'R', pick_cb()});
            else if (r < 80) h.bodies[c].push_back({'A', pick_cb()});
            else h.bodies[c].push_back({'Q', 0});
        }
    }
}

int main(int argc, char** argv)
{
    std::uint64_t seed = argc > 1 ? std::strtoull(argv[1], nullptr, 10) : 1;
    int first = argc > 2 ? std::atoi(argv[2]) : 0;
    int ncases = argc > 3 ? std::atoi(argv[3]) : 100;
    std::string replay = argc > 4 ? argv[4] : "";
    // watchdog: a case that does not finish (a hang of the real code outside the controller's
    // view) is reported and the process exits; the driver script restarts after that case
    std::thread([&] {
        long seen = -1;
        int same = 0;
        for (;;)
        {
            std::this_thread::sleep_for(std::chrono::milliseconds(500));
            long cur = g_case_started.load();
            if (cur == seen) ++same; else same = 0;
            seen = cur;
            if (same >= 40)
            {
                std::printf("HANG LS %d\n", g_case_id.load());
                std::fflush(stdout);
                _exit(4);
            }
        }
    }).detach();

    for (int cs = first; cs < first + ncases; ++cs)
    {
        vctl::Rng rng(seed * 1000003ull + (std::uint64_t) cs);
        H h;
        std::vector<int> forced;
        bool have_forced = false;
        if (!replay.empty())
        {
            // replay-line: the text of an IN line
            auto f = split(replay, ' ');
            for (auto& x : f)
            {
                auto kv = split(x, '=');
                if (kv.size() < 2) continue;
                if (kv[0] == "T") h.T = std::atoi(kv[1].c_str());
                if (kv[0] == "C") h.C = std::atoi(kv[1].c_str());
                if (kv[0] == "srcs")
                    for (char ch : kv[1]) h.srcs.push_back(ch == '1');
                if (kv[0] == "progs")
                    for (auto& p : split(kv[1], '|')) h.progs.push_back(parse_ops(p));
                if (kv[0] == "bodies" && kv[1] != "")
                    for (auto& p : split(kv[1], '|')) h.bodies.push_back(parse_ops(p));
                if (kv[0] == "sched")
                {
                    for (auto& p : split(kv[1], ','))
                        if (!p.empty() && p != "-") forced.push_back(std::atoi(p.c_str()));
                    have_forced = true;
                }
            }
            h.bodies.resize(h.C);
        }
        else
            gen_case(rng, h);
        g_case_id = cs;
        g_case_started++;
        int T = h.T, C = h.C;
        h.mysrc.assign(T, {});
        h.mytok.assign(T, {});
        for (auto& v : h.mysrc) v.reserve(64);
        for (auto& v : h.mytok) v.reserve(64);
        h.cbptr.assign(C, nullptr);
        h.ctor.assign(C, 0);
        h.dtor.assign(C, 0);
        h.runs.assign(C, 0);
        h.inctor.assign(C, 0);
        h.running.assign(C, -1);
        h.prereq.assign(C, 0);
        h.req.assign(T, {});
        int nsrc = 0;
        {
            pika::stop_source s0;
            h.token = s0.get_token();
            for (int t = 0; t < T; ++t)
                if (h.srcs[t])
                {
                    h.mysrc[t].push_back(s0);
                    ++nsrc;
                }
        }
        std::uint64_t w0 = (std::uint64_t) (1 + nsrc) + ((std::uint64_t) nsrc << 32);
        g_h = &h;
        std::vector<int> sched, sites;
        bool stuck = false;
        {
            vctl::Controller ctl(T, 1400, 1423);
            pika::verif::hook.store(&hookfn, std::memory_order_release);
            std::vector<std::thread> th;
            for (int t = 0; t < T; ++t)
                th.emplace_back([&, t] {
                    ctl.begin(t);
                    h.run_ops(h.progs[t]);
                    ctl.end();
                });
            if (!ctl.quiesce()) { std::printf("HARNESS-ERROR quiesce-start case=%d\n", cs); std::fflush(stdout); _exit(3); }
            ctl.release_all_parked();
            int spin_only = 0;
            size_t fi = 0;
            for (int stepno = 0;; ++stepno)
            {
                if (!ctl.quiesce()) { stuck = true; break; }
                auto p = ctl.parked();
                if (p.empty()) break;
                if (stepno >= 600 || spin_only >= 60) { stuck = true; break; }
                int t;
                if (have_forced)
                {
                    if (fi >= forced.size()) { stuck = true; break; }
                    t = forced[fi++];
                    bool ok = false;
                    for (int x : p) ok = ok || x == t;
                    if (!ok) { stuck = true; break; }
                }
                else
                {
                    std::vector<int> nospin;
                    for (int x : p)
                    {
                        int s = ctl.site_of(x);
                        if (s != 1403 && s != 1406 && s != 1409 && s != 1415) nospin.push_back(x);
                    }
                    if (nospin.empty()) ++spin_only; else spin_only = 0;
                    if (!nospin.empty() && !rng.chance(1, 5)) t = nospin[rng.below(nospin.size())];
                    else t = p[rng.below(p.size())];
                    if (!sched.empty() && rng.chance(1, 3))
                        for (int x : (nospin.empty() ? p : nospin))
                            if (x == sched.back()) t = x;
                }
                sched.push_back(t);
                sites.push_back(ctl.site_of(t) - 1400);
                ctl.release(t);
            }
            std::ostringstream in;
            in << "IN LS " << cs << " T=" << T << " C=" << C << " w0=" << std::hex << w0 << std::dec << " srcs=";
            for (int t = 0; t < T; ++t) in << h.srcs[t];
            in << " progs=";
            for (int t = 0; t < T; ++t) in << (t ? "|" : "") << opstr(h.progs[t]);
            in << " bodies=";
            for (int c = 0; c < C; ++c) in << (c ? "|" : "") << opstr(h.bodies[c]);
            in << " sched=" << (sched.empty() ? std::string("-") : join(sched));
            g_in_line = in.str();
            if (stuck)
            {
                // threads cannot be recovered: report and leave (the script restarts after this case)
                std::printf("%s\nOUT LS %d sites=%s stuck=1\n", g_in_line.c_str(), cs, join(sites).c_str());
                std::fflush(stdout);
                _exit(5);
            }
            for (auto& x : th) x.join();
        }
        pika::verif::hook.store(nullptr, std::memory_order_release);
        std::ostringstream out;
        out << "OUT LS " << cs << " sites=" << (sites.empty() ? std::string("-") : join(sites)) << " req=";
        for (int t = 0; t < T; ++t) out << (t ? "|" : "") << join(h.req[t]);
        out << " runs=" << join(h.runs) << " inctor=" << join(h.inctor) << " ctor=" << join(h.ctor)
            << " dtor=" << join(h.dtor) << " bad=" << (h.bad_a ? 1 : 0) << (h.bad_d ? 1 : 0)
            << " freq=" << (h.token.stop_requested() ? 1 : 0) << " fposs=" << (h.token.stop_possible() ? 1 : 0)
            << " stuck=0";
        std::printf("%s\n%s\n", g_in_line.c_str(), out.str().c_str());
        if (!h.viol.empty()) std::printf("VIOL LS %d %s\n", cs, join(h.viol).c_str());
        std::fflush(stdout);
        // clean-up outside the controller (a hang here is caught by the watchdog)
        g_case_started++;
        for (int c = 0; c < C; ++c)
            if (h.cbptr[c] && h.dtor[c] == 0) { delete h.cbptr[c]; }
        g_h = nullptr;
        if (!replay.empty()) break;
    }
    return 0;
}
