// harness/c02_window.cpp — C02 (no lost wake-up), scenario "wake-up issued INTO the window".
//
// The window: a task has registered itself as a waiter of a facility and released the facility's
// internal lock, but its worker has not yet published `suspended` — the state word still says
// `active`.  A wake-up issued there must not be dropped:
//   * pika::thread::interrupt() / threads::detail::interrupt_thread(id): records the request, then
//     set_thread_state(pending, abort, retry_on_active = false), which RE-READS the word (yield_k
//     between the reads) until the target is no longer active and then does the tagged
//     suspended -> pending CAS and schedule_thread;
//   * the facility's own notify (semaphore release, mutex unlock, cv notify, latch count_down, exit
//     of a joined thread): agent.resume() / set_thread_state(pending, signaled, retry_on_active =
//     true), which stages the retry helper set_active_state(target, previous word) (hook 208);
//     the helper re-issues set_thread_state, staging another helper while the target is still
//     active with the same word.
//
// Every case is a deterministic handshake, not a race: the hook function HOLDS the target at one
// of the hooks inside the window — 204 (execution_agent::do_yield, after its interruption point,
// before the coroutine switch), 205 (detail::condition_variable::wait between the unlock of the
// internal lock and suspend; notify cases only: an interruption requested there is still seen by
// the interruption point of do_yield), 206 (switch_status::store_state, executed by the worker
// after the switch) — keyed on the target's thread object AND on a flag the target sets right
// before it calls the blocking facility AND on the state about to be published (`suspended`), so
// that yields (which pass 204 / 206 as well) never match.  Held target -> `holding` -> the waker
// reads the state word (must be `active`), fires -> the target is released when the wake call has
// returned (notify cases: after the helper was created and, optionally, has run once or twice
// against the still-active target) or after a bounded time (interrupt on the unchanged tree never
// returns while the target is active, so the bound — 0.3 .. 3 ms — is what releases it; nothing
// waits for interrupt() to return).  Then the target must run again: watchdog >= 12 s (load
// tolerant), `MON <idx> lost_wakeup kind=<wake>_in_window:<facility> ...`.
//
// Facilities: counting_semaphore::acquire, pika::mutex::lock (held by a holder task),
// condition_variable_any::wait with a predicate, latch::wait, pika::thread::join.
// Wakers: the controlling OS thread, or (>= 2 workers) a task spinning on another worker.
//
// usage: c02_window <seed> <workers> <first> <count>      (case idx depends on (seed, idx) only:
//        `c02_window <seed> <workers> <idx> 1` replays one case)
// output: `WIN <idx> key=value ...` per case, `MON ...` on a lost wake-up (then the process leaves:
// the runtime cannot be shut down with a task suspended for ever), `SUMMARY ...` at the end.
#include "common/c01_sched.hpp"

#include <pika/thread.hpp>

using namespace vt;
using clk = std::chrono::steady_clock;

namespace {
    constexpr int ST_SUSPENDED = int(thread_schedule_state::suspended);
    enum Facility { F_SEM = 0, F_MUTEX, F_CV, F_LATCH, F_JOIN, F_N };
    char const* const fac_name[] = {"semaphore", "mutex", "cv", "latch", "join"};
    enum Wake { W_INTERRUPT = 0, W_NOTIFY };
    char const* const wake_name[] = {"interrupt", "notify"};
    enum Outcome { O_NONE = 0, O_INTERRUPTED, O_RETURNED, O_OTHER_EXCEPTION };
    char const* const outcome_name[] = {"never_ran_again", "thread_interrupted", "wait_returned", "other_exception"};

    double secs_since(clk::time_point t0) { return std::chrono::duration<double>(clk::now() - t0).count(); }
    inline void relax(int& n)
    {
        for (int i = 0; i < 40; ++i) PIKA_SMT_PAUSE;
        if ((++n & 7) == 0) sched_yield();
    }

    // ------------------------------------------------------------------ the window handshake
    struct Win
    {
        std::atomic<void const*> target_td{nullptr};
        std::atomic<int> armed{0};      // set by the target right before the blocking call
        int site = 204;                 // where to hold (per case, written before the target exists)
        int wake = W_INTERRUPT;
        int facility = 0;
        int need_runs = 0;              // notify: helper executions (hook 203) to wait for before the release
        long hold_limit_us = 1000;      // bound of the hold after the waker fired
        std::atomic<int> holding{0};    // the target is held inside the window
        std::atomic<int> reached{0};    // the target reached the hold site
        std::atomic<int> fired{0};      // waker: about to call the wake-up
        std::atomic<int> returned{0};   // waker: the wake-up call returned
        std::atomic<int> helper{0};     // hook 208 for the target: retry helper created
        std::atomic<int> helper_runs{0};        // hook 203 for the target: set_active_state entered
        std::atomic<int> helper_aborts{0};      // hook 207 for the target
        std::atomic<int> gaveup{0};     // the waker never fired while the target was held
        std::atomic<long> held_us{0};
        std::atomic<int> released_by{0};    // 1 wake call returned, 2 helper seen (join), 3 time bound
        void reset()
        {
            target_td = nullptr;
            armed = 0;
            holding = 0;
            reached = 0;
            fired = 0;
            returned = 0;
            helper = 0;
            helper_runs = 0;
            helper_aborts = 0;
            gaveup = 0;
            held_us = 0;
            released_by = 0;
        }
    };
    Win g_win;

    void hold_target(Win& w)
    {
        auto t0 = clk::now();
        w.reached.store(1, std::memory_order_release);
        w.holding.store(1, std::memory_order_release);
        int n = 0;
        while (!w.fired.load(std::memory_order_acquire))
        {
            if (secs_since(t0) > 8.0)
            {
                w.gaveup.store(1, std::memory_order_release);
                w.holding.store(0, std::memory_order_release);
                return;
            }
            relax(n);
        }
        auto t1 = clk::now();
        int by = 3;
        for (;;)
        {
            bool runs_ok = w.helper_runs.load(std::memory_order_acquire) >= w.need_runs;
            if (w.facility == F_JOIN && w.wake == W_NOTIFY)
            {
                // the wake-up is issued by the exiting joinee (exit callback), not by the waker's call
                if (w.helper.load(std::memory_order_acquire) > 0 && runs_ok)
                {
                    by = 2;
                    break;
                }
            }
            else if (w.returned.load(std::memory_order_acquire) && (w.wake == W_INTERRUPT || runs_ok))
            {
                by = 1;
                break;
            }
            if (secs_since(t1) * 1e6 > double(w.hold_limit_us)) break;
            relax(n);
        }
        w.released_by.store(by, std::memory_order_release);
        w.held_us.store(long(secs_since(t0) * 1e6), std::memory_order_release);
        w.holding.store(0, std::memory_order_release);
    }

    void window_hook(int site, void const* obj, std::uint64_t a, std::uint64_t)
    {
        if (site < 203 || site > 208) return;
        Win& w = g_win;
        void const* td = w.target_td.load(std::memory_order_acquire);
        if (td == nullptr) return;
        if (site == 208 || site == 203 || site == 207)
        {
            if (obj == td)
            {
                if (site == 208) w.helper.fetch_add(1, std::memory_order_acq_rel);
                else if (site == 203) w.helper_runs.fetch_add(1, std::memory_order_acq_rel);
                else w.helper_aborts.fetch_add(1, std::memory_order_acq_rel);
            }
            return;
        }
        if (site != w.site || !w.armed.load(std::memory_order_acquire)) return;
        bool match = false;
        if (site == 204) match = (obj == td && int(a) == ST_SUSPENDED);
        else if (site == 206) match = (obj == td && w_st(a) == ST_SUSPENDED);
        else if (site == 205)
        {
            thread_id_type self = get_self_id();
            match = self && static_cast<void const*>(get_thread_id_data(self)) == td;
        }
        if (!match) return;
        int one = 1;
        if (!w.armed.compare_exchange_strong(one, 0, std::memory_order_acq_rel)) return;    // one shot
        hold_target(w);
    }

    // ------------------------------------------------------------------ one case
    struct Params
    {
        int idx = 0;
        int facility = 0, wake = 0, site = 204;
        bool waker_task = false;
        bool api_handle = false;    // interrupt through pika::thread::interrupt(id) instead of interrupt_thread
        bool notify_all = false;
        int need_runs = 0;
        long hold_us = 1000;
    };

    Params make_params(std::uint64_t seed, int idx, int workers)
    {
        Params p;
        p.idx = idx;
        Rng g(seed * 0x9E3779B97F4A7C15ull + std::uint64_t(idx) * 7919 + 11);
        p.facility = idx % F_N;
        p.wake = (idx / F_N) % 2;
        int round = idx / (2 * F_N);
        p.waker_task = workers >= 2 && g.chance(1, 2);
        // what cannot be done without a second worker is turned into the interrupt variant
        if (p.wake == W_NOTIFY && workers < 2 && (p.facility == F_MUTEX || p.facility == F_JOIN)) p.wake = W_INTERRUPT;
        if (p.wake == W_NOTIFY && p.facility == F_MUTEX) p.waker_task = true;      // the holder task unlocks
        if (p.wake == W_NOTIFY && p.facility == F_JOIN) p.waker_task = false;       // the waker only lets the joinee exit
        if (p.facility == F_JOIN) p.site = 206;    // thread::join suspends through this_thread::suspend: no 204 / 205
        else if (p.wake == W_INTERRUPT) p.site = (round % 2 == 0) ? 204 : 206;
        else p.site = 204 + (round % 3);
        p.api_handle = g.chance(1, 2);
        p.notify_all = g.chance(1, 2);
        if (p.wake == W_NOTIFY && workers >= 2) p.need_runs = g.below(3);
        p.hold_us = p.wake == W_INTERRUPT ? 300 + g.below(2700) : 100000;
        return p;
    }

    struct CaseState
    {
        pika::counting_semaphore<> sem{0};
        pika::mutex mtx;
        pika::condition_variable_any cv;
        pika::concurrency::detail::spinlock cvm;
        bool cv_flag = false;
        pika::latch latch{1};
        pika::counting_semaphore<> jrel{0};    // lets the joinee exit
        pika::counting_semaphore<> hrel{0};    // lets the (suspended) mutex holder unlock
        std::atomic<int> held{0};              // the holder owns the mutex
        std::atomic<int> waker_ready{0};
        std::atomic<int> waker_worker{-1};
        std::atomic<int> go{0};
        std::atomic<int> outcome{O_NONE};
        std::atomic<int> tasks_done{0};
        std::atomic<int> target_started{0};
        thread_id_ref_type target_id;          // keeps the thread object alive for the whole case
        pika::thread::id target_hid;
        std::atomic<int> pre_state{-1}, pre_holding{-1}, ret_holding{-1};
        int tasks = 0;
    };

    template <typename F>
    void spawn_at(F&& f, int worker)
    {
        thread_init_data data(make_thread_function_nullary(std::forward<F>(f)), "verif-window", ex::thread_priority::normal,
            worker >= 0 ? ex::thread_schedule_hint(std::int16_t(worker)) : ex::thread_schedule_hint(),
            ex::thread_stacksize::medium);
        register_work(data);
    }

    // the wake-up itself (run by the controlling OS thread or by the waker task)
    void do_wake(Params const& p, std::shared_ptr<CaseState> s)
    {
        Win& w = g_win;
        auto* td = get_thread_id_data(s->target_id);
        s->pre_holding.store(w.holding.load(std::memory_order_acquire));
        s->pre_state.store(int(td->get_state().state()));
        w.fired.store(1, std::memory_order_release);
        if (p.wake == W_INTERRUPT)
        {
            if (p.api_handle) pika::thread::interrupt(s->target_hid, true);
            else
            {
                pika::error_code ec(pika::throwmode::lightweight);
                interrupt_thread(s->target_id.noref(), true, ec);
            }
        }
        else
        {
            switch (p.facility)
            {
            case F_SEM: s->sem.release(1); break;
            case F_MUTEX: s->mtx.unlock(); break;    // run by the holder task
            case F_CV:
            {
                {
                    std::unique_lock<pika::concurrency::detail::spinlock> l(s->cvm);
                    s->cv_flag = true;
                }
                if (p.notify_all) s->cv.notify_all();
                else s->cv.notify_one();
                break;
            }
            case F_LATCH: s->latch.count_down(1); break;
            default: s->jrel.release(1); break;    // the joinee exits: its exit callback resumes the joiner
            }
        }
        s->ret_holding.store(w.holding.load(std::memory_order_acquire));
        w.returned.store(1, std::memory_order_release);
    }

    void target_body(Params p, std::shared_ptr<CaseState> s)
    {
        Win& w = g_win;
        s->target_id = thread_id_ref_type(get_self_id());
        s->target_hid = pika::this_thread::get_id();
        std::unique_ptr<pika::thread> joinee;
        if (p.facility == F_JOIN) joinee = std::make_unique<pika::thread>([s] { s->jrel.acquire(); s->tasks_done.fetch_add(1); });
        w.target_td.store(get_thread_id_data(s->target_id), std::memory_order_release);
        s->target_started.store(1, std::memory_order_release);
        int oc = O_RETURNED;
        bool locked = false;
        try
        {
            w.armed.store(1, std::memory_order_release);    // from here on the next suspension is the one to hold
            switch (p.facility)
            {
            case F_SEM: s->sem.acquire(); break;
            case F_MUTEX:
                s->mtx.lock();
                locked = true;
                break;
            case F_CV:
            {
                std::unique_lock<pika::concurrency::detail::spinlock> l(s->cvm);
                s->cv.wait(l, [&] { return s->cv_flag; });
                break;
            }
            case F_LATCH: s->latch.wait(); break;
            default: joinee->join(); break;
            }
        }
        catch (pika::thread_interrupted const&)
        {
            oc = O_INTERRUPTED;
        }
        catch (...)
        {
            oc = O_OTHER_EXCEPTION;
        }
        w.armed.store(0, std::memory_order_release);
        s->outcome.store(oc, std::memory_order_release);
        if (locked) s->mtx.unlock();
        if (joinee && joinee->joinable())
        {
            // the join was interrupted: the handle is still joinable; let the joinee go
            joinee->detach();
            s->jrel.release(1);
        }
        s->tasks_done.fetch_add(1);
    }

    struct Totals
    {
        int cases = 0, in_window = 0, not_in_window = 0, helper_cases = 0, interrupted = 0, returned = 0, other_exc = 0;
    };

    thread_pool_base* pool() { return get_self_or_default_pool(); }
    bool settle_pool()
    {
        auto t0 = clk::now();
        for (;;)
        {
            if (pool()->get_thread_count_unknown(std::size_t(-1), false) == 0) return true;
            std::this_thread::sleep_for(std::chrono::microseconds(200));
            if (secs_since(t0) > 5.0) return false;
        }
    }

    // returns 0 ok, 3 lost wake-up (the process must leave)
    int run_case(Params const& p, int workers, Totals& tot)
    {
        Win& w = g_win;
        w.reset();
        w.site = p.site;
        w.wake = p.wake;
        w.facility = p.facility;
        w.need_runs = p.need_runs;
        w.hold_limit_us = p.hold_us;
        auto s = std::make_shared<CaseState>();
        auto fail_setup = [&](char const* what) {
            std::printf("INCONCLUSIVE %d setup: %s\n", p.idx, what);
            std::fflush(stdout);
            return 4;
        };
        auto wait_for = [&](std::atomic<int>& v, double limit) {
            auto t0 = clk::now();
            while (!v.load(std::memory_order_acquire))
            {
                if (secs_since(t0) > limit) return false;
                std::this_thread::sleep_for(std::chrono::microseconds(50));
            }
            return true;
        };
        bool holder_is_waker = p.facility == F_MUTEX && p.wake == W_NOTIFY;
        int busy_worker = -1;
        s->tasks = 1 + (p.facility == F_JOIN ? 1 : 0);
        if (p.facility == F_MUTEX)
        {
            ++s->tasks;
            if (holder_is_waker)
                spawn_at(
                    [p, s] {
                        s->mtx.lock();
                        s->waker_worker.store(int(pika::get_worker_thread_num()));
                        s->held.store(1, std::memory_order_release);
                        int n = 0;
                        while (!s->go.load(std::memory_order_acquire)) relax(n);    // occupies its worker; never yields
                        do_wake(p, s);                                               // = unlock
                        s->tasks_done.fetch_add(1);
                    },
                    -1);
            else
                spawn_at(
                    [s] {
                        s->mtx.lock();
                        s->held.store(1, std::memory_order_release);
                        s->hrel.acquire();    // suspended: takes no worker
                        s->mtx.unlock();
                        s->tasks_done.fetch_add(1);
                    },
                    -1);
            if (!wait_for(s->held, 20.0)) return fail_setup("the mutex holder did not start");
            if (holder_is_waker) busy_worker = s->waker_worker.load();
        }
        if (p.waker_task && !holder_is_waker)
        {
            ++s->tasks;
            spawn_at(
                [p, s] {
                    s->waker_worker.store(int(pika::get_worker_thread_num()));
                    s->waker_ready.store(1, std::memory_order_release);
                    int n = 0;
                    while (!s->go.load(std::memory_order_acquire)) relax(n);
                    do_wake(p, s);
                    s->tasks_done.fetch_add(1);
                },
                -1);
            if (!wait_for(s->waker_ready, 20.0)) return fail_setup("the waker task did not start");
            busy_worker = s->waker_worker.load();
        }
        int hint = -1;
        if (busy_worker >= 0 && workers >= 2) hint = (busy_worker + 1 + (p.idx % (workers - 1))) % workers;
        if (hint == busy_worker) hint = (busy_worker + 1) % workers;
        spawn_at([p, s] { target_body(p, s); }, hint);

        // the target reaches the hold site (it cannot be woken by anybody else before)
        bool reached = wait_for(w.holding, 15.0);
        if (!s->target_started.load(std::memory_order_acquire)) return fail_setup("the target did not start");
        auto t_fire = clk::now();
        if (p.waker_task || holder_is_waker) s->go.store(1, std::memory_order_release);
        else do_wake(p, s);    // on the unchanged tree an interrupt returns only after the time-bounded release

        // the target must run again
        bool lost = false;
        double const limit = 12.0;
        while (s->outcome.load(std::memory_order_acquire) == O_NONE)
        {
            if (secs_since(t_fire) > limit && w.fired.load() && (w.returned.load() || secs_since(t_fire) > 2 * limit))
            {
                lost = true;
                break;
            }
            std::this_thread::sleep_for(std::chrono::microseconds(100));
        }
        int pre_state = s->pre_state.load(), pre_hold = s->pre_holding.load();
        bool in_window = reached && pre_hold == 1 && pre_state == ST_ACTIVE;
        int oc = s->outcome.load();
        auto* td = get_thread_id_data(s->target_id);
        std::uint64_t word = static_cast<std::uint64_t>(td->get_state().verif_raw());
        std::printf("WIN %d facility=%s wake=%s site=%d waker=%s api=%s workers=%d reached=%d in_window=%d pre_state=%d pre_holding=%d "
                    "returned_while_held=%d helper_created=%d helper_runs=%d need_runs=%d helper_aborts=%d released_by=%d held_us=%ld "
                    "hold_limit_us=%ld outcome=%s word_st=%d word_ex=%d word_tag=%llu\n",
            p.idx, fac_name[p.facility], wake_name[p.wake], p.site, (p.waker_task || holder_is_waker) ? "task" : "os",
            p.wake == W_INTERRUPT ? (p.api_handle ? "thread::interrupt" : "interrupt_thread") :
                                    (p.facility == F_CV ? (p.notify_all ? "notify_all" : "notify_one") : "facility"),
            workers, reached ? 1 : 0, in_window ? 1 : 0, pre_state, pre_hold, s->ret_holding.load(), w.helper.load(),
            w.helper_runs.load(), p.need_runs, w.helper_aborts.load(), w.released_by.load(), w.held_us.load(), p.hold_us,
            outcome_name[oc], w_st(word), w_ex(word), (unsigned long long) w_tag(word));
        if (lost)
        {
            auto* pl = pool();
            std::printf("MON %d lost_wakeup kind=%s_in_window:%s the target registered as a waiter of the %s, was held at hook %d "
                        "(word still active: pre_state=%d holding=%d), the wake-up (%s) was issued %.1f s ago and %s, but the "
                        "target never ran again: word st=%d ex=%d tag=%llu, helper_created=%d helper_runs=%d; pool pending=%ld "
                        "active=%ld staged=%ld suspended=%ld; replay: c02_window <seed> %d %d 1\n",
                p.idx, wake_name[p.wake], fac_name[p.facility], fac_name[p.facility], p.site, pre_state, pre_hold, wake_name[p.wake],
                secs_since(t_fire), w.returned.load() ? (s->ret_holding.load() == 1 ? "returned while the target was still held in the window" : "returned") : "has not returned",
                w_st(word), w_ex(word), (unsigned long long) w_tag(word), w.helper.load(), w.helper_runs.load(),
                long(pl->get_thread_count_pending(std::size_t(-1), false)), long(pl->get_thread_count_active(std::size_t(-1), false)),
                long(pl->get_thread_count_staged(std::size_t(-1), false)), long(pl->get_thread_count_suspended(std::size_t(-1), false)),
                workers, p.idx);
            std::fflush(stdout);
            return 3;
        }
        ++tot.cases;
        if (in_window) ++tot.in_window;
        else ++tot.not_in_window;
        if (w.helper.load() > 0) ++tot.helper_cases;
        if (oc == O_INTERRUPTED) ++tot.interrupted;
        else if (oc == O_RETURNED) ++tot.returned;
        else ++tot.other_exc;

        // teardown: release whatever is still blocked
        if (p.facility == F_MUTEX && !holder_is_waker) s->hrel.release(1);
        auto t_td = clk::now();
        while (s->tasks_done.load(std::memory_order_acquire) < s->tasks)
        {
            if (secs_since(t_td) > 2 * limit)
            {
                std::printf("MON %d lost_wakeup kind=teardown:%s %d of %d tasks of the case finished %.0f s after everything was "
                            "released; replay: c02_window <seed> %d %d 1\n",
                    p.idx, fac_name[p.facility], s->tasks_done.load(), s->tasks, secs_since(t_td), workers, p.idx);
                std::fflush(stdout);
                return 3;
            }
            std::this_thread::sleep_for(std::chrono::microseconds(100));
        }
        w.target_td.store(nullptr, std::memory_order_release);
        s->target_id = thread_id_ref_type();
        settle_pool();
        std::fflush(stdout);
        return 0;
    }
}    // namespace

int main(int argc, char** argv)
{
    std::uint64_t seed = argc > 1 ? std::strtoull(argv[1], nullptr, 10) : 1;
    int workers = argc > 2 ? std::atoi(argv[2]) : 2;
    int first = argc > 3 ? std::atoi(argv[3]) : 0;
    int count = argc > 4 ? std::atoi(argv[4]) : 30;
    setvbuf(stdout, nullptr, _IOLBF, 0);
    std::string a1 = "--pika:threads=" + std::to_string(workers);
    char* av[] = {argv[0], a1.data(), nullptr};
    pika::verif::hook.store(&window_hook, std::memory_order_release);
    pika::start(2, av);
    settle_pool();
    std::printf("INFO start scenario=window seed=%llu workers=%d first=%d count=%d\n", (unsigned long long) seed, workers, first, count);
    Totals tot;
    int rc = 0;
    int inconclusive = 0;
    for (int idx = first; idx < first + count; ++idx)
    {
        Params p = make_params(seed, idx, workers);
        int r = run_case(p, workers, tot);
        if (r == 4)
        {
            ++inconclusive;
            rc = 4;
            break;    // a task of the case is somewhere unknown: do not start another case in this process
        }
        if (r != 0)
        {
            rc = r;
            break;
        }
    }
    std::printf("SUMMARY scenario=window workers=%d cases=%d in_window=%d not_in_window=%d helper_cases=%d thread_interrupted=%d "
                "wait_returned=%d other_exception=%d inconclusive=%d rc=%d\n",
        workers, tot.cases, tot.in_window, tot.not_in_window, tot.helper_cases, tot.interrupted, tot.returned, tot.other_exc,
        inconclusive, rc);
    std::fflush(stdout);
    if (rc != 0) _exit(rc);
    pika::finalize();
    pika::stop();
    return 0;
}
