// C17 (queue back-ends) harness: the REAL back-ends of lockfree_queue_backends.hpp, used through
// the back-end API only (push(val, other_end) / pop(val, steal)).  NOT lock-step.
//
//   c17_fifo <seed> <ncases> [conc_every=6]
//
// (a) IN SEQ <id> <backend> <ops>            single-threaded random op sequence (1..40 ops)
//     OUT SEQ <id> res=<r,..> rest=<v,..|->  ops: p<v>=push(v,false) P<v>=push(v,true) o=pop(val,false) s=pop(val,true)
//                                            res: one entry per op: push -> t/f, pop -> value or n
//                                            rest: contents drained with owner pops afterwards
// (b) IN CONC <id> <backend> P=<p> C=<c> n=<n>   real threads: p producers push pid*1000000+i, c consumers pop
//     OUT CONC <id> ok=<0|1> dup=<k> lost=<k> invented=<k> order=<k> detail=<text|->
//     monitors: every pushed value is taken exactly once; for `fifo` each single consumer sees the
//     values of one producer in increasing order (ConcurrentQueue: per-producer FIFO).
//     CONC runs on `fifo` only unless C17_CONC_DEQUE=1 (the deque has a known ABA defect).
// A crash (signal) or hang of the code under test becomes an OUT line for the running case
// (res=CRASH / detail=signal<N> / detail=hang) followed by exit code 4/5, never a silent death.
#include "common/ctl.hpp"    // vctl::Rng only; no Controller is constructed

#include <pika/schedulers/lockfree_queue_backends.hpp>

#include <atomic>
#include <chrono>
#include <cinttypes>
#include <csignal>
#include <cstdio>
#include <cstdlib>
#include <cstring>
#include <sstream>
#include <string>
#include <thread>
#include <unistd.h>
#include <vector>

using u64 = std::uint64_t;
namespace pd = pika::threads::detail;

static char const* const backend_names[4] = {"fifo", "lifo", "abp_fifo", "abp_lifo"};

// ---------------------------------------------------------------- crash / hang reporting
static char g_crash_line[160];    // complete OUT line prefix for the running case (signal number appended)
static char g_hang_line[160];     // complete OUT line for a hang of the running case
static std::atomic<long long> g_hard_deadline_ms{0};    // 0 = no case running
static std::atomic<bool> g_stop{false};

static long long now_ms()
{
    return std::chrono::duration_cast<std::chrono::milliseconds>(
        std::chrono::steady_clock::now().time_since_epoch())
        .count();
}

static void on_signal(int sig)
{
    char buf[200];
    size_t n = std::strlen(g_crash_line);
    std::memcpy(buf, g_crash_line, n);
    if (sig >= 10) buf[n++] = (char) ('0' + (sig / 10) % 10);
    buf[n++] = (char) ('0' + sig % 10);
    buf[n++] = '\n';
    ssize_t r = write(1, buf, n);
    (void) r;
    _exit(5);
}

static void watchdog()
{
    while (!g_stop.load(std::memory_order_acquire))
    {
        std::this_thread::sleep_for(std::chrono::milliseconds(50));
        long long d = g_hard_deadline_ms.load(std::memory_order_acquire);
        if (d != 0 && now_ms() > d)
        {
            ssize_t r = write(1, g_hang_line, std::strlen(g_hang_line));
            (void) r;
            _exit(4);
        }
    }
}

static void arm(char const* kind, int id, long long hard_ms)
{
    if (std::strcmp(kind, "SEQ") == 0)
    {
        std::snprintf(g_crash_line, sizeof g_crash_line, "OUT SEQ %d res=CRASH rest=signal", id);
        std::snprintf(g_hang_line, sizeof g_hang_line, "OUT SEQ %d res=CRASH rest=hang\n", id);
    }
    else
    {
        std::snprintf(g_crash_line, sizeof g_crash_line,
            "OUT CONC %d ok=0 dup=0 lost=0 invented=0 order=0 detail=signal", id);
        std::snprintf(g_hang_line, sizeof g_hang_line,
            "OUT CONC %d ok=0 dup=0 lost=0 invented=0 order=0 detail=hang\n", id);
    }
    g_hard_deadline_ms.store(now_ms() + hard_ms, std::memory_order_release);
}

static void disarm() { g_hard_deadline_ms.store(0, std::memory_order_release); }

// ---------------------------------------------------------------- (a) sequential cases
struct Op
{
    char k;    // 'p' 'P' 'o' 's'
    u64 v;
};

static std::vector<Op> gen_ops(vctl::Rng& rng)
{
    int len = 1 + (int) rng.below(40);
    int mode = (int) rng.below(5);
    // steal policy: owner only / thief only / mixed; other_end policy: never / sometimes
    int spol = (int) rng.below(3);
    bool use_other = rng.chance(1, 2);
    u64 next = 1 + rng.below(50);
    int npush_phase = mode == 1 ? 1 + (int) rng.below((u64) len) : 0;
    std::vector<Op> ops;
    for (int i = 0; i < len; ++i)
    {
        bool push;
        switch (mode)
        {
        case 0: push = rng.chance(1, 2); break;
        case 1: push = i < npush_phase; break;    // push phase, then pop phase (may over-pop)
        case 2: push = rng.chance(1, 4); break;   // pop heavy: empty container exercised
        case 3: push = rng.chance(3, 4); break;   // push heavy
        default: push = (i % 2) == 0; break;      // alternate
        }
        if (push)
        {
            bool other = use_other && rng.chance(1, 3);
            ops.push_back({other ? 'P' : 'p', next});
            next += 1 + rng.below(3);
        }
        else
        {
            bool steal = spol == 0 ? false : spol == 1 ? true : rng.chance(1, 2);
            ops.push_back({steal ? 's' : 'o', 0});
        }
    }
    return ops;
}

template <typename B>
static void run_seq(int id, std::vector<Op> const& ops)
{
    B q;
    std::ostringstream out;
    out << "OUT SEQ " << id << " res=";
    std::size_t npush = 0;
    for (std::size_t i = 0; i < ops.size(); ++i)
    {
        if (i) out << ",";
        Op const& o = ops[i];
        if (o.k == 'p' || o.k == 'P')
        {
            u64 v = o.v;
            bool ok = q.push(v, o.k == 'P');
            npush += ok ? 1 : 0;
            out << (ok ? "t" : "f");
        }
        else
        {
            u64 v = ~u64(0);
            if (q.pop(v, o.k == 's'))
                out << v;
            else
                out << "n";
        }
    }
    out << " rest=";
    std::size_t nrest = 0;
    for (std::size_t i = 0; i < ops.size() + 2; ++i)    // bounded drain (owner pops)
    {
        u64 v = ~u64(0);
        if (!q.pop(v, false)) break;
        out << (nrest ? "," : "") << v;
        ++nrest;
    }
    if (nrest == 0) out << "-";
    std::printf("%s\n", out.str().c_str());
}

// ---------------------------------------------------------------- (b) concurrent cases
static constexpr u64 STRIDE = 1000000;

template <typename B>
static void run_conc(int id, int P, int C, int n, bool check_order, u64 seed)
{
    B q;
    long long const soft_deadline = now_ms() + 20000;
    std::atomic<int> producers_done{0};
    std::atomic<bool> go{false}, timed_out{false};
    std::atomic<u64> push_fail{0};
    std::vector<std::vector<u64>> got(C + 1);    // got[C] = final drain by the main thread
    std::vector<std::thread> th;
    vctl::Rng srng(seed);
    auto wait_go = [&] {
        while (!go.load(std::memory_order_acquire))
        {
            std::this_thread::yield();
            if (now_ms() > soft_deadline) { timed_out = true; return; }
        }
    };
    for (int p = 0; p < P; ++p)
        th.emplace_back([&, p] {
            wait_go();
            for (int i = 0; i < n && !timed_out.load(std::memory_order_relaxed); ++i)
            {
                u64 v = (u64) p * STRIDE + (u64) i;
                if (!q.push(v, false)) push_fail.fetch_add(1);
                if ((i & 63) == 63)
                {
                    if (now_ms() > soft_deadline) timed_out = true;
                    std::this_thread::yield();    // let consumers interleave
                }
            }
            producers_done.fetch_add(1, std::memory_order_acq_rel);
        });
    for (int c = 0; c < C; ++c)
    {
        u64 cseed = srng.next();
        th.emplace_back([&, c, cseed] {
            vctl::Rng r(cseed);
            wait_go();
            got[c].reserve((std::size_t) P * n);
            // some consumers leave early so that the final drain by the main thread has work
            std::size_t quota = r.chance(1, 3) ? (std::size_t) r.below((u64) P * n / C + 1) : ~std::size_t(0);
            unsigned it = 0;
            while (!timed_out.load(std::memory_order_relaxed) && got[c].size() < quota)
            {
                bool done_before = producers_done.load(std::memory_order_acquire) == P;
                u64 v = ~u64(0);
                if (q.pop(v, r.chance(1, 2)))
                {
                    got[c].push_back(v);
                    if ((++it & 255) == 0 && now_ms() > soft_deadline) timed_out = true;
                }
                else
                {
                    if (done_before) break;
                    std::this_thread::yield();
                    if (now_ms() > soft_deadline) timed_out = true;
                }
            }
        });
    }
    go.store(true, std::memory_order_release);
    for (auto& t : th) t.join();
    // quiescent drain by the main thread: stop after 3 consecutive failures (bounded)
    {
        std::size_t bound = (std::size_t) P * n + 8;
        int fails = 0;
        for (std::size_t i = 0; i < bound && fails < 3; ++i)
        {
            u64 v = ~u64(0);
            if (q.pop(v, (i & 1) != 0))
            {
                got[C].push_back(v);
                fails = 0;
            }
            else
                ++fails;
        }
    }
    // monitors
    std::vector<std::uint32_t> cnt((std::size_t) P * n, 0);
    u64 dup = 0, lost = 0, invented = 0, order = 0;
    std::string detail;
    auto note = [&](std::string const& s) {
        if (detail.size() < 60) detail += (detail.empty() ? "" : ";") + s;
    };
    for (int c = 0; c <= C; ++c)
    {
        std::vector<long long> last(P, -1);
        for (u64 v : got[c])
        {
            u64 p = v / STRIDE, i = v % STRIDE;
            if (p >= (u64) P || i >= (u64) n)
            {
                if (invented++ == 0) note("invented=" + std::to_string(v));
                continue;
            }
            ++cnt[(std::size_t) p * n + i];
            if (check_order)
            {
                if ((long long) i <= last[p])
                    if (order++ == 0)
                        note("order:c" + std::to_string(c) + ":p" + std::to_string(p) + ":" +
                            std::to_string(last[p]) + ">=" + std::to_string(i));
                last[p] = (long long) i;
            }
        }
    }
    for (std::size_t k = 0; k < cnt.size(); ++k)
    {
        if (cnt[k] == 0)
        {
            if (lost++ == 0) note("lost=" + std::to_string((k / n) * STRIDE + k % n));
        }
        else if (cnt[k] > 1)
        {
            if (dup == 0) note("dup=" + std::to_string((k / n) * STRIDE + k % n));
            dup += cnt[k] - 1;
        }
    }
    u64 pf = push_fail.load();
    if (pf) note("pushfail=" + std::to_string(pf));    // failed pushes show up as lost too
    if (timed_out.load()) note("timeout");
    bool ok = dup == 0 && lost == 0 && invented == 0 && order == 0 && pf == 0 && !timed_out.load();
    std::printf("OUT CONC %d ok=%d dup=%" PRIu64 " lost=%" PRIu64 " invented=%" PRIu64 " order=%" PRIu64
                " detail=%s\n",
        id, ok ? 1 : 0, dup, lost, invented, order, detail.empty() ? "-" : detail.c_str());
}

int main(int argc, char** argv)
{
    u64 seed = argc > 1 ? std::strtoull(argv[1], nullptr, 10) : 1;
    int ncases = argc > 2 ? std::atoi(argv[2]) : 100;
    int conc_every = argc > 3 ? std::atoi(argv[3]) : 6;
    char const* e = std::getenv("C17_CONC_DEQUE");
    bool conc_deque = e && std::strcmp(e, "1") == 0;
    for (int s : {SIGSEGV, SIGBUS, SIGABRT, SIGFPE, SIGILL}) std::signal(s, on_signal);
    std::thread wd(watchdog);
    vctl::Rng rng(seed);
    for (int cs = 0; cs < ncases; ++cs)
    {
        bool conc = conc_every > 0 && cs % conc_every == conc_every - 1;
        if (!conc)
        {
            int b = (int) rng.below(4);
            std::vector<Op> ops = gen_ops(rng);
            std::ostringstream in;
            in << "IN SEQ " << cs << " " << backend_names[b] << " ";
            for (std::size_t i = 0; i < ops.size(); ++i)
            {
                if (i) in << ",";
                in << ops[i].k;
                if (ops[i].k == 'p' || ops[i].k == 'P') in << ops[i].v;
            }
            std::printf("%s\n", in.str().c_str());
            std::fflush(stdout);
            arm("SEQ", cs, 30000);
            switch (b)
            {
            case 0: run_seq<pd::lockfree_fifo_backend<u64>>(cs, ops); break;
            case 1: run_seq<pd::lockfree_lifo_backend<u64>>(cs, ops); break;
            case 2: run_seq<pd::lockfree_abp_fifo_backend<u64>>(cs, ops); break;
            default: run_seq<pd::lockfree_abp_lifo_backend<u64>>(cs, ops); break;
            }
            disarm();
        }
        else
        {
            int b = conc_deque ? (int) rng.below(4) : 0;
            int P = 1 + (int) rng.below(4);
            int C = 1 + (int) rng.below(4);
            int n = rng.chance(1, 4) ? 1 + (int) rng.below(2000) : 1 + (int) rng.below(200);
            u64 cseed = rng.next();
            std::printf("IN CONC %d %s P=%d C=%d n=%d\n", cs, backend_names[b], P, C, n);
            std::fflush(stdout);
            arm("CONC", cs, 30000);    // soft watchdog 20 s inside the case, hard 30 s
            switch (b)
            {
            case 0: run_conc<pd::lockfree_fifo_backend<u64>>(cs, P, C, n, true, cseed); break;
            case 1: run_conc<pd::lockfree_lifo_backend<u64>>(cs, P, C, n, false, cseed); break;
            case 2: run_conc<pd::lockfree_abp_fifo_backend<u64>>(cs, P, C, n, false, cseed); break;
            default: run_conc<pd::lockfree_abp_lifo_backend<u64>>(cs, P, C, n, false, cseed); break;
            }
            disarm();
        }
        std::fflush(stdout);
    }
    g_stop.store(true, std::memory_order_release);
    wd.join();
    return 0;
}
