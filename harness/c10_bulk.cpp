// harness/c10_bulk.cpp — C10 <-> C11: where the invocations f(i) of `bulk` on a
// thread_pool_scheduler run (Model/BulkPlacement.v).
// Drives the REAL runtime: default pool + pools "A" (the bulk pool) and "B" created through the
// resource partitioner, bulk operations whose predecessor is schedule / schedule|then /
// transfer_just / just|continues_on / other-pool|continues_on / another bulk, with scheduler
// hints and priorities, started from external OS threads and from tasks.  The verification hooks
// of thread_pool_scheduler_bulk.hpp tell which task_function is running: 1101 = set_value (after
// the shape==0 test), 1103 = do_work_chunk(index, task_f->worker_thread).  Every f(i) records
// (uid, i, worker_thread k of the calling task_function, chunk index, pool, local worker, pika
// task id, OS thread id); set_value records its own context.  Printed:
//   POOL/OP/SV/F lines for the monitors (tools/props/c10.py),
//   IN BULK <id> ... obs=<k:pool:worker;...>  for the extracted model's acceptor [bulk_allowed],
//   OUT BULK <id> <k:pool:worker;...>         the same observations (the model re-prints the admitted ones).
//
// usage: c10_bulk <seed> <case> <nops>
#include <pika/execution.hpp>
#include <pika/init.hpp>
#include <pika/modules/resource_partitioner.hpp>
#include <pika/thread.hpp>

#include <algorithm>
#include <atomic>
#include <chrono>
#include <cstdint>
#include <cstdio>
#include <cstdlib>
#include <map>
#include <mutex>
#include <set>
#include <string>
#include <thread>
#include <tuple>
#include <unordered_map>
#include <vector>

#include <sys/syscall.h>
#include <unistd.h>

namespace ex = pika::execution::experimental;
using pika::execution::thread_priority;
using pika::execution::thread_schedule_hint;

struct Rng
{
    std::uint64_t s;
    explicit Rng(std::uint64_t seed)
      : s(seed * 0x9E3779B97F4A7C15ull + 0x7654321ull)
    {
        for (int i = 0; i < 4; ++i) next();
    }
    std::uint64_t next()
    {
        s ^= s << 13;
        s ^= s >> 7;
        s ^= s << 17;
        return s;
    }
    int below(int n) { return int(next() % std::uint64_t(n)); }
};

struct PoolSpec
{
    std::string name, policy;
    int W = 0, H = 0, prio = 0, steal = 0, elastic = 0, offset = 0;
};
static std::vector<PoolSpec> g_pools;    // 0 = default, 1 = A (bulk pool), 2 = B

static pika::resource::scheduling_policy policy_enum(std::string const& p)
{
    using sp = pika::resource::scheduling_policy;
    if (p == "local") return sp::local;
    if (p == "static") return sp::static_;
    if (p == "static-priority") return sp::static_priority;
    if (p == "local-priority-fifo") return sp::local_priority_fifo;
    if (p == "local-priority-lifo") return sp::local_priority_lifo;
    if (p == "abp-priority-fifo") return sp::abp_priority_fifo;
    return sp::abp_priority_lifo;
}
static void policy_props(PoolSpec& p)
{
    if (p.policy == "local") { p.prio = 0; p.steal = 1; }
    else if (p.policy == "static") { p.prio = 0; p.steal = 0; }
    else if (p.policy == "static-priority") { p.prio = 1; p.steal = 0; }
    else { p.prio = 1; p.steal = 1; }
}
static void rp_callback(pika::resource::partitioner& rp, pika::program_options::variables_map const&)
{
    for (std::size_t i = 1; i < g_pools.size(); ++i)
        rp.create_thread_pool(g_pools[i].name, policy_enum(g_pools[i].policy), pika::threads::scheduler_mode::default_mode);
    int n = 0, used = 0;
    std::size_t pi = 1;
    for (auto const& s : rp.sockets())
        for (auto const& c : s.cores())
            for (auto const& p : c.pus())
            {
                if (n >= g_pools[0].W && pi < g_pools.size())
                {
                    rp.add_resource(p, g_pools[pi].name);
                    if (++used == g_pools[pi].W) { ++pi; used = 0; }
                }
                ++n;
            }
}

// ------------------------------------------------------------------ records
struct Where
{
    int pool = -1, lw = -1;
    std::uint64_t ptid = 0, ostid = 0;
};
static Where here()
{
    Where w;
    auto id = pika::threads::detail::get_self_id();
    w.ptid = reinterpret_cast<std::uint64_t>(id.get());
    w.ostid = std::uint64_t(::syscall(SYS_gettid));
    std::size_t p = pika::get_thread_pool_num(), lw = pika::get_local_worker_thread_num();
    w.pool = (p == std::size_t(-1) || !id) ? -1 : int(p);
    w.lw = (lw == std::size_t(-1) || !id) ? -1 : int(lw);
    return w;
}
struct Rec
{
    char kind;    // 'V' set_value, 'F' call of f
    long seq;
    int uid, i, k, idx;
    std::uint64_t opstate, a, b;
    Where w;
};
constexpr int MAXR = 400000;
static Rec* recs = new Rec[MAXR];
static std::atomic<int> nrec{0};
static std::atomic<long> gseq{0};

static std::mutex cur_mtx;
struct Cur { std::uint64_t opstate; int k, idx; };
static std::unordered_map<std::uint64_t, Cur> cur_chunk;    // pika task id -> chunk being executed

static void hook_fn(int site, void const* obj, std::uint64_t a, std::uint64_t b)
{
    if (site == 1101)
    {
        int i = nrec.fetch_add(1);
        if (i >= MAXR) return;
        Rec& r = recs[i];
        r.kind = 'V';
        r.seq = gseq.fetch_add(1);
        r.uid = -1;
        r.opstate = reinterpret_cast<std::uint64_t>(obj);
        r.a = a;
        r.b = b;
        r.w = here();
    }
    else if (site == 1103)
    {
        auto id = pika::threads::detail::get_self_id();
        std::uint64_t pt = reinterpret_cast<std::uint64_t>(id.get());
        std::lock_guard<std::mutex> l(cur_mtx);
        cur_chunk[pt] = Cur{reinterpret_cast<std::uint64_t>(obj), int(b), int(a)};
    }
}

struct Op
{
    int pool = 1;
    char prio = 'n';
    bool hinted = false;
    int hint = 0;
    int n = 1;
    int pred = 0;      // 0 schedule 1 schedule|then 2 transfer_just 3 just|continues_on 4 other pool|continues_on 5 bulk|bulk
    int ctx = 0;       // 0 external thread, 1 task on the default pool, 2 task on the bulk pool
    int fmode = 0;     // 0 plain, 1 yields now and then, 2 short busy wait
    Where sub;         // where start_detached was called
    std::atomic<int> calls{0};
    std::atomic<int> completed{0};
};
constexpr int MAXOPS = 4096;
static Op* ops = new Op[MAXOPS];
static std::atomic<int> ndone{0};
static std::mutex keep_mtx;
static std::vector<pika::threads::detail::thread_id_ref_type> keep;    // task ids are not recycled during a case

static ex::thread_pool_scheduler sched_of(Op const& o)
{
    ex::thread_pool_scheduler s{&pika::resource::get_thread_pool(g_pools[o.pool].name)};
    if (o.prio == 'h') s = ex::with_priority(s, thread_priority::high);
    else if (o.prio == 'l') s = ex::with_priority(s, thread_priority::low);
    if (o.hinted) s = ex::with_hint(s, thread_schedule_hint(std::int16_t(o.hint)));
    return s;
}

static void body(int uid, int i)
{
    Op& o = ops[uid];
    int r = nrec.fetch_add(1);
    if (r < MAXR)
    {
        Rec& x = recs[r];
        x.kind = 'F';
        x.seq = gseq.fetch_add(1);
        x.uid = uid;
        x.i = i;
        x.w = here();
        {
            std::lock_guard<std::mutex> l(cur_mtx);
            auto it = cur_chunk.find(x.w.ptid);
            if (it != cur_chunk.end())
            {
                x.opstate = it->second.opstate;
                x.k = it->second.k;
                x.idx = it->second.idx;
            }
            else
            {
                x.opstate = 0;
                x.k = -1;
                x.idx = -1;
            }
        }
        {
            pika::threads::detail::thread_id_ref_type k(pika::threads::detail::get_self_id());
            std::lock_guard<std::mutex> l(keep_mtx);
            keep.push_back(std::move(k));
        }
    }
    o.calls.fetch_add(1);
    if (o.fmode == 1 && (i % 3) == 0) pika::this_thread::yield();
    else if (o.fmode == 2)
    {
        auto t0 = std::chrono::steady_clock::now();
        while (std::chrono::steady_clock::now() - t0 < std::chrono::microseconds(30)) {}
    }
}

static void start_op(int uid)
{
    Op& o = ops[uid];
    o.sub = here();
    if (o.sub.ptid != 0)
    {
        // the id of the starting task must not be recycled for a worker task of this case
        pika::threads::detail::thread_id_ref_type k(pika::threads::detail::get_self_id());
        std::lock_guard<std::mutex> l(keep_mtx);
        keep.push_back(std::move(k));
    }
    auto s = sched_of(o);
    int n = o.n;
    auto fin = [uid] {
        return ex::then([uid] {
            ops[uid].completed.fetch_add(1);
            ndone.fetch_add(1);
        });
    };
    auto f = [uid](int i) { body(uid, i); };
    switch (o.pred)
    {
    case 0: ex::start_detached(ex::schedule(s) | ex::bulk(n, f) | fin()); break;
    case 1: ex::start_detached(ex::schedule(s) | ex::then([] {}) | ex::bulk(n, f) | fin()); break;
    case 2:
        ex::start_detached(ex::transfer_just(s, 7) | ex::bulk(n, [uid](int i, int& v) {
            if (v != 7) std::abort();
            body(uid, i);
        }) | ex::then([uid](int) {
            ops[uid].completed.fetch_add(1);
            ndone.fetch_add(1);
        }));
        break;
    case 3: ex::start_detached(ex::just() | ex::continues_on(s) | ex::bulk(n, f) | fin()); break;
    case 4:
    {
        ex::thread_pool_scheduler other{&pika::resource::get_thread_pool(g_pools.size() > 2 ? "B" : "default")};
        ex::start_detached(ex::schedule(other) | ex::then([] {}) | ex::continues_on(s) | ex::bulk(n, f) | fin());
        break;
    }
    default:
        // bulk after bulk: the second set_value runs in whichever task of the first finishes last
        ex::start_detached(ex::schedule(s) | ex::bulk(3, [](int) {}) | ex::bulk(n, f) | fin());
        break;
    }
}

int main(int argc, char** argv)
{
    if (argc < 4) return 2;
    std::uint64_t seed = std::strtoull(argv[1], nullptr, 10);
    int caseno = std::atoi(argv[2]);
    int nops = std::min(std::atoi(argv[3]), MAXOPS);
    Rng r(seed * 1000003u + std::uint64_t(caseno) * 7919u + 11u);

    static char const* pols[] = {"static", "static-priority", "local", "local-priority-fifo", "local-priority-lifo",
        "abp-priority-fifo", "abp-priority-lifo"};
    PoolSpec d, a, b;
    d.name = "default";
    d.policy = pols[3 + r.below(4)];
    d.W = 1 + r.below(2);
    a.name = "A";
    a.policy = (caseno % 3 != 2) ? pols[r.below(2)] : pols[2 + r.below(5)];    // two thirds static policies
    a.W = 1 + r.below(5);
    g_pools.push_back(d);
    g_pools.push_back(a);
    if (r.below(2))
    {
        b.name = "B";
        b.policy = pols[r.below(7)];
        b.W = 1 + r.below(2);
        g_pools.push_back(b);
    }
    int total = 0;
    for (auto& p : g_pools)
    {
        policy_props(p);
        p.H = p.W;
        p.offset = total;
        total += p.W;
    }
    std::string a0 = argv[0], a1 = "--pika:threads=" + std::to_string(total), a2 = "--pika:scheduler=" + g_pools[0].policy;
    std::vector<char*> av = {a0.data(), a1.data(), a2.data(), nullptr};
    pika::init_params ip;
    ip.rp_callback = &rp_callback;
    pika::start(3, av.data(), ip);
    for (auto& p : g_pools)
    {
        auto& pool = pika::resource::get_thread_pool(p.name);
        if (int(pool.get_os_thread_count()) != p.W)
        {
            std::printf("TIEFAIL pool %s has %zu threads, expected %d\n", p.name.c_str(), pool.get_os_thread_count(), p.W);
            std::fflush(stdout);
            std::_Exit(3);
        }
    }
    pika::verif::hook.store(&hook_fn);

    int W = g_pools[1].W;
    for (int u = 0; u < nops; ++u)
    {
        Op& o = ops[u];
        o.pool = 1;
        int pr = r.below(10);
        o.prio = pr < 7 ? 'n' : (pr < 9 ? 'h' : 'l');
        o.hinted = r.below(3) == 0;
        if (o.hinted)
        {
            int c = r.below(6);
            o.hint = c < 3 ? r.below(W) : (c == 3 ? W + r.below(40) : (c == 4 ? -2 - r.below(30) : -1));
        }
        int c = r.below(8);
        o.n = c == 0 ? 1 + r.below(W) : (c < 5 ? 1 + r.below(8 * W + 4) : 1 + r.below(300));
        o.pred = r.below(6);
        o.ctx = r.below(3);
        o.fmode = r.below(3);
    }
    // start the operations: two external threads; ops with ctx 1/2 are started from tasks
    auto starter = [&](int lo, int hi) {
        for (int u = lo; u < hi; ++u)
        {
            if (ops[u].ctx == 0) start_op(u);
            else
            {
                ex::thread_pool_scheduler s{&pika::resource::get_thread_pool(ops[u].ctx == 1 ? "default" : "A")};
                ex::execute(s, [u] { start_op(u); });
            }
            if ((u & 3) == 3)
            {
                // let some of them drain so that not everything overlaps
                auto t0 = std::chrono::steady_clock::now();
                while (ndone.load() < u - 6 && std::chrono::steady_clock::now() - t0 < std::chrono::milliseconds(200))
                    std::this_thread::yield();
            }
        }
    };
    std::thread t0(starter, 0, nops / 2), t1(starter, nops / 2, nops);
    t0.join();
    t1.join();
    auto tw = std::chrono::steady_clock::now();
    while (ndone.load() < nops && std::chrono::steady_clock::now() - tw < std::chrono::seconds(30))
        std::this_thread::sleep_for(std::chrono::milliseconds(1));
    bool ok = ndone.load() >= nops;
    pika::verif::hook.store(nullptr);

    // ---------------------------------------------------------------- output
    for (std::size_t i = 0; i < g_pools.size(); ++i)
    {
        auto const& p = g_pools[i];
        std::printf("POOL %d %zu %s %s %d %d %d %d %d %d\n", caseno, i, p.name.c_str(), p.policy.c_str(), p.W, p.H, p.prio,
            p.steal, p.elastic, p.offset);
    }
    int nr = std::min(nrec.load(), MAXR);
    std::vector<Rec*> order;
    for (int i = 0; i < nr; ++i) order.push_back(&recs[i]);
    std::sort(order.begin(), order.end(), [](Rec* x, Rec* y) { return x->seq < y->seq; });
    // F records -> their set_value record: the latest 'V' with the same op_state before the F
    std::map<std::uint64_t, Rec*> lastv;
    std::vector<Rec*> sv_of(nops, nullptr);
    for (Rec* x : order)
    {
        if (x->kind == 'V') lastv[x->opstate] = x;
        else if (x->uid >= 0 && x->uid < nops && !sv_of[x->uid])
        {
            auto it = lastv.find(x->opstate);
            if (it != lastv.end())
            {
                sv_of[x->uid] = it->second;
                it->second->uid = x->uid;
            }
        }
    }
    std::string poolstr;
    for (auto const& p : g_pools)
    {
        if (!poolstr.empty()) poolstr += ",";
        poolstr += std::to_string(p.W) + ":" + std::to_string(p.H) + ":" + std::to_string(p.prio) + ":" + std::to_string(p.steal) + ":" + std::to_string(p.elastic);
    }
    for (int u = 0; u < nops; ++u)
    {
        Op& o = ops[u];
        Rec* v = sv_of[u];
        std::printf("OP %d %d pool=%d prio=%c hint=%s n=%d pred=%d ctx=%d fmode=%d calls=%d completed=%d subpt=%llx subos=%llx\n", caseno, u,
            o.pool, o.prio, o.hinted ? std::to_string(o.hint).c_str() : "x", o.n, o.pred, o.ctx, o.fmode, o.calls.load(),
            o.completed.load(), (unsigned long long) o.sub.ptid, (unsigned long long) o.sub.ostid);
        if (v)
            std::printf("SV %d %d c=%llu nchunks=%llu pool=%d lw=%d pt=%llx os=%llx\n", caseno, u, (unsigned long long) v->a,
                (unsigned long long) v->b, v->w.pool, v->w.lw, (unsigned long long) v->w.ptid, (unsigned long long) v->w.ostid);
    }
    std::vector<std::set<std::tuple<int, int, int>>> obs(nops);
    for (Rec* x : order)
    {
        if (x->kind != 'F' || x->uid < 0 || x->uid >= nops) continue;
        std::printf("F %d %d i=%d k=%d idx=%d pool=%d lw=%d pt=%llx os=%llx\n", caseno, x->uid, x->i, x->k, x->idx, x->w.pool, x->w.lw,
            (unsigned long long) x->w.ptid, (unsigned long long) x->w.ostid);
        obs[x->uid].insert({x->k, x->w.pool, x->w.lw});
    }
    for (int u = 0; u < nops; ++u)
    {
        Op& o = ops[u];
        Rec* v = sv_of[u];
        if (!v) continue;
        std::string s;
        for (auto const& t : obs[u])
        {
            if (!s.empty()) s += ";";
            s += std::to_string(std::get<0>(t)) + ":" + std::to_string(std::get<1>(t)) + ":" + std::to_string(std::get<2>(t));
        }
        std::printf("IN BULK %d.%d pools=%s pool=%d prio=%c hint=%s n=%d lw=%d obs=%s\n", caseno, u, poolstr.c_str(), o.pool, o.prio,
            o.hinted ? std::to_string(o.hint).c_str() : "x", o.n, v->w.lw, s.c_str());
        std::printf("OUT BULK %d.%d %s\n", caseno, u, s.c_str());
    }
    std::printf("DONE %d completed=%d ops=%d done=%d records=%d\n", caseno, ok ? 1 : 0, nops, ndone.load(), nr);
    std::fflush(stdout);
    if (!ok) std::_Exit(4);
    {
        std::lock_guard<std::mutex> l(keep_mtx);
        keep.clear();
    }
    pika::finalize();
    pika::stop();
    return 0;
}
