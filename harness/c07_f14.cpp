// C07 / F14 replay (known defect, plain OS threads): the witness of
// C07_os_timed_wait_blocks_notifier_refuted on the real code.  OS thread X calls
// condition_variable_any::wait_for(lock, 400 ms) (default agent: sleep_until never marks the agent as not
// running); OS thread Y calls notify_one() 50 ms later (default_agent::resume waits until the target is not
// running, holding the cv's internal lock).  Expected by the property: notify_one returns at once and X
// reports no_timeout.  Observed: neither returns.  Bounded by a watchdog; never hangs the check.
// A control run (untimed wait) must complete.
#include <pika/concurrency/spinlock.hpp>
#include <pika/synchronization/condition_variable.hpp>

#include <atomic>
#include <chrono>
#include <cstdio>
#include <mutex>
#include <thread>
#include <unistd.h>

using namespace std::chrono_literals;
using clk = std::chrono::steady_clock;
using spinlock = pika::concurrency::detail::spinlock;

int main(int argc, char** argv)
{
    bool timed = !(argc > 1 && argv[1][0] == 'u');
    static spinlock m;
    static pika::condition_variable_any cv;
    static std::atomic<bool> registered{false}, waiter_ret{false}, notifier_ret{false};
    static std::atomic<int> status{-1};
    std::printf("IN F14 0 waiter=os_thread wait=%s notifier=os_thread notify_after_ms=50\n", timed ? "wait_for(400ms)" : "wait");
    std::fflush(stdout);
    std::thread X([&] {
        std::unique_lock<spinlock> lk(m);
        registered = true;
        if (timed)
        {
            auto st = cv.wait_for(lk, 400ms);
            status = st == pika::cv_status::no_timeout ? 0 : 1;
        }
        else
        {
            cv.wait(lk);
            status = 0;
        }
        waiter_ret = true;
    });
    while (!registered) std::this_thread::sleep_for(1ms);
    std::this_thread::sleep_for(50ms);
    auto t0 = clk::now();
    std::thread Y([&] {
        { std::unique_lock<spinlock> lk(m); }    // acquired U after the waiter released it
        cv.notify_one();
        notifier_ret = true;
    });
    long notify_ms = -1;
    for (int i = 0; i < 300; ++i)    // watchdog: 3 s
    {
        if (notifier_ret && notify_ms < 0)
            notify_ms = (long) std::chrono::duration_cast<std::chrono::milliseconds>(clk::now() - t0).count();
        if (notifier_ret && waiter_ret) break;
        std::this_thread::sleep_for(10ms);
    }
    std::printf("OUT F14 0 notifier_returned=%d notify_ms=%ld waiter_returned=%d status=%d\n", (int) notifier_ret.load(), notify_ms,
        (int) waiter_ret.load(), status.load());
    std::fflush(stdout);
    _exit(0);
}
