// harness/common/c03_util.hpp — shared pieces of the C03 harnesses: ledgered payloads, channel
// leaf senders (inline / later-from-another-thread / manually fired), counting terminal
// receiver, a trivial scheduler, an s-expression reader.
#pragma once
#include <pika/execution.hpp>
#include <pika/execution_base/any_sender.hpp>

#include <atomic>
#include <condition_variable>
#include <cstdint>
#include <cstdio>
#include <cstdlib>
#include <deque>
#include <exception>
#include <functional>
#include <map>
#include <mutex>
#include <sstream>
#include <string>
#include <thread>
#include <tuple>
#include <vector>

namespace c03 {
    namespace ex = pika::execution::experimental;

    // ------------------------------------------------------------------ ledgered payload
    struct Ledger
    {
        std::atomic<long> ctor{0}, dtor{0}, bad{0};
        void reset() { ctor = 0; dtor = 0; bad = 0; }
        long live() const { return ctor.load() - dtor.load(); }
    };
    inline Ledger g_led;

    // operation states of the harness' leaf senders and scheduler senders (never moved): where they
    // are alive relative to the completion signal is predicted by Model/SenderLedger.v
    struct OpLedger
    {
        std::atomic<long> leaf_c{0}, leaf_d{0}, sched_c{0}, sched_d{0};
        long sig_leaf = -1, sig_sched = -1;    // alive when the terminal receiver is called (first signal)
        long del_leaf = -1, del_sched = -1;    // alive right after the receiver destroyed the operation state
        void reset()
        {
            leaf_c = 0; leaf_d = 0; sched_c = 0; sched_d = 0;
            sig_leaf = sig_sched = del_leaf = del_sched = -1;
        }
        long leaf_live() const { return leaf_c.load() - leaf_d.load(); }
        long sched_live() const { return sched_c.load() - sched_d.load(); }
    };
    inline OpLedger g_ops;

    struct P
    {
        long v;
        std::uint32_t magic;
        static constexpr std::uint32_t ALIVE = 0xA11CE5u;
        explicit P(long x = 0) noexcept : v(x), magic(ALIVE) { ++g_led.ctor; }
        P(P const& o) noexcept : v(o.v), magic(ALIVE)
        {
            if (o.magic != ALIVE) ++g_led.bad;    // copy of a destroyed object
            ++g_led.ctor;
        }
        P(P&& o) noexcept : v(o.v), magic(ALIVE)
        {
            if (o.magic != ALIVE) ++g_led.bad;
            ++g_led.ctor;
        }
        P& operator=(P const& o) noexcept
        {
            if (o.magic != ALIVE || magic != ALIVE) ++g_led.bad;
            v = o.v;
            return *this;
        }
        P& operator=(P&& o) noexcept
        {
            if (o.magic != ALIVE || magic != ALIVE) ++g_led.bad;
            v = o.v;
            return *this;
        }
        ~P()
        {
            if (magic != ALIVE) ++g_led.bad;    // destroyed twice
            magic = 0xDEADu;
            ++g_led.dtor;
        }
    };
    using V = std::vector<P>;

    inline V mkV(std::vector<long> const& xs)
    {
        V v;
        v.reserve(xs.size());
        for (long x : xs) v.emplace_back(x);
        return v;
    }
    inline long sumV(V const& v)
    {
        long s = 0;
        for (auto const& p : v) s += p.v;
        return s;
    }

    struct vexn
    {
        long id;
    };
    inline long exn_id(std::exception_ptr const& ep)
    {
        try
        {
            std::rethrow_exception(ep);
        }
        catch (vexn const& e)
        {
            return e.id;
        }
        catch (...)
        {
            return -1;
        }
    }

    // ------------------------------------------------------------------ completer thread
    struct Completer
    {
        std::mutex m;
        std::condition_variable cv, idle_cv;
        std::deque<std::function<void()>> q;
        bool running = false, stop = false;
        std::thread th;
        void ensure()
        {
            if (!th.joinable()) th = std::thread([this] { loop(); });
        }
        void loop()
        {
            std::unique_lock l(m);
            for (;;)
            {
                cv.wait(l, [&] { return stop || !q.empty(); });
                if (stop && q.empty()) return;
                auto f = std::move(q.front());
                q.pop_front();
                running = true;
                l.unlock();
                f();
                f = nullptr;
                l.lock();
                running = false;
                idle_cv.notify_all();
            }
        }
        void post(std::function<void()> f)
        {
            ensure();
            std::lock_guard l(m);
            q.push_back(std::move(f));
            cv.notify_one();
        }
        bool wait_idle(int ms = 10000)
        {
            std::unique_lock l(m);
            return idle_cv.wait_for(
                l, std::chrono::milliseconds(ms), [&] { return q.empty() && !running; });
        }
        void shutdown()
        {
            {
                std::lock_guard l(m);
                stop = true;
                cv.notify_all();
            }
            if (th.joinable()) th.join();
        }
    };
    inline Completer g_comp;

    // exceptions created by leaves, to check that "the same exception" arrives
    inline std::mutex g_ep_m;
    inline std::vector<std::exception_ptr> g_leaf_eps;
    inline std::exception_ptr leaf_exception(long id)
    {
        auto ep = std::make_exception_ptr(vexn{id});
        std::lock_guard l(g_ep_m);
        g_leaf_eps.push_back(ep);
        return ep;
    }

    // ------------------------------------------------------------------ leaf sender
    enum Chan { VAL = 0, ERR = 1, STP = 2 };
    template <bool SendsDone>
    struct leaf_t
    {
        int chan = VAL;
        V vals;
        long e = 0;
        bool async = false;

        template <template <class...> class T, template <class...> class Var>
        using value_types = Var<T<V>>;
        template <template <class...> class Var>
        using error_types = Var<std::exception_ptr>;
        static constexpr bool sends_done = SendsDone;

        template <class R>
        struct op
        {
            R r;
            leaf_t l;
            op(R&& r_, leaf_t&& l_) : r(std::move(r_)), l(std::move(l_)) { ++g_ops.leaf_c; }
            op(op&&) = delete;
            ~op() { ++g_ops.leaf_d; }
            void fire() noexcept
            {
                switch (l.chan)
                {
                case VAL: ex::set_value(std::move(r), std::move(l.vals)); break;
                case ERR: ex::set_error(std::move(r), leaf_exception(l.e)); break;
                default: ex::set_stopped(std::move(r)); break;
                }
            }
            void start() & noexcept
            {
                if (l.async)
                    g_comp.post([this] { fire(); });
                else
                    fire();
            }
        };
        template <class R>
        op<std::decay_t<R>> connect(R&& r) &&
        {
            return {std::decay_t<R>(std::forward<R>(r)), std::move(*this)};
        }
        template <class R>
        op<std::decay_t<R>> connect(R&& r) const&
        {
            return {std::decay_t<R>(std::forward<R>(r)), leaf_t(*this)};
        }
    };
    using leaf = leaf_t<true>;

    // ------------------------------------------------------------------ scheduler
    struct hsched_data
    {
        int kind = VAL;    // what schedule() completes with
        long e = 0;
        bool async = false;
    };
    struct hsched_sender
    {
        hsched_data s;
        template <template <class...> class T, template <class...> class Var>
        using value_types = Var<T<>>;
        template <template <class...> class Var>
        using error_types = Var<std::exception_ptr>;
        static constexpr bool sends_done = true;
        template <class R>
        struct op
        {
            R r;
            hsched_data s;
            op(R&& r_, hsched_data s_) : r(std::move(r_)), s(s_) { ++g_ops.sched_c; }
            op(op&&) = delete;
            ~op() { ++g_ops.sched_d; }
            void fire() noexcept
            {
                switch (s.kind)
                {
                case VAL: ex::set_value(std::move(r)); break;
                case ERR: ex::set_error(std::move(r), leaf_exception(s.e)); break;
                default: ex::set_stopped(std::move(r)); break;
                }
            }
            void start() & noexcept
            {
                if (s.async)
                    g_comp.post([this] { fire(); });
                else
                    fire();
            }
        };
        template <class R>
        op<std::decay_t<R>> connect(R&& r) const
        {
            return {std::decay_t<R>(std::forward<R>(r)), s};
        }
    };
    struct hsched : hsched_data
    {
        hsched() = default;
        hsched(int k, long e_, bool a) { kind = k; e = e_; async = a; }
        bool operator==(hsched const& o) const { return kind == o.kind && e == o.e && async == o.async; }
        bool operator!=(hsched const& o) const { return !(*this == o); }
        friend hsched_sender tag_invoke(ex::schedule_t, hsched const& s) { return hsched_sender{s}; }
    };

    // ------------------------------------------------------------------ terminal receiver
    struct Obs
    {
        std::atomic<int> n{0};
        int chan = -1;
        std::vector<long> vals;
        long e = 0;
        int same = -1;    // 1: exception_ptr identical to one a leaf created, 0: same id but another object
        std::mutex m;
        std::function<void()> on_first;    // e.g. destroy the operation state from inside the receiver
        void record(int c, V const* v, std::exception_ptr const* ep)
        {
            bool first = false;
            {
                std::lock_guard l(m);
                first = record_locked(c, v, ep);
            }
            if (first && on_first)
            {
                auto f = std::move(on_first);
                on_first = nullptr;
                f();
                g_ops.del_leaf = g_ops.leaf_live();
                g_ops.del_sched = g_ops.sched_live();
            }
        }
        bool record_locked(int c, V const* v, std::exception_ptr const* ep)
        {
            if (n.fetch_add(1) == 0)
            {
                g_ops.sig_leaf = g_ops.leaf_live();
                g_ops.sig_sched = g_ops.sched_live();
                chan = c;
                if (v)
                    for (auto const& p : *v) vals.push_back(p.v);
                if (ep)
                {
                    e = exn_id(*ep);
                    std::lock_guard l2(g_ep_m);
                    bool idseen = false;
                    same = -1;
                    for (auto const& x : g_leaf_eps)
                    {
                        if (x == *ep) { same = 1; break; }
                        if (exn_id(x) == e) idseen = true;
                    }
                    if (same != 1 && idseen) same = 0;
                }
                return true;
            }
            return false;
        }
        std::string result() const
        {
            int k = n.load();
            if (k == 0) return "none";
            if (k > 1) return "multi" + std::to_string(k);
            std::ostringstream o;
            if (chan == VAL)
            {
                o << "V:";
                for (size_t i = 0; i < vals.size(); ++i) o << (i ? "," : "") << vals[i];
            }
            else if (chan == ERR) o << "E:" << e;
            else o << "S";
            return o.str();
        }
    };
    struct term_rcv
    {
        Obs* o;
        void set_value(V v) && noexcept { o->record(VAL, &v, nullptr); }
        void set_value(V const& v, int) && noexcept { o->record(VAL, &v, nullptr); }
        void set_error(std::exception_ptr ep) && noexcept { o->record(ERR, nullptr, &ep); }
        template <class E>
        void set_error(E&&) && noexcept
        {
            std::exception_ptr ep;
            o->record(ERR, nullptr, &ep);
        }
        void set_stopped() && noexcept { o->record(STP, nullptr, nullptr); }
        constexpr ex::empty_env get_env() const noexcept { return {}; }
    };
    // receiver for senders that send V const& (split) or V&& — copies
    struct term_rcv_any
    {
        Obs* o;
        template <class T>
        void set_value(T&& v) && noexcept
        {
            V c(v);
            o->record(VAL, &c, nullptr);
        }
        void set_error(std::exception_ptr ep) && noexcept { o->record(ERR, nullptr, &ep); }
        void set_stopped() && noexcept { o->record(STP, nullptr, nullptr); }
        constexpr ex::empty_env get_env() const noexcept { return {}; }
    };

    // ------------------------------------------------------------------ s-expressions
    struct Sx
    {
        std::string atom;
        std::vector<Sx> kids;
        bool is_atom() const { return !atom.empty(); }
        std::string const& head() const { return kids.at(0).atom; }
        long num(size_t i) const { return std::strtol(kids.at(i).atom.c_str(), nullptr, 10); }
    };
    inline Sx parse_sx(std::string const& s, size_t& i)
    {
        while (i < s.size() && s[i] == ' ') ++i;
        Sx x;
        if (i < s.size() && s[i] == '(')
        {
            ++i;
            for (;;)
            {
                while (i < s.size() && s[i] == ' ') ++i;
                if (i >= s.size()) break;
                if (s[i] == ')') { ++i; break; }
                x.kids.push_back(parse_sx(s, i));
            }
            return x;
        }
        size_t j = i;
        while (j < s.size() && s[j] != ' ' && s[j] != '(' && s[j] != ')') ++j;
        x.atom = s.substr(i, j - i);
        i = j;
        return x;
    }
    inline Sx parse_sx(std::string const& s)
    {
        size_t i = 0;
        return parse_sx(s, i);
    }
}    // namespace c03
