// harness/common/c01_sched.hpp — TRACE-mode harness shared by C01 (c01_trace.cpp) and C02
// (c02_wake.cpp): runs generated task programs on the REAL pika runtime, with
//   * a hook (pika::verif::hook) that LOGS every successful transition of a task's state word
//     (old word incl. tag, new word, site), body entry/exit, queue push/pop, the set_thread_state /
//     set_active_state / cv-wait windows, into lock-free per-OS-thread buffers, and PERTURBS the
//     schedule (seeded random spins / yields / short sleeps) exactly at those windows;
//   * monitors that are independent of the Coq model: per-task entry/exit counters, an
//     "occupied by worker w" word around every body phase, user-level occupancy inside the bodies,
//     a completion ledger, queue discipline (a push always sees a pending word; never two pushes
//     for the same tag), and a quiescence watchdog that turns a lost wake-up / dropped task into a
//     reported hit instead of a hang;
//   * per thread-object incarnation, the tag-ordered chain of state-word transitions printed as
//     `IN CHAIN ...` for the extracted acceptor (ocaml/drv_c01.ml) together with the number of
//     body entries observed (`OUT CHAIN ... acc=1 acts=k`).
#pragma once
#include <pika/config.hpp>
#include <pika/concurrency/spinlock.hpp>
#include <pika/condition_variable.hpp>
#include <pika/execution_base/this_thread.hpp>
#include <pika/init.hpp>
#include <pika/latch.hpp>
#include <pika/mutex.hpp>
#include <pika/errors/exception.hpp>
#include <pika/semaphore.hpp>
#include <pika/threading_base/register_thread.hpp>
#include <pika/threading_base/scheduler_base.hpp>
#include <pika/threading_base/set_thread_state.hpp>
#include <pika/threading_base/thread_data.hpp>
#include <pika/threading_base/thread_helpers.hpp>
#include <pika/threading_base/thread_pool_base.hpp>

#include <algorithm>
#include <atomic>
#include <chrono>
#include <cstdint>
#include <cstdio>
#include <cstdlib>
#include <cstring>
#include <map>
#include <memory>
#include <mutex>
#include <string>
#include <thread>
#include <unistd.h>
#include <vector>

#if !defined(PIKA_VERIF)
#error "harnesses must be compiled with -DPIKA_VERIF"
#endif

namespace vt {
    using namespace pika::threads::detail;
    namespace ex = pika::execution;

    // ------------------------------------------------------------------ log
    struct Rec
    {
        std::uint64_t seq;
        std::int32_t site;
        std::uint32_t os;
        void const* obj;
        std::uint64_t a, b;
    };
    struct Chunk
    {
        static constexpr std::uint32_t N = 4096;
        Rec r[N];
        std::atomic<std::uint32_t> n{0};
        std::atomic<Chunk*> next{nullptr};
    };
    struct Buf
    {
        Chunk* head;
        Chunk* cur;
        std::uint64_t rng;
        std::uint32_t os;
        // reader state
        Chunk* rchunk;
        std::uint32_t ridx;
    };
    inline std::atomic<std::uint64_t> g_seq{1};
    inline std::mutex g_reg_m;
    inline std::vector<Buf*> g_bufs;
    inline thread_local Buf* t_buf = nullptr;
    inline std::uint64_t g_seed = 1;
    inline int g_perturb = 2;    // 0 off, 1 light, 2 strong
    inline bool g_c02 = false;   // stronger perturbation at the wake-up windows

    inline std::uint64_t splitmix(std::uint64_t& s)
    {
        std::uint64_t z = (s += 0x9e3779b97f4a7c15ull);
        z = (z ^ (z >> 30)) * 0xbf58476d1ce4e5b9ull;
        z = (z ^ (z >> 27)) * 0x94d049bb133111ebull;
        return z ^ (z >> 31);
    }
    struct Rng
    {
        std::uint64_t s;
        explicit Rng(std::uint64_t seed)
          : s(seed * 0x2545F4914F6CDD1Dull + 77)
        {
        }
        std::uint64_t next() { return splitmix(s); }
        int below(int n) { return n <= 0 ? 0 : int(next() % std::uint64_t(n)); }
        bool chance(int num, int den) { return below(den) < num; }
    };

    inline Buf* get_buf()
    {
        Buf* b = t_buf;
        if (b) return b;
        b = new Buf;
        b->head = b->cur = new Chunk;
        b->rchunk = b->head;
        b->ridx = 0;
        {
            std::lock_guard<std::mutex> l(g_reg_m);
            b->os = std::uint32_t(g_bufs.size());
            b->rng = g_seed * 1000003ull + b->os * 7919ull + 13;
            g_bufs.push_back(b);
        }
        t_buf = b;
        return b;
    }

    // ------------------------------------------------------------------ occupancy monitor
    struct Slot
    {
        std::atomic<void const*> key{nullptr};
        std::atomic<std::uint64_t> occ{0};
    };
    constexpr std::size_t OCC_N = 1u << 16;
    inline Slot g_occ[OCC_N];
    inline std::atomic<int> g_occ_viol{0};
    inline std::atomic<std::uint64_t> g_occ_detail[4];
    inline Slot* occ_slot(void const* p)
    {
        std::size_t h = (reinterpret_cast<std::uintptr_t>(p) >> 6) * 0x9E3779B1u;
        for (std::size_t i = 0; i < OCC_N; ++i)
        {
            Slot& s = g_occ[(h + i) & (OCC_N - 1)];
            void const* k = s.key.load(std::memory_order_acquire);
            if (k == p) return &s;
            if (k == nullptr)
            {
                void const* e = nullptr;
                if (s.key.compare_exchange_strong(e, p, std::memory_order_acq_rel)) return &s;
                if (e == p) return &s;
            }
        }
        return nullptr;
    }

    inline void spin(int n)
    {
        for (int i = 0; i < n; ++i) PIKA_SMT_PAUSE;
    }

    inline void perturb(Buf* b, int site)
    {
        if (g_perturb == 0) return;
        std::uint64_t r = splitmix(b->rng);
        bool window = (site >= 201 && site <= 206);
        if (window)
        {
            int k = int(r & 63);
            int heavy = g_c02 ? 2 : 1;
            if (k < 24 * heavy / 2 + 8) spin(int((r >> 8) % (g_perturb == 2 ? 3000 : 300)));
            else if (k < 40) std::this_thread::yield();
            else if (k < 40 + 3 * heavy && g_perturb == 2)
            {
                timespec ts{0, long(20000 + (r >> 16) % 80000)};
                nanosleep(&ts, nullptr);
            }
        }
        else if (site == 110 || site == 111 || site == 120 || site == 121 || site == 103 || site == 102)
        {
            int k = int(r & 31);
            if (k < 5) spin(int((r >> 8) % 400));
            else if (k == 5 && g_perturb == 2) std::this_thread::yield();
        }
    }

    inline void hookfn(int site, void const* obj, std::uint64_t a, std::uint64_t b)
    {
        if (site < 100 || site > 299) return;
        Buf* bf = get_buf();
        Chunk* c = bf->cur;
        std::uint32_t n = c->n.load(std::memory_order_relaxed);
        if (n == Chunk::N)
        {
            Chunk* nc = new Chunk;
            c->next.store(nc, std::memory_order_release);
            bf->cur = c = nc;
            n = 0;
        }
        Rec& r = c->r[n];
        r.seq = g_seq.fetch_add(1, std::memory_order_relaxed);
        r.site = site;
        r.os = bf->os;
        r.obj = obj;
        r.a = a;
        r.b = b;
        c->n.store(n + 1, std::memory_order_release);
        if (site == 110)
        {
            if (Slot* s = occ_slot(obj))
            {
                std::uint64_t old = s->occ.exchange(a + 1, std::memory_order_acq_rel);
                if (old != 0 && g_occ_viol.fetch_add(1) == 0)
                {
                    g_occ_detail[0] = reinterpret_cast<std::uintptr_t>(obj);
                    g_occ_detail[1] = old - 1;
                    g_occ_detail[2] = a;
                    g_occ_detail[3] = b;
                }
            }
        }
        else if (site == 111)
        {
            if (Slot* s = occ_slot(obj))
            {
                std::uint64_t old = s->occ.exchange(0, std::memory_order_acq_rel);
                if (old != a + 1 && g_occ_viol.fetch_add(1) == 0)
                {
                    g_occ_detail[0] = reinterpret_cast<std::uintptr_t>(obj);
                    g_occ_detail[1] = old - 1;
                    g_occ_detail[2] = a;
                    g_occ_detail[3] = 111;
                }
            }
        }
        perturb(bf, site);
    }

    // drain everything logged so far (the runtime is quiescent when this is called; concurrent
    // late writers are tolerated: only published records are read)
    inline void drain(std::vector<Rec>& out)
    {
        std::vector<Buf*> bufs;
        {
            std::lock_guard<std::mutex> l(g_reg_m);
            bufs = g_bufs;
        }
        for (Buf* b : bufs)
        {
            for (;;)
            {
                Chunk* c = b->rchunk;
                std::uint32_t n = c->n.load(std::memory_order_acquire);
                while (b->ridx < n) out.push_back(c->r[b->ridx++]);
                if (n == Chunk::N)
                {
                    Chunk* nx = c->next.load(std::memory_order_acquire);
                    if (!nx) break;
                    b->rchunk = nx;
                    b->ridx = 0;
                    continue;
                }
                break;
            }
        }
        std::sort(out.begin(), out.end(), [](Rec const& x, Rec const& y) { return x.seq < y.seq; });
    }

    // ------------------------------------------------------------------ word decoding
    inline int w_st(std::uint64_t w) { return int((w >> 56) & 0xff); }
    inline int w_ex(std::uint64_t w) { return int((w >> 48) & 0xff); }
    inline std::uint64_t w_tag(std::uint64_t w) { return w & 0x0000ffffffffffffull; }
    constexpr int ST_ACTIVE = int(thread_schedule_state::active);
    constexpr int ST_PENDING = int(thread_schedule_state::pending);

    // ------------------------------------------------------------------ a test case
    struct Case
    {
        int id = 0;
        std::string kind;
        int K = 0;    // generated tasks
        std::unique_ptr<std::atomic<int>[]> entered, exited, uocc;
        std::atomic<int> done{0};
        std::atomic<int> uocc_viol{0};
        std::atomic<long> shared{0};
        long shared_plain = 0;
        pika::mutex mtx;
        pika::condition_variable_any cv;
        pika::concurrency::detail::spinlock cvm;    // lockable from plain OS threads as well
        bool cv_flag = false;
        std::vector<std::unique_ptr<pika::latch>> latches;
        // direct suspend / resume
        std::unique_ptr<std::atomic<int>[]> reg, flag;
        std::vector<thread_id_ref_type> ids;
        std::unique_ptr<std::atomic<int>[]> idready;
        std::atomic<long> wakeups_issued{0};
        std::atomic<int> stop_inject{0};
        void init(int k)
        {
            K = k;
            entered.reset(new std::atomic<int>[k]);
            exited.reset(new std::atomic<int>[k]);
            uocc.reset(new std::atomic<int>[k]);
            reg.reset(new std::atomic<int>[k]);
            flag.reset(new std::atomic<int>[k]);
            idready.reset(new std::atomic<int>[k]);
            ids.resize(k);
            for (int i = 0; i < k; ++i)
            {
                entered[i] = 0;
                exited[i] = 0;
                uocc[i] = 0;
                reg[i] = 0;
                flag[i] = 0;
                idready[i] = 0;
            }
        }
    };

    struct Begin
    {
        Case* c;
        int i;
        Begin(Case* c_, int i_)
          : c(c_)
          , i(i_)
        {
            c->entered[i].fetch_add(1);
            seg_in();
        }
        void seg_in()
        {
            if (c->uocc[i].fetch_add(1) != 0) c->uocc_viol.fetch_add(1);
        }
        void seg_out() { c->uocc[i].fetch_sub(1); }
        ~Begin()
        {
            seg_out();
            c->exited[i].fetch_add(1);
            c->done.fetch_add(1);
        }
    };
    // every blocking / yielding operation of a body is bracketed: the task is "inside its body"
    // on exactly one worker between two such points
    template <typename F>
    inline void blocking(Begin& b, F&& f)
    {
        b.seg_out();
        f();
        b.seg_in();
    }

    inline ex::thread_priority prio_of(int k)
    {
        switch (k % 4)
        {
        case 0: return ex::thread_priority::normal;
        case 1: return ex::thread_priority::high;    // run_now: thread object created at once
        case 2: return ex::thread_priority::low;
        default: return ex::thread_priority::normal;
        }
    }
    inline ex::thread_stacksize stack_of(int k)
    {
        switch (k % 3)
        {
        case 0: return ex::thread_stacksize::small_;
        case 1: return ex::thread_stacksize::medium;
        default: return ex::thread_stacksize::large;
        }
    }

    template <typename F>
    inline void spawn(F&& f, int prio = 0, int stack = 0)
    {
        thread_init_data data(make_thread_function_nullary(std::forward<F>(f)), "verif-task", prio_of(prio),
            ex::thread_schedule_hint(), stack_of(stack));
        register_work(data);
    }

    inline void yield_now() { pika::execution::this_thread::detail::yield("verif"); }
    inline void yield_boost() { pika::execution::this_thread::detail::yield_k(20, "verif"); }

    // ------------------------------------------------------------------ workloads
    struct Node
    {
        std::vector<int> kids;
        int parent = -1;
        int nyield = 0;
        bool boost = false;
        bool lockm = false;
        bool waitkids = false;
        int prio = 0, stack = 0;
    };
    struct Tree
    {
        std::vector<Node> n;
    };

    inline void gen_tree(Rng& g, Tree& t, int idx, int depth, int maxdepth, int maxk)
    {
        Node& nd0 = t.n[idx];
        nd0.nyield = g.below(3);
        nd0.boost = g.chance(1, 4);
        nd0.lockm = g.chance(1, 4);
        nd0.prio = g.below(4);
        nd0.stack = g.chance(1, 5) ? g.below(3) : 0;
        if (depth >= maxdepth) return;
        int nk = 1 + g.below(3);
        for (int j = 0; j < nk && int(t.n.size()) < maxk; ++j)
        {
            int c = int(t.n.size());
            t.n.push_back(Node{});
            t.n[c].parent = idx;
            t.n[idx].kids.push_back(c);
            gen_tree(g, t, c, depth + 1, maxdepth, maxk);
        }
        t.n[idx].waitkids = !t.n[idx].kids.empty() && g.chance(1, 2);
    }

    inline void tree_body(std::shared_ptr<Case> c, std::shared_ptr<Tree> t, int i)
    {
        Begin b(c.get(), i);
        Node const& nd = t->n[i];
        for (int y = 0; y < nd.nyield; ++y) blocking(b, [] { yield_now(); });
        if (nd.boost) blocking(b, [] { yield_boost(); });
        if (nd.lockm)
        {
            blocking(b, [&] { c->mtx.lock(); });
            long v = c->shared_plain;
            blocking(b, [] { yield_now(); });
            c->shared_plain = v + 1;
            c->mtx.unlock();
            c->shared.fetch_add(1);
        }
        for (int k : nd.kids) spawn([c, t, k] { tree_body(c, t, k); }, t->n[k].prio, t->n[k].stack);
        if (nd.waitkids) blocking(b, [&] { c->latches[i]->wait(); });
        if (nd.parent >= 0 && t->n[nd.parent].waitkids) c->latches[nd.parent]->count_down(1);
    }

    // direct suspend / resume pairs (set_thread_state aimed at a task that may still be active)
    inline void waiter_body(std::shared_ptr<Case> c, int i, int rounds)
    {
        Begin b(c.get(), i);
        c->ids[i] = thread_id_ref_type(get_self_id());
        c->idready[i].store(1, std::memory_order_release);
        for (int r = 1; r <= rounds; ++r)
        {
            c->reg[i].store(r, std::memory_order_release);    // registered as a waiter for round r
            {
                std::lock_guard<pika::concurrency::detail::spinlock> l(c->cvm);
            }
            c->cv.notify_all();    // wakers that run as tasks block on the cv instead of spin-yielding
            while (c->flag[i].load(std::memory_order_acquire) < r)
                blocking(b, [] { pika::execution::this_thread::detail::suspend("verif-wait"); });
        }
    }
    inline void waker_loop(std::shared_ptr<Case> c, int i, int rounds, bool on_pika)
    {
        auto relax = [&] {
            if (on_pika) yield_now();
            else std::this_thread::yield();
        };
        if (on_pika)
        {
            std::unique_lock<pika::concurrency::detail::spinlock> l(c->cvm);
            c->cv.wait(l, [&] { return c->idready[i].load(std::memory_order_acquire) != 0; });
        }
        else
            while (!c->idready[i].load(std::memory_order_acquire)) relax();
        for (int r = 1; r <= rounds; ++r)
        {
            if (on_pika)
            {
                // do not spin-yield: with the per-producer FIFO back-end a task that keeps
                // re-queueing itself can starve a runnable task pushed by another OS thread for
                // ever (fairness, outside C01/C02) — wait on a condition variable instead
                std::unique_lock<pika::concurrency::detail::spinlock> l(c->cvm);
                c->cv.wait(l, [&] { return c->reg[i].load(std::memory_order_acquire) >= r; });
            }
            else
                while (c->reg[i].load(std::memory_order_acquire) < r) relax();
            c->flag[i].store(r, std::memory_order_release);
            c->wakeups_issued.fetch_add(1);
            pika::error_code ec(pika::throwmode::lightweight);
            set_thread_state(c->ids[i].noref(), thread_schedule_state::pending, thread_restart_state::signaled,
                ex::thread_priority::normal, true, ec);
        }
    }

    // ------------------------------------------------------------------ running a case
    struct Runner
    {
        int threads = 2;
        std::string policy;
        std::uint64_t seed = 1;
        long total_events = 0, total_chains = 0, total_tasks = 0;
        int mon_hits = 0;
        double timeout_s = 60.0;
        double stale_limit_s = 4.0;
        bool inconclusive = false;

        thread_pool_base* pool() { return get_self_or_default_pool(); }

        void counts(char const* tag, Case& c)
        {
            auto* p = pool();
            long pend = p->get_thread_count_pending(std::size_t(-1), false);
            long act = p->get_thread_count_active(std::size_t(-1), false);
            long stg = p->get_thread_count_staged(std::size_t(-1), false);
            long sus = p->get_thread_count_suspended(std::size_t(-1), false);
            std::printf("INFO %d %s pending=%ld active=%ld staged=%ld suspended=%ld done=%d/%d wakeups=%ld\n", c.id, tag,
                pend, act, stg, sus, c.done.load(), c.K, c.wakeups_issued.load());
        }

        // wait for the ledger to fill up; a quiescent runtime with work left is a lost wake-up or
        // a dropped task: report it and leave (the process cannot be continued)
        bool wait_done(Case& c, int expected)
        {
            auto t0 = std::chrono::steady_clock::now();
            int quiet = 0;
            // "marked active, on no worker": a task whose id the case has published (ids / idready)
            // is watched; its state word says `active` with an unchanged tag while the occupancy
            // word of its thread object (set at body entry 110, cleared at body exit 111) says
            // that no worker is inside its coroutine.  In the real protocol that combination
            // exists only between the pending->active CAS and the coroutine switch and between
            // the switch back and store_state (a few instructions + the seeded perturbation,
            // < 1 ms); seeing it without interruption for stale_limit_s seconds means that the
            // phase ended without its state being stored: the task can never be resumed
            // (set_thread_state only ever finds it active), whatever wake-up is issued.
            struct Watch
            {
                std::uint64_t word = 0;
                double since = -1.0;
            };
            std::vector<Watch> watch(std::size_t(c.K));
            for (;;)
            {
                if (c.done.load() >= expected) return true;
                std::this_thread::sleep_for(std::chrono::microseconds(200));
                double el = std::chrono::duration<double>(std::chrono::steady_clock::now() - t0).count();
                for (int k = 0; k < c.K; ++k)
                {
                    Watch& wk = watch[std::size_t(k)];
                    if (!c.idready[k].load(std::memory_order_acquire) || c.exited[k].load() != 0)
                    {
                        wk.since = -1.0;
                        continue;
                    }
                    auto* td = get_thread_id_data(c.ids[std::size_t(k)]);
                    std::uint64_t w = static_cast<std::uint64_t>(td->get_state(std::memory_order_relaxed).verif_raw());
                    Slot* sl = occ_slot(td);
                    bool off = sl != nullptr && sl->occ.load(std::memory_order_acquire) == 0;
                    if (w_st(w) == ST_ACTIVE && off)
                    {
                        if (wk.since >= 0 && wk.word == w)
                        {
                            if (el - wk.since > stale_limit_s)
                            {
                                counts("watchdog", c);
                                std::printf("MON %d %s kind=%s task=%d marked active (word st=%d ex=%d tag=%llu) but inside no worker's "
                                            "coroutine for %.1fs: the phase ended and its state was never stored; reg=%d "
                                            "wakeup_issued_for_task=%d done=%d expected=%d wakeups_issued=%ld\n",
                                    c.id, c.flag[k].load() > 0 ? "lost_wakeup" : "stranded_active", c.kind.c_str(), k, w_st(w), w_ex(w),
                                    (unsigned long long) w_tag(w), el - wk.since, c.reg[k].load(), c.flag[k].load(), c.done.load(),
                                    expected, c.wakeups_issued.load());
                                std::fflush(stdout);
                                return false;
                            }
                        }
                        else
                        {
                            wk.word = w;
                            wk.since = el;
                        }
                    }
                    else wk.since = -1.0;
                }
                if (el > 1.0)
                {
                    auto* p = pool();
                    long busy = p->get_thread_count_pending(std::size_t(-1), false) +
                        p->get_thread_count_active(std::size_t(-1), false) +
                        p->get_thread_count_staged(std::size_t(-1), false);
                    quiet = (busy == 0) ? quiet + 1 : 0;
                    // idle for a long stretch (2500 polls of >= 200us each, i.e. well over 0.5 s
                    // without a single runnable task) although tasks are missing from the ledger
                    if (quiet > 2500)
                    {
                        long sus = p->get_thread_count_suspended(std::size_t(-1), false);
                        counts("watchdog", c);
                        std::printf("MON %d %s kind=%s done=%d expected=%d suspended=%ld wakeups_issued=%ld quiet=%d\n", c.id,
                            sus > 0 ? "lost_wakeup" : "dropped", c.kind.c_str(), c.done.load(), expected, sus,
                            c.wakeups_issued.load(), quiet);
                        std::fflush(stdout);
                        return false;
                    }
                    if (el > timeout_s)
                    {
                        // the runtime is NOT quiescent: slow progress and livelock cannot be told
                        // apart by the clock, so this is reported as inconclusive, never as a hit
                        counts("timeout", c);
                        for (int k = 0; k < c.K; ++k)
                            std::printf("INFO %d task %d entered=%d exited=%d reg=%d flag=%d idready=%d\n", c.id, k,
                                c.entered[k].load(), c.exited[k].load(), c.reg[k].load(), c.flag[k].load(), c.idready[k].load());
                        std::printf("INCONCLUSIVE %d kind=%s busy after %.0fs done=%d expected=%d wakeups_issued=%ld\n", c.id,
                            c.kind.c_str(), el, c.done.load(), expected, c.wakeups_issued.load());
                        std::fflush(stdout);
                        inconclusive = true;
                        if (std::getenv("VERIF_DUMP"))
                        {
                            std::vector<Rec> recs;
                            drain(recs);
                            std::map<void const*, std::vector<Rec>> per;
                            for (Rec const& r : recs) per[r.obj].push_back(r);
                            for (auto& [obj, v] : per)
                            {
                                bool term = false;
                                for (Rec const& r : v)
                                    if (r.site == 103 && w_st(r.b) == 4) term = true;
                                if (term || v.size() < 3) continue;
                                std::printf("DUMP obj=%p n=%zu:", obj, v.size());
                                for (std::size_t k = v.size() > 8 ? v.size() - 8 : 0; k < v.size(); ++k)
                                    std::printf(" [%llu s%d os%u %d:%llu->%d:%llu]", (unsigned long long) v[k].seq, v[k].site, v[k].os,
                                        w_st(v[k].a), (unsigned long long) w_tag(v[k].a), w_st(v[k].b), (unsigned long long) w_tag(v[k].b));
                                std::printf("\n");
                            }
                        }
                        return false;
                    }
                }
            }
        }

        void analyse(Case& c, bool check_queue);
    };

    struct Ev
    {
        std::uint64_t seq;
        int site;
        std::uint64_t a, b;
        std::uint32_t os;
    };

    inline void Runner::analyse(Case& c, bool check_queue)
    {
        std::vector<Rec> recs;
        drain(recs);
        total_events += long(recs.size());
        // per object, in stamp order
        std::map<void const*, std::vector<Ev>> per;
        long unmodelled = 0;
        for (Rec const& r : recs)
        {
            switch (r.site)
            {
            case 101:
            case 102:
            case 103:
            case 104:
            case 105:
            case 106:
            case 110:
            case 111:
            case 120:
            case 121: per[r.obj].push_back(Ev{r.seq, r.site, r.a, r.b, r.os}); break;
            case 207: per[r.obj].push_back(Ev{r.seq, r.site, r.a, r.b, r.os}); break;
            default: break;
            }
        }
        int chain_no = 0;
        auto mon = [&](char const* what, std::string const& detail) {
            ++mon_hits;
            std::printf("MON %d %s kind=%s %s\n", c.id, what, c.kind.c_str(), detail.c_str());
        };
        for (auto& [obj, evs] : per)
        {
            // split into incarnations at 105 (rebind) / 106 (constructor)
            std::size_t i = 0;
            while (i < evs.size() && evs[i].site != 105 && evs[i].site != 106) ++i;    // tail of an older incarnation
            while (i < evs.size())
            {
                std::size_t j = i + 1;
                while (j < evs.size() && evs[j].site != 105 && evs[j].site != 106) ++j;
                // incarnation [i, j)
                std::uint64_t w0 = evs[i].b;
                struct Tr
                {
                    int site;
                    std::uint64_t o, n;
                };
                std::vector<Tr> tr;
                int enters = 0, depth = 0;
                bool alt_ok = true;
                std::vector<std::uint64_t> push_tags;
                bool push_bad = false;
                std::uint64_t push_bad_w = 0;
                for (std::size_t k = i + 1; k < j; ++k)
                {
                    Ev const& e = evs[k];
                    if (e.site >= 101 && e.site <= 104) tr.push_back(Tr{e.site, e.a, e.b});
                    else if (e.site == 110)
                    {
                        ++enters;
                        if (depth != 0) alt_ok = false;
                        depth = 1;
                        if (w_st(e.b) != ST_ACTIVE) alt_ok = false;
                    }
                    else if (e.site == 111)
                    {
                        if (depth != 1) alt_ok = false;
                        depth = 0;
                    }
                    else if (e.site == 120)
                    {
                        if (w_st(e.a) != ST_PENDING)
                        {
                            push_bad = true;
                            push_bad_w = e.a;
                        }
                        push_tags.push_back(w_tag(e.a));
                    }
                    else if (e.site == 207)
                    {
                        // helper abort: state equal, word different; the model additionally
                        // says the tag moved on (state_ex is constant in the modelled fragment)
                        if (w_tag(e.a) == w_tag(e.b)) ++unmodelled;
                    }
                }
                std::sort(tr.begin(), tr.end(), [](Tr const& x, Tr const& y) {
                    if (w_tag(x.o) != w_tag(y.o)) return w_tag(x.o) < w_tag(y.o);
                    return w_tag(x.n) < w_tag(y.n);
                });
                if (w_st(w0) == ST_PENDING && w_tag(w0) == 0)
                {
                    std::string s;
                    char buf[96];
                    for (Tr const& t : tr)
                    {
                        std::snprintf(buf, sizeof buf, "%s%d:%d:%llu:%d:%llu", s.empty() ? "" : ",", t.site, w_st(t.o),
                            (unsigned long long) w_tag(t.o), w_st(t.n), (unsigned long long) w_tag(t.n));
                        s += buf;
                    }
                    std::printf("IN CHAIN %d.%d %s\n", c.id, chain_no, s.empty() ? "-" : s.c_str());
                    std::printf("OUT CHAIN %d.%d acc=1 acts=%d\n", c.id, chain_no, enters);
                    ++chain_no;
                    ++total_chains;
                }
                else ++unmodelled;
                if (!alt_ok)
                {
                    char buf[128];
                    std::snprintf(buf, sizeof buf, "obj=%p entries=%d: body entry/exit records do not alternate", obj, enters);
                    mon("double_run", buf);
                }
                if (check_queue)
                {
                    if (push_bad)
                    {
                        char buf[160];
                        std::snprintf(buf, sizeof buf, "obj=%p pushed into a queue while its state word is st=%d tag=%llu", obj,
                            w_st(push_bad_w), (unsigned long long) w_tag(push_bad_w));
                        mon("push_nonpending", buf);
                    }
                    std::sort(push_tags.begin(), push_tags.end());
                    for (std::size_t k = 1; k < push_tags.size(); ++k)
                        if (push_tags[k] == push_tags[k - 1])
                        {
                            char buf[160];
                            std::snprintf(buf, sizeof buf, "obj=%p pushed twice for the same pending phase (tag=%llu)", obj,
                                (unsigned long long) push_tags[k]);
                            mon("duplicate_push", buf);
                            break;
                        }
                }
                i = j;
            }
        }
        // monitors on the generated tasks
        for (int k = 0; k < c.K; ++k)
        {
            int en = c.entered[k].load(), exi = c.exited[k].load();
            if (en != 1 || exi != 1)
            {
                char buf[128];
                std::snprintf(buf, sizeof buf, "task=%d entered=%d exited=%d", k, en, exi);
                mon(en > 1 ? "entered_twice" : "not_run_to_completion", buf);
                break;
            }
        }
        if (c.uocc_viol.load() != 0) mon("two_workers_in_body", "user-level occupancy counter saw a second worker inside a body");
        if (g_occ_viol.load() != 0)
        {
            char buf[200];
            std::snprintf(buf, sizeof buf, "obj=%#llx occupied by worker %llu when worker %llu entered (word/info %#llx)",
                (unsigned long long) g_occ_detail[0].load(), (unsigned long long) g_occ_detail[1].load(),
                (unsigned long long) g_occ_detail[2].load(), (unsigned long long) g_occ_detail[3].load());
            mon("occupied", buf);
            g_occ_viol = 0;
        }
        if (c.shared.load() != c.shared_plain) mon("mutex_broken", "counter protected by pika::mutex lost an update");
        std::printf("CASE %d kind=%s tasks=%d events=%zu chains=%d unmodelled=%ld wakeups=%ld\n", c.id, c.kind.c_str(), c.K,
            recs.size(), chain_no, unmodelled, c.wakeups_issued.load());
        std::fflush(stdout);
        total_tasks += c.K;
    }
}    // namespace vt
