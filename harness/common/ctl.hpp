// harness/common/ctl.hpp — lock-step controller: the harness's threads park at every
// PIKA_VERIF_POINT whose site lies in [lo,hi]; the controller releases exactly one parked
// thread per schedule entry, so an interleaving of the *real* code's atomic steps is executed
// deterministically and can be replayed by the Coq model (extracted) step for step.
#pragma once
#include <pika/config.hpp>

#include <chrono>
#include <condition_variable>
#include <cstdint>
#include <cstdio>
#include <cstdlib>
#include <mutex>
#include <string>
#include <vector>

#if !defined(PIKA_VERIF)
#error "harnesses must be compiled with -DPIKA_VERIF"
#endif

namespace vctl {
    enum St { RUN = 0, PARKED = 1, BLOCKED = 2, DONE = 3 };

    struct Slot
    {
        int st = RUN;
        bool go = false;
        int site = 0;
        void const* obj = nullptr;
        std::uint64_t a = 0, b = 0;
        std::condition_variable cv;
    };

    struct Controller;
    inline Controller* g_cur = nullptr;
    inline thread_local int t_id = -1;

    struct Controller
    {
        std::mutex m;
        std::condition_variable ccv;
        std::vector<Slot> s;
        int lo, hi;

        Controller(int T, int lo_, int hi_)
          : s(T)
          , lo(lo_)
          , hi(hi_)
        {
            g_cur = this;
            pika::verif::hook.store(&Controller::hookfn, std::memory_order_release);
        }
        ~Controller()
        {
            pika::verif::hook.store(nullptr, std::memory_order_release);
            g_cur = nullptr;
        }

        void park(int site, void const* obj, std::uint64_t a, std::uint64_t b)
        {
            std::unique_lock l(m);
            Slot& x = s[t_id];
            x.site = site;
            x.obj = obj;
            x.a = a;
            x.b = b;
            x.st = PARKED;
            x.go = false;
            ccv.notify_all();
            x.cv.wait(l, [&] { return x.go; });
        }
        static void hookfn(int site, void const* obj, std::uint64_t a, std::uint64_t b)
        {
            Controller* c = g_cur;
            if (!c || t_id < 0) return;
            if (site < c->lo || site > c->hi) return;
            c->park(site, obj, a, b);
        }
        // called by harness threads
        void begin(int t)
        {
            t_id = t;
            park(0, nullptr, 0, 0);
        }
        void end()
        {
            {
                std::lock_guard l(m);
                s[t_id].st = DONE;
                ccv.notify_all();
            }
            t_id = -1;
        }
        void set_blocked(bool blocked)    // a thread about to block in the OS / woken again
        {
            std::lock_guard l(m);
            s[t_id].st = blocked ? BLOCKED : RUN;
            ccv.notify_all();
        }
        // called by the controlling thread
        bool quiesce(int timeout_ms = 10000)
        {
            std::unique_lock l(m);
            return ccv.wait_for(l, std::chrono::milliseconds(timeout_ms), [&] {
                for (auto& x : s)
                    if (x.st == RUN) return false;
                return true;
            });
        }
        std::vector<int> parked()
        {
            std::lock_guard l(m);
            std::vector<int> r;
            for (int i = 0; i < (int) s.size(); ++i)
                if (s[i].st == PARKED) r.push_back(i);
            return r;
        }
        int site_of(int t)
        {
            std::lock_guard l(m);
            return s[t].site;
        }
        std::uint64_t a_of(int t)
        {
            std::lock_guard l(m);
            return s[t].a;
        }
        void release(int t)
        {
            std::lock_guard l(m);
            s[t].go = true;
            s[t].st = RUN;
            s[t].cv.notify_one();
        }
        void release_all_parked()
        {
            std::lock_guard l(m);
            for (auto& x : s)
                if (x.st == PARKED)
                {
                    x.go = true;
                    x.st = RUN;
                    x.cv.notify_one();
                }
        }
    };

    // splitmix64: every random choice of a harness derives from one seed
    struct Rng
    {
        std::uint64_t x;
        explicit Rng(std::uint64_t seed)
          : x(seed * 0x9E3779B97F4A7C15ull + 0x1234567ull)
        {
        }
        std::uint64_t next()
        {
            std::uint64_t z = (x += 0x9E3779B97F4A7C15ull);
            z = (z ^ (z >> 30)) * 0xBF58476D1CE4E5B9ull;
            z = (z ^ (z >> 27)) * 0x94D049BB133111EBull;
            return z ^ (z >> 31);
        }
        std::uint64_t below(std::uint64_t n) { return n ? next() % n : 0; }
        bool chance(unsigned num, unsigned den) { return below(den) < num; }
    };

    inline std::uint64_t env_u64(char const* name, std::uint64_t dflt)
    {
        char const* v = std::getenv(name);
        return v ? std::strtoull(v, nullptr, 10) : dflt;
    }
}    // namespace vctl
