// harness/common/ctl.hpp — lock-step controller: the harness's threads park at every
// PIKA_VERIF_POINT whose site lies in [lo,hi]; the controller releases exactly one parked
// thread per schedule entry, so an interleaving of the *real* code's atomic steps is executed
// deterministically and can be replayed by the Coq model (extracted) step for step.
#pragma once
#include <pika/config.hpp>

#include <chrono>
#include <condition_variable>
#include <cstdint>
#include <cstdio>
#include <cstdlib>
#include <mutex>
#include <string>
#include <vector>

#if !defined(PIKA_VERIF)
#error "harnesses must be compiled with -DPIKA_VERIF"
#endif

namespace vctl {
    enum St { RUN = 0, PARKED = 1, BLOCKED = 2, DONE = 3 };

    struct Slot
    {
        int st = RUN;
        bool go = false;
        int site = 0;
        void const* obj = nullptr;
        std::uint64_t a = 0, b = 0;
        std::condition_variable cv;
        void const* agent = nullptr;         // this thread's default_agent (learned at 9001/9002)
        void const* waiting_on = nullptr;    // agent this thread is blocked on inside resume()
    };

    struct Controller;
    inline Controller* g_cur = nullptr;
    inline thread_local int t_id = -1;

    struct Controller
    {
        std::mutex m;
        std::condition_variable ccv;
        std::vector<Slot> s;
        int lo, hi;

        Controller(int T, int lo_, int hi_)
          : s(T)
          , lo(lo_)
          , hi(hi_)
        {
            g_cur = this;
            pika::verif::hook.store(&Controller::hookfn, std::memory_order_release);
        }
        ~Controller()
        {
            pika::verif::hook.store(nullptr, std::memory_order_release);
            g_cur = nullptr;
        }

        void park(int site, void const* obj, std::uint64_t a, std::uint64_t b)
        {
            std::unique_lock l(m);
            Slot& x = s[t_id];
            x.site = site;
            x.obj = obj;
            x.a = a;
            x.b = b;
            x.st = PARKED;
            x.go = false;
            ccv.notify_all();
            x.cv.wait(l, [&] { return x.go; });
        }
        static void hookfn(int site, void const* obj, std::uint64_t a, std::uint64_t b)
        {
            Controller* c = g_cur;
            if (!c) return;
            if (site >= 9001 && site <= 9005)
            {
                c->agent_hook(site, obj);
                return;
            }
            if (t_id < 0) return;
            if (site < c->lo || site > c->hi) return;
            c->park(site, obj, a, b);
        }
        // default_agent (plain OS thread) suspend/resume: keeps the controller's view of who can
        // run exact, so that "nobody parked, somebody blocked" is a real deadlock (stuck state)
        bool park_at_suspend = true;
        void agent_hook(int site, void const* agent)
        {
            if (site == 9001)
            {
                if (t_id < 0) return;
                {
                    std::lock_guard l(m);
                    s[t_id].agent = agent;
                }
                if (park_at_suspend) park(9001, agent, 0, 0);
                return;
            }
            std::lock_guard l(m);
            switch (site)
            {
            case 9002:    // caller blocks in suspend(); resumers waiting for it to stop running wake up
                if (t_id >= 0)
                {
                    s[t_id].agent = agent;
                    s[t_id].st = BLOCKED;
                }
                for (auto& x : s)
                    if (x.st == BLOCKED && x.waiting_on == agent)
                    {
                        x.st = RUN;
                        x.waiting_on = nullptr;
                    }
                break;
            case 9003: break;
            case 9004:    // target of resume() is about to be woken
                for (auto& x : s)
                    if (x.agent == agent && x.st == BLOCKED && x.waiting_on == nullptr) x.st = RUN;
                break;
            case 9005:    // resumer blocks until the target suspends
                if (t_id >= 0)
                {
                    s[t_id].st = BLOCKED;
                    s[t_id].waiting_on = agent;
                }
                break;
            }
            ccv.notify_all();
        }
        std::vector<int> blocked()
        {
            std::lock_guard l(m);
            std::vector<int> r;
            for (int i = 0; i < (int) s.size(); ++i)
                if (s[i].st == BLOCKED) r.push_back(i);
            return r;
        }
        // called by harness threads
        void begin(int t)
        {
            t_id = t;
            park(0, nullptr, 0, 0);
        }
        void end()
        {
            {
                std::lock_guard l(m);
                s[t_id].st = DONE;
                ccv.notify_all();
            }
            t_id = -1;
        }
        void set_blocked(bool blocked)    // a thread about to block in the OS / woken again
        {
            std::lock_guard l(m);
            s[t_id].st = blocked ? BLOCKED : RUN;
            ccv.notify_all();
        }
        // called by the controlling thread
        bool quiesce(int timeout_ms = 10000)
        {
            std::unique_lock l(m);
            return ccv.wait_for(l, std::chrono::milliseconds(timeout_ms), [&] {
                for (auto& x : s)
                    if (x.st == RUN) return false;
                return true;
            });
        }
        std::vector<int> parked()
        {
            std::lock_guard l(m);
            std::vector<int> r;
            for (int i = 0; i < (int) s.size(); ++i)
                if (s[i].st == PARKED) r.push_back(i);
            return r;
        }
        int site_of(int t)
        {
            std::lock_guard l(m);
            return s[t].site;
        }
        std::uint64_t a_of(int t)
        {
            std::lock_guard l(m);
            return s[t].a;
        }
        void release(int t)
        {
            std::lock_guard l(m);
            s[t].go = true;
            s[t].st = RUN;
            s[t].cv.notify_one();
        }
        void release_all_parked()
        {
            std::lock_guard l(m);
            for (auto& x : s)
                if (x.st == PARKED)
                {
                    x.go = true;
                    x.st = RUN;
                    x.cv.notify_one();
                }
        }
    };

    // splitmix64: every random choice of a harness derives from one seed
    struct Rng
    {
        std::uint64_t x;
        explicit Rng(std::uint64_t seed)
          : x(seed * 0x9E3779B97F4A7C15ull + 0x1234567ull)
        {
            // scramble: without this Rng(s) and Rng(s+1) are the same stream shifted by one draw
            x = next() ^ (seed * 0xD1342543DE82EF95ull);
            x = next();
        }
        std::uint64_t next()
        {
            std::uint64_t z = (x += 0x9E3779B97F4A7C15ull);
            z = (z ^ (z >> 30)) * 0xBF58476D1CE4E5B9ull;
            z = (z ^ (z >> 27)) * 0x94D049BB133111EBull;
            return z ^ (z >> 31);
        }
        std::uint64_t below(std::uint64_t n) { return n ? next() % n : 0; }
        bool chance(unsigned num, unsigned den) { return below(den) < num; }
    };

    inline std::uint64_t env_u64(char const* name, std::uint64_t dflt)
    {
        char const* v = std::getenv(name);
        return v ? std::strtoull(v, nullptr, 10) : dflt;
    }
}    // namespace vctl
