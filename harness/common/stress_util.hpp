// harness/common/stress_util.hpp — free-running "stress twins" of the lock-step harnesses.
//
// Lock-step (ctl.hpp) can only interleave at the PIKA_VERIF_POINT hooks, i.e. BEFORE each modelled
// atomic step.  A change of the code that splits one atomic step into two (x.exchange(v) ->
// x.load(); x.store(v), a re-check hoisted out of a CAS loop, ...) opens a window that has no hook
// inside, so no controller schedule can expose the race.  The twins built on this header run the
// same real code with REAL concurrency: persistent threads are released from a spin barrier by one
// store, each after a swept number of spin iterations, no controller, no hook installed
// (pika::verif::hook stays null, so PIKA_VERIF_POINT is one relaxed load).  What a trial observes
// is judged by model-independent monitors that evaluate the property itself; they are written so
// that they hold for EVERY interleaving of correct code (no timing assumption), hence a loaded
// machine only reduces the number of trials, never produces a report.
//
// Process structure (same as harness/c03_lock.cpp mode `stress`): the parent forks a child that
// runs trials tr = next, next+1, ...; every trial derives its own Rng from (seed, tr), so a restart
// after an abnormal termination does not shift later trials.  Hangs: a watchdog thread in the child
// prints `BAD <TAG> <trial> ... sig=hang` (with the harness's description of where the threads are)
// when no trial starts or ends for hang_ms (20 s: a trial is a few dozen thread wake-ups, i.e.
// microseconds idle and milliseconds oversubscribed); the run ends after the second hang.  As a
// backstop the child re-arms alarm(60) every 64 (C09: 16) trials: `DIED <TAG> <trial> hang`.  A crash
// becomes `DIED ... segv|abort`.  A monitor failure prints one `BAD` line and leaves the child with
// _exit(9) (the shared state of the component may be corrupt).
//
//   BAD  <TAG> <trial> cls=<class> sig=<signature> <details...>
//   DIED <TAG> <trial> <hang|segv|abort|exit> cls=<class>
//   SUM  <TAG> <class> <trials>
//   DONE <TAG> trials=<n> ms=<elapsed> deaths=<n>
#pragma once
#include "ctl.hpp"

#include <atomic>
#include <chrono>
#include <csignal>
#include <cstdarg>
#include <cstdint>
#include <cstdio>
#include <cstdlib>
#include <cstring>
#include <sys/mman.h>
#include <sys/wait.h>
#include <thread>
#include <unistd.h>

namespace stw {
    inline void spin(int d)
    {
        for (volatile int i = 0; i < d; i = i + 1) {}
    }
    // swept start offset: 0 .. 2^bits-1 spin iterations, small values as likely as large ones
    inline int sweep(vctl::Rng& rng, int bits = 9) { return (int) rng.below(1ull << rng.below((std::uint64_t) bits)); }

    struct Task
    {
        void (*fn)(void* ctx, int role) = nullptr;
        void* ctx = nullptr;
        int role = 0;
        int delay = 0;
    };

    // persistent worker threads released together by ONE store to `gen` (spin barrier)
    struct Pool
    {
        static constexpr int W = 5;    // + the calling thread = up to 6 concurrent roles
        struct alignas(64) Slot
        {
            std::atomic<std::uint64_t> done{0};
            Task t;
        };
        alignas(64) std::atomic<std::uint64_t> gen{0};
        Slot slot[W];
        std::thread th[W];
        void worker(int w)
        {
            std::uint64_t my = 0;
            for (;;)
            {
                std::uint64_t g;
                unsigned spins = 0;
                while ((g = gen.load(std::memory_order_acquire)) == my)
                    if (++spins > 20000) std::this_thread::yield();
                if (g == ~0ull) return;
                my = g;
                Slot& s = slot[w];
                if (s.t.fn)
                {
                    spin(s.t.delay);
                    s.t.fn(s.t.ctx, s.t.role);
                }
                s.done.store(g, std::memory_order_release);
            }
        }
        void begin()
        {
            for (int w = 0; w < W; ++w) th[w] = std::thread([this, w] { worker(w); });
        }
        void end()
        {
            gen.store(~0ull, std::memory_order_release);
            for (int w = 0; w < W; ++w) th[w].join();
        }
        // tasks[0..n), n <= W+1: tasks[mainidx] runs on the calling thread, the others on workers; g must be
        // different from every earlier g of this pool (use trial*k+j+1)
        void run(std::uint64_t g, Task const* tasks, int n, int mainidx)
        {
            int w = 0;
            for (int i = 0; i < n; ++i)
                if (i != mainidx) slot[w++].t = tasks[i];
            for (; w < W; ++w) slot[w].t = Task{};
            gen.store(g, std::memory_order_release);
            spin(tasks[mainidx].delay);
            tasks[mainidx].fn(tasks[mainidx].ctx, tasks[mainidx].role);
            for (w = 0; w < W; ++w)
            {
                unsigned spins = 0;
                while (slot[w].done.load(std::memory_order_acquire) != g)
                    if (++spins > 20000) std::this_thread::yield();
            }
        }
    };

    struct Shm
    {
        std::uint64_t cur;
        int curcls;
        int ncls;
        char names[96][40];
        std::uint64_t per[96];
        std::uint64_t total;
    };
    inline Shm* g_shm = nullptr;
    inline char const* g_tag = "ST";
    // progress watchdog inside the child (optional, see run_forked): a harness may provide a function that
    // describes where the threads of the current trial are (called from the watchdog thread, must only read)
    inline std::atomic<void (*)(char* buf, std::size_t n)> g_hang_describe{nullptr};
    inline std::atomic<std::uint64_t> g_beat{0};

    // called by a trial before it touches the real code: the class of the trial (reported by SUM / DIED)
    inline void set_class(char const* name)
    {
        Shm* s = g_shm;
        int i = 0;
        for (; i < s->ncls; ++i)
            if (!std::strcmp(s->names[i], name)) break;
        if (i == s->ncls)
        {
            if (s->ncls >= 95) i = 95;
            else ++s->ncls;
            std::strncpy(s->names[i], name, 39);
        }
        s->curcls = i;
    }
    // a monitor failed: print the BAD line and leave (never returns)
    [[noreturn]] inline void bad(char const* sig, char const* fmt, ...)
    {
        char buf[1800];
        va_list ap;
        va_start(ap, fmt);
        std::vsnprintf(buf, sizeof buf, fmt, ap);
        va_end(ap);
        std::printf("BAD %s %llu cls=%s sig=%s %s\n", g_tag, (unsigned long long) g_shm->cur, g_shm->names[g_shm->curcls], sig, buf);
        std::fflush(stdout);
        _exit(9);
    }

    // trial(Pool&, trial number, Rng&): runs one trial; calls set_class first; calls bad() on a monitor failure.
    // hang_ms > 0: a watchdog thread in the child reports `BAD ... sig=hang` (exit code 8, the parent stops after
    // the second one) when no trial starts or ends for hang_ms — much longer than any trial can take even on an
    // oversubscribed machine (a trial is a few dozen thread wake-ups); alarm(60) per `alarm_every` trials stays
    // as the backstop.
    template <class F>
    int run_forked(char const* tag, std::uint64_t seed, std::uint64_t ntrials, long budget_ms, F&& trial, int max_deaths = 6, long hang_ms = 0,
        unsigned alarm_every = 64)
    {
        g_tag = tag;
        Shm* shm = (Shm*) mmap(nullptr, sizeof(Shm), PROT_READ | PROT_WRITE, MAP_SHARED | MAP_ANONYMOUS, -1, 0);
        std::memset(shm, 0, sizeof(Shm));
        g_shm = shm;
        auto t0 = std::chrono::steady_clock::now();
        auto elapsed = [&] { return (long) std::chrono::duration_cast<std::chrono::milliseconds>(std::chrono::steady_clock::now() - t0).count(); };
        std::uint64_t next = 0;
        int deaths = 0, hangs = 0;
        while (next < ntrials && elapsed() < budget_ms)
        {
            std::fflush(stdout);
            pid_t pid = fork();
            if (pid == 0)
            {
                if (!std::getenv("STRESS_KEEP_STDERR")) { (void) !freopen("/dev/null", "w", stderr); }
                Pool* P = new Pool;
                P->begin();
                if (hang_ms > 0)
                    std::thread([hang_ms, tag, shm] {
                        std::uint64_t last = ~0ull;
                        long since = 0;
                        for (;;)
                        {
                            usleep(100000);
                            std::uint64_t b = g_beat.load();
                            if (b != last)
                            {
                                last = b;
                                since = 0;
                            }
                            else if ((since += 100) >= hang_ms)
                            {
                                char buf[1500];
                                buf[0] = 0;
                                if (auto f = g_hang_describe.load()) f(buf, sizeof buf);
                                std::printf("BAD %s %llu cls=%s sig=hang the trial made no progress for %ld ms (threads blocked or spinning forever) %s\n", tag,
                                    (unsigned long long) shm->cur, shm->names[shm->curcls], since, buf);
                                std::fflush(stdout);
                                _exit(8);
                            }
                        }
                    }).detach();
                for (std::uint64_t tr = next; tr < ntrials; ++tr)
                {
                    if (((tr - next) % alarm_every) == 0)
                    {
                        // a trial needs every thread to be scheduled at least once: milliseconds each when the
                        // machine is oversubscribed, so one alarm period covers `alarm_every` trials only
                        alarm(60);
                        if (elapsed() >= budget_ms) break;
                    }
                    shm->cur = tr;
                    g_beat.fetch_add(1);
                    vctl::Rng rng(seed * 1000003ull + tr);
                    trial(*P, tr, rng);
                    g_beat.fetch_add(1);
                    ++shm->per[shm->curcls];
                    ++shm->total;
                }
                alarm(0);
                P->end();
                std::fflush(stdout);
                _exit(0);
            }
            int stt = 0;
            waitpid(pid, &stt, 0);
            if (WIFEXITED(stt) && WEXITSTATUS(stt) == 0) break;
            next = shm->cur + 1;
            ++deaths;
            if (WIFEXITED(stt) && WEXITSTATUS(stt) == 8) budget_ms += hang_ms;    // the time the watchdog waited does not count
            if (WIFEXITED(stt) && WEXITSTATUS(stt) == 8 && ++hangs >= 2)    // 8 = BAD ... sig=hang printed by the child's watchdog
            {
                // every hang costs a watchdog period; the second one ends the run (the first may hide a more
                // specific symptom of the same defect that a later trial shows)
                std::printf("SKIPPED %s after %d hangs\n", tag, hangs);
                break;
            }
            if (!(WIFEXITED(stt) && (WEXITSTATUS(stt) == 9 || WEXITSTATUS(stt) == 8)))    // 9 / 8 = BAD line already printed
            {
                char const* what = "abort";
                if (WIFSIGNALED(stt) && WTERMSIG(stt) == SIGALRM) what = "hang";
                else if (WIFSIGNALED(stt) && (WTERMSIG(stt) == SIGSEGV || WTERMSIG(stt) == SIGBUS)) what = "segv";
                else if (WIFEXITED(stt)) what = "exit";
                std::printf("DIED %s %llu %s cls=%s\n", tag, (unsigned long long) shm->cur, what, shm->names[shm->curcls]);
                if (!std::strcmp(what, "hang"))
                {
                    std::printf("SKIPPED %s after a hang (alarm)\n", tag);
                    std::fflush(stdout);
                    break;
                }
            }
            std::fflush(stdout);
            if (deaths >= max_deaths)
            {
                std::printf("SKIPPED %s after %d abnormal terminations\n", tag, deaths);
                break;
            }
        }
        for (int c = 0; c < shm->ncls; ++c)
            if (shm->per[c]) std::printf("SUM %s %s %llu\n", tag, shm->names[c], (unsigned long long) shm->per[c]);
        std::printf("DONE %s trials=%llu ms=%ld deaths=%d\n", tag, (unsigned long long) shm->total, elapsed(), deaths);
        std::fflush(stdout);
        return 0;
    }
}    // namespace stw
