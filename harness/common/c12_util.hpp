// harness/common/c12_util.hpp — C12 helpers shared by c12_swap.cpp and c12_rt.cpp.
// Include from exactly one translation unit per program (defines a top-level asm routine).
#pragma once
#include <cstdint>
#include <cstdio>
#include <cstdlib>
#include <cstring>
#include <string>

// c12_regcheck(fn, arg, base): loads rbx rbp r12 r13 r14 r15 with base+1..base+6, calls fn(arg)
// (which yields / suspends / switches context underneath), and returns a bit mask of the
// registers that do not hold their value afterwards (bit0 rbx, bit1 rbp, bit2 r12, ... bit5 r15),
// bit 6 if the stack pointer differs.  The ABI obliges fn to preserve all of them.
extern "C" std::uint64_t c12_regcheck(void (*fn)(void*), void* arg, std::uint64_t base);

asm(R"(
    .text
    .p2align 4
    .globl c12_regcheck
    .type c12_regcheck, @function
c12_regcheck:
    pushq %rbp
    pushq %rbx
    pushq %r12
    pushq %r13
    pushq %r14
    pushq %r15
    pushq %rdx
    subq  $16, %rsp
    movq  %rsp, (%rsp)
    leaq  1(%rdx), %rbx
    leaq  2(%rdx), %rbp
    leaq  3(%rdx), %r12
    leaq  4(%rdx), %r13
    leaq  5(%rdx), %r14
    leaq  6(%rdx), %r15
    movq  %rdi, %rax
    movq  %rsi, %rdi
    call  *%rax
    xorl  %eax, %eax
    movq  %rsp, %rcx
    cmpq  (%rsp), %rcx
    je    1f
    orq   $64, %rax
1:  movq  16(%rsp), %rdx
    leaq  1(%rdx), %rcx
    cmpq  %rcx, %rbx
    je    2f
    orq   $1, %rax
2:  leaq  2(%rdx), %rcx
    cmpq  %rcx, %rbp
    je    3f
    orq   $2, %rax
3:  leaq  3(%rdx), %rcx
    cmpq  %rcx, %r12
    je    4f
    orq   $4, %rax
4:  leaq  4(%rdx), %rcx
    cmpq  %rcx, %r13
    je    5f
    orq   $8, %rax
5:  leaq  5(%rdx), %rcx
    cmpq  %rcx, %r14
    je    6f
    orq   $16, %rax
6:  leaq  6(%rdx), %rcx
    cmpq  %rcx, %r15
    je    7f
    orq   $32, %rax
7:  addq  $24, %rsp
    popq  %r15
    popq  %r14
    popq  %r13
    popq  %r12
    popq  %rbx
    popq  %rbp
    ret
    .size c12_regcheck, .-c12_regcheck
)");

namespace c12 {
    struct Rng
    {
        std::uint64_t s;
        explicit Rng(std::uint64_t seed)
          : s(seed * 0x9E3779B97F4A7C15ull + 0x1234567ull)
        {
        }
        std::uint64_t next()
        {
            s ^= s << 13;
            s ^= s >> 7;
            s ^= s << 17;
            return s * 0x2545F4914F6CDD1Dull;
        }
        std::uint64_t below(std::uint64_t n) { return n ? next() % n : 0; }
    };

    // permissions of the mapping that contains addr ("rw-p", "---p", ...) or "" if unmapped
    inline std::string perms_at(std::uintptr_t addr)
    {
        FILE* f = std::fopen("/proc/self/maps", "r");
        if (!f) return "?";
        char line[512];
        std::string res;
        while (std::fgets(line, sizeof line, f))
        {
            unsigned long lo, hi;
            char p[8];
            if (std::sscanf(line, "%lx-%lx %7s", &lo, &hi, p) == 3 && addr >= lo && addr < hi)
            {
                res = p;
                break;
            }
        }
        std::fclose(f);
        return res;
    }

    inline std::uint64_t pattern(std::uint64_t task, std::uint64_t depth, std::uint64_t i)
    {
        std::uint64_t x = task * 0x9E3779B97F4A7C15ull ^ (depth + 1) * 0xC2B2AE3D27D4EB4Full ^ (i + 1) * 0x165667B19E3779F9ull;
        x ^= x >> 29;
        return x * 0xBF58476D1CE4E5B9ull;
    }
}    // namespace c12
